"""C15: proposals conclude only by their voting rule, once, with one vote per admin.

Drivers: harness/gov  (sub-commands gov, gov-i, decide) against the real RoleManager + Governance +
NodeManager + ProposalStrategy contracts.  Model: coq/theories/Model/{Strategy,Gov}.v.
The judge (Gov.check_case, Strategy.judge_decide) runs inside Coq: first the property predicate
on the implementation's own trace, then model = implementation."""
import json
import os
import random
import shutil
import subprocess
import threading
from fractions import Fraction

import vlib
from vlib import glist

PID = "C15"
# Defect flags (bits of Gov.defects_of_bits) of findings that are still OPEN in known_findings.d/C15.json.
# 1 zero_open | 2 underflow | 4 avail_voted | 8 special_updavail | 16 unlock_closed | 32 logout_inc.
# All six were repaired in /repo (known_findings.d/C15.json "fixed"): the current tree must match the
# repaired model exactly.
CFG_CURRENT = int(os.environ.get("C15_CFG", "0"))
FLAG_NAMES = {1: "zero_open", 2: "underflow", 4: "avail_voted", 8: "special_updavail", 16: "unlock_closed", 32: "logout_inc"}

CLAUSES = {1: "a finished proposal changed (status / tallies / end reason / ballots)",
           2: "tally is not the number of distinct electors' ballots",
           3: "a recorded ballot was dropped or overwritten",
           4: "approved by the tally although the strategy expression does not hold",
           5: "rejected by the tally although approval was still reachable",
           6: "special proposal concluded by the tally before a super administrator voted",
           7: "a refused transaction changed state, or a vote / withdrawal / reserved-method call that must be refused was accepted",
           8: "governed object changed without a proposal about it being created or concluded",
           9: "proposal header / frozen electorate wrong",
           10: "electors counted as available do not cover voters + available non-voters",
           11: "more electors counted as available than the electorate has",
           12: "status indexes (proposed / pause, feeding GetNotClosedProposals) do not list exactly the proposals of that status",
           13: "stored record of a finished proposal rewritten (AvailableElectorateNum / ThresholdApproveNum changed)"}

# ------------------------------------------------------------------------------------------------
# strategy expressions: AST <-> govaluate string <-> Gallina term <-> python evaluation
# numeric: 'a' 'r' 't' ('c', Fraction) ('+',x,y) ('-',x,y) ('*',x,y) ('/',x,('c',q))
# boolean: (op,x,y) with op in == != < <= > >= | ('&&',p,q) ('||',p,q) ('!',p) ('lit',b)

CMP = {"==": "CEq", "!=": "CNe", "<": "CLt", "<=": "CLe", ">": "CGt", ">=": "CGe"}


def C(x):
    return ("c", Fraction(x))


def n_go(e, top=False):
    if e in ("a", "r", "t"):
        return e
    if e[0] == "c":
        q = e[1]
        if q.denominator == 1:
            return str(q.numerator)
        s = "%.10f" % float(q)
        return s.rstrip("0")
    s = "%s %s %s" % (n_go(e[1]), e[0], n_go(e[2]))
    return s if top else "(" + s + ")"


def b_go(e, top=True):
    if e[0] in CMP:
        s = "%s %s %s" % (n_go(e[1], True), e[0], n_go(e[2], True))
        return s if top else "(" + s + ")"
    if e[0] in ("&&", "||"):
        s = "%s %s %s" % (b_go(e[1], False), e[0], b_go(e[2], False))
        return s if top else "(" + s + ")"
    if e[0] == "!":
        return "!" + b_go(e[1], False)
    return "true" if e[1] else "false"


def n_coq(e):
    if e == "a":
        return "NA"
    if e == "r":
        return "NR"
    if e == "t":
        return "NT"
    if e[0] == "c":
        return "(NConst (%d#%d))" % (e[1].numerator, e[1].denominator)
    return "(%s %s %s)" % ({"+": "NAdd", "-": "NSub", "*": "NMul", "/": "NDiv"}[e[0]], n_coq(e[1]), n_coq(e[2]))


def b_coq(e):
    if e[0] in CMP:
        return "(BCmp %s %s %s)" % (CMP[e[0]], n_coq(e[1]), n_coq(e[2]))
    if e[0] == "&&":
        return "(BAnd %s %s)" % (b_coq(e[1]), b_coq(e[2]))
    if e[0] == "||":
        return "(BOr %s %s)" % (b_coq(e[1]), b_coq(e[2]))
    if e[0] == "!":
        return "(BNot %s)" % b_coq(e[1])
    return "(BLit %s)" % ("true" if e[1] else "false")


def n_ev(e, a, r, t):
    if e == "a":
        return Fraction(a)
    if e == "r":
        return Fraction(r)
    if e == "t":
        return Fraction(t)
    if e[0] == "c":
        return e[1]
    x, y = n_ev(e[1], a, r, t), n_ev(e[2], a, r, t)
    return {"+": x + y, "-": x - y, "*": x * y, "/": (x / y if y != 0 else Fraction(0))}[e[0]]


def b_ev(e, a, r, t):
    if e[0] in CMP:
        x, y = n_ev(e[1], a, r, t), n_ev(e[2], a, r, t)
        return {"==": x == y, "!=": x != y, "<": x < y, "<=": x <= y, ">": x > y, ">=": x >= y}[e[0]]
    if e[0] == "&&":
        return b_ev(e[1], a, r, t) and b_ev(e[2], a, r, t)
    if e[0] == "||":
        return b_ev(e[1], a, r, t) or b_ev(e[2], a, r, t)
    if e[0] == "!":
        return not b_ev(e[1], a, r, t)
    return e[1]


def admitted_py(e, n):
    return any(b_ev(e, a, 0, n) for a in range(n + 1))


def mono_py(e, t, bound=None):
    """monotone on the domain a, r in [0..bound] (default t): more approvals / fewer rejections never falsify"""
    bound = min(max(t, bound or 0), 64)
    for a in range(bound + 1):
        for r in range(bound + 1):
            if b_ev(e, a, r, t):
                if any(not b_ev(e, a2, r, t) for a2 in range(a, bound + 1)):
                    return False
                if any(not b_ev(e, a, r2, t) for r2 in range(0, r + 1)):
                    return False
    return True


DEFAULT = (">", "a", ("*", C("1/2"), "t"))
POOL_MONO = [
    DEFAULT,
    (">=", "a", ("*", C("3/4"), "t")),
    (">=", "a", C(1)), (">=", "a", C(2)), (">=", "a", C(3)),
    ("==", "a", "t"),
    (">", "a", "r"),
    (">=", ("-", "a", "r"), C(1)),
    (">=", "a", ("-", "t", C(1))),
    (">", ("*", "a", C(2)), "t"),
    (">=", ("/", "a", C(2)), C(1)),
    ("&&", (">=", "a", C(2)), ("<=", "r", C(1))),
    ("||", (">=", "a", C(3)), ("&&", (">=", "a", C(2)), ("==", "r", C(0)))),
    (">=", ("+", "a", C("1/2")), ("*", C("5/8"), "t")),
    (">", ("-", ("*", "a", C(2)), "r"), ("*", C("1/2"), "t")),
    ("!", ("<", "a", C(2))),
]
POOL_NONMONO = [
    ("==", "a", C(2)), ("==", "a", C(1)), ("<=", "a", C(1)), ("==", "a", C(0)),
    ("||", ("<", "a", C(1)), (">", "a", C(2))),
    ("!=", "a", C(1)),
    ("||", (">=", "a", C(3)), (">=", "r", C(2))),
    ("&&", (">=", "a", C(1)), ("<", "a", C(3))),
    ("==", ("-", "a", "r"), C(1)),
]
assert b_go(DEFAULT) == "a > 0.5 * t"

STATUS = {1: "sU", 2: "sRg", 3: "sA", 4: "sFz", 5: "sF", 6: "sAc", 7: "sL", 8: "sFb", 9: "sUp", 10: "sX"}
EVENT = {0: "eReg", 1: "eUpd", 2: "eFrz", 3: "eAct", 4: "eLog", 9: "sX"}
PREAMBLE = """From BX Require Import Base.Prelude Model.Strategy Model.Gov.
From Coq Require Import String QArith.
Local Open Scope N_scope.
Definition sU := "unavailable"%string. Definition sRg := "registering"%string. Definition sA := "available"%string.
Definition sFz := "freezing"%string. Definition sF := "frozen"%string. Definition sAc := "activating"%string.
Definition sL := "logouting"%string. Definition sFb := "forbidden"%string. Definition sUp := "updating"%string.
Definition sX := "?"%string.
Definition eReg := "register"%string. Definition eUpd := "update"%string. Definition eFrz := "freeze"%string.
Definition eAct := "activate"%string. Definition eLog := "logout"%string.
Definition P := @mkP N. Definition H := @mkH N. Definition S := @mkS N.
Definition T := true. Definition F := false.
"""


def gb(b):
    return "T" if b else "F"


def coq_prop(p):
    lock = "None" if p["lock"] < 0 else "(Some %d%%nat)" % p["lock"]
    expr = p["expr"] if p["expr"] >= 0 else 999
    hdr = "(H %d %d %d %s %d %s %s %d %s %s %d None %s)" % (
        p["from"], p["seq"], p["kind"], EVENT.get(p["ev"], "sX"), p["obj"], STATUS.get(p["last"], "sX"),
        glist(p["elect"], lambda e: "(%d,%d)" % (e[0], e[1])), p["t"], gb(p["special"]), gb(p["zero"]), expr, lock)
    return "(P %s %d %d %s %d %d %s %d %d 0 [])" % (
        hdr, p["st"], p["reason"], glist(p["ballots"], lambda b: "(%d,%s)" % (b[0], gb(b[1] == 1))),
        p["a"], p["r"], gb(p["super"]), p["av"], p["th"])


def coq_state(o):
    roles = [r for r in o["roles"] if r[1] != 0]
    nodes = [x for x in o["nodes"] if x[1] != 0]
    strat = [(i, s) for i, s in enumerate(o["strat"]) if s[0] >= 0]
    return "(S %s %s %s %s %s %s)" % (
        glist(roles, lambda r: "(%d,(%s,%d))" % (r[0], STATUS.get(r[1], "sX"), r[2])),
        glist(nodes, lambda x: "(%d,%s)" % (300 + x[0], STATUS.get(x[1], "sX"))),
        glist(strat, lambda s: "(%d,(%s,%d,%s))" % (s[0], gb(s[1][0] == 1), s[1][1] if s[1][1] >= 0 else 999, STATUS.get(s[1][2], "sX"))),
        glist(o["props"], coq_prop),
        glist(o.get("pl") or [], lambda i: "%d%%nat" % i), glist(o.get("ql") or [], lambda i: "%d%%nat" % i))


def coq_op(o):
    k = o["k"]
    c = o.get("c", 0)
    x = o.get("x", 0)
    if k == "reg_role":
        return "(ORegRole %d %d)" % (c, x)
    if k == "freeze":
        return "(OFreeze %d %d)" % (c, x)
    if k == "activate":
        return "(OActivate %d %d)" % (c, x)
    if k == "logout":
        return "(OLogout %d %d)" % (c, x)
    if k == "reg_node":
        return "(ORegNode %d %d)" % (c, 300 + x)
    if k == "logout_node":
        return "(OLogoutNode %d %d)" % (c, 300 + x)
    if k == "vote":
        return "(OVote %d %d%%nat %d)" % (c, o.get("p", 0), o.get("b", 0))
    if k == "withdraw":
        return "(OWithdraw %d %d%%nat)" % (c, o.get("p", 0))
    if k == "zero":
        return "(OZero %d %d%%nat)" % (c, o.get("p", 0))
    if k == "upd_strategy":
        return "(OUpdStrategy %d %d %s %d)" % (c, x, gb(o.get("b", 0) == 1), o.get("e", 0))
    if k == "guarded":
        return "(OGuarded %d)" % c
    return "OBad"


def case_term(h, init, steps, cfgs, skip=()):
    """h: history header + blocks (one op per block); init/steps: observations"""
    accts = sorted({r[0] for r in init["roles"]})
    nodes = sorted({300 + x[0] for x in init["nodes"]})
    strat = [(i, s) for i, s in enumerate(h["strat"])]
    tr = []
    for b, so in zip(h["blocks"], steps):
        o = b[0]
        rc = so["rc"][0][1] if so["rc"] else 9
        tr.append("(%s, %d, %s)" % (coq_op(o), rc, coq_state(so)))
    return "(check_case %s %s %s %s %s %s\n  %s %s %s)" % (
        glist(h["_ast"], b_coq), glist(accts), glist(nodes), glist(h["weights"]),
        glist(strat, lambda s: "(%d,(%s,%d,sA))" % (s[0], gb(s[1][0] == 1), s[1][1])),
        coq_state(init), glist(tr, lambda x: x).replace("; (", ";\n   ("), glist(cfgs), glist(list(skip)))


def eval_cases(ctx, name, terms, shard=60):
    """evaluate check_case terms in Coq (parallel shards); returns list of (p, m) or None"""
    if not terms:
        return []
    chunks = [terms[i:i + shard] for i in range(0, len(terms), shard)]
    srcs = []
    for ch in chunks:
        src = PREAMBLE + "".join("Definition c%d := %s.\n" % (i, t) for i, t in enumerate(ch))
        src += "Definition M := Eval vm_compute in %s.\nPrint M.\n" % glist(["c%d" % i for i in range(len(ch))])
        srcs.append(src)
    outs = par_coq(name, srcs)
    res = []
    for ch, (rc, out) in zip(chunks, outs):
        vs = vlib.parse_verdicts(out)
        if rc != 0 or vs is None or len(vs) != len(ch):
            ctx.broken("correspondence:check_case", out[-1500:])
            return None
        res += vs
    return res


def par_coq(name, srcs, timeout=1500):
    """run several cases files concurrently (vlib.coq_eval is sequential)"""
    os.makedirs(vlib.CASES, exist_ok=True)
    procs = []
    maxp = 8
    results = [None] * len(srcs)
    idx = 0
    running = []
    while idx < len(srcs) or running:
        while idx < len(srcs) and len(running) < maxp:
            nm = "%s_%d_%d" % (name, os.getpid(), idx)
            path = os.path.join(vlib.CASES, nm + ".v")
            open(path, "w").write(srcs[idx])
            p = subprocess.Popen(["timeout", str(timeout), "coqc", "-Q", os.path.join(vlib.COQ, "theories"), "BX", "-Q", os.path.join(vlib.COQ, "gen"), "BXGen",
                                  "-Q", vlib.CASES, "BXCases", path], cwd=vlib.CASES, stdout=subprocess.PIPE, stderr=subprocess.STDOUT, text=True)
            running.append((idx, nm, p))
            idx += 1
        i, nm, p = running.pop(0)
        out, _ = p.communicate()
        results[i] = (p.returncode, out)
        for ext in (".v", ".vo", ".vok", ".vos", ".glob"):
            try:
                os.remove(os.path.join(vlib.CASES, nm + ext))
            except OSError:
                pass
        try:
            os.remove(os.path.join(vlib.CASES, "." + nm + ".aux"))
        except OSError:
            pass
    return results


# ------------------------------------------------------------------------------------------------
# interactive driver session (adaptive generation)

_drv_seq = [0]
_drv_lock = threading.Lock()


class Driver:
    def __init__(self, exe):
        with _drv_lock:
            _drv_seq[0] += 1
            k = _drv_seq[0]
        self.tmp = os.path.join("/tmp", "verif-gov-%d-%d" % (os.getpid(), k))
        os.makedirs(self.tmp, exist_ok=True)
        self.p = subprocess.Popen([exe, "gov-i"], stdin=subprocess.PIPE, stdout=subprocess.PIPE, stderr=subprocess.DEVNULL,
                                  text=True, env=dict(os.environ, TMPDIR=self.tmp))

    def ask(self, obj):
        self.p.stdin.write(json.dumps(obj, separators=(",", ":")) + "\n")
        self.p.stdin.flush()
        line = self.p.stdout.readline()
        if not line:
            raise RuntimeError("driver died")
        return json.loads(line)

    def close(self):
        try:
            self.p.stdin.close()
            self.p.wait(timeout=20)
        except Exception:
            self.p.kill()
        shutil.rmtree(self.tmp, ignore_errors=True)


def pick_pool(r, n, nonmono_p):
    pool = [DEFAULT]
    want = r.randint(2, 4)
    tries = 0
    while len(pool) < 1 + want and tries < 40:
        tries += 1
        src = POOL_NONMONO if r.random() < nonmono_p else POOL_MONO
        e = r.choice(src)
        if e not in pool:
            pool.append(e)
    return pool


def gen_header(r, nonmono_p=0.2):
    n = r.choices([1, 2, 3, 4, 5, 6, 7], [4, 8, 20, 26, 20, 12, 10])[0]
    u = r.random()
    weights = [1] * n
    if u < 0.7:
        weights[r.randrange(n)] = 2
    elif u < 0.85:
        for i in r.sample(range(n), min(2, n)):
            weights[i] = 2
    elif u < 0.95:
        weights = [2] * n
    pool = pick_pool(r, n, nonmono_p)
    adm = [i for i, e in enumerate(pool) if admitted_py(e, n)]
    strat = []
    for m, zp in enumerate([0.10, 0.2, 0.4]):
        if r.random() < zp:
            strat.append([1, r.choice(range(len(pool)))])
        else:
            cand = adm if (adm and r.random() < 0.97) else list(range(len(pool)))
            strat.append([0, r.choice(cand)])
    return dict(n=n, weights=weights, strat=strat, exprs=[b_go(e) for e in pool], _ast=pool,
                accts=[100, 101, 200, 201], nodes=2, blocks=[])


def gen_op(r, h, obs):
    """choose the next op from the current observation (mostly valid, some invalid)"""
    n = h["n"]
    props = obs["props"]
    roles = {x[0]: (x[1], x[2]) for x in obs["roles"]}
    nodes = {x[0]: x[1] for x in obs["nodes"]}
    avail = [a for a, (s, w) in roles.items() if s in (3, 4)]
    admins_all = [a for a, (s, w) in roles.items() if s not in (0, 1, 2)]
    outsiders = [200, 201]
    opens = [i for i, p in enumerate(props) if p["st"] == 0]
    paused = [i for i, p in enumerate(props) if p["st"] == 1]
    closed = [i for i, p in enumerate(props) if p["st"] >= 2]

    def any_caller():
        return r.choice(avail) if avail and r.random() < 0.9 else r.choice(list(roles.keys()) + outsiders)

    for _ in range(30):
        u = r.random()
        if u < 0.40:
            if not opens:
                continue
            i = r.choice(opens)
            p = props[i]
            voted = {b[0] for b in p["ballots"]}
            cand = [e[0] for e in p["elect"] if e[0] in avail and e[0] not in voted]
            if not cand:
                continue
            # super admins vote a bit later than the others so that special proposals stay open for a while
            supers = [c for c in cand if roles[c][1] == 2]
            if supers and len(cand) > len(supers) and r.random() < 0.6:
                cand = [c for c in cand if c not in supers]
            return dict(k="vote", c=r.choice(cand), p=i, b=1 if r.random() < 0.62 else 0)
        if u < 0.50:
            kind = r.randrange(7)
            allp = list(range(len(props)))
            if kind == 0 and allp:
                return dict(k="vote", c=r.choice(outsiders), p=r.choice(allp), b=r.randrange(2))
            if kind == 1 and allp:
                un = [a for a in admins_all if a not in avail]
                if un:
                    return dict(k="vote", c=r.choice(un), p=r.choice(allp), b=r.randrange(2))
            if kind == 2 and opens:
                i = r.choice(opens)
                vs = [b[0] for b in props[i]["ballots"] if b[0] in avail]
                if vs:
                    return dict(k="vote", c=r.choice(vs), p=i, b=r.randrange(2))
            if kind == 3 and opens and avail:
                i = r.choice(opens)
                return dict(k="vote", c=r.choice(avail), p=i, b=r.choice([2, 3, 4, 5]))
            if kind == 4 and (closed or paused) and avail:
                return dict(k="vote", c=r.choice(avail), p=r.choice(closed + paused), b=r.randrange(2))
            if kind == 5 and avail:
                return dict(k="vote", c=r.choice(avail), p=len(props) + r.randrange(3), b=1)
            if kind == 6 and opens and avail:
                i = r.choice(opens)
                non = [a for a in avail if a not in {e[0] for e in props[i]["elect"]}]
                if non:
                    return dict(k="vote", c=r.choice(non), p=i, b=r.randrange(2))
            continue
        if u < 0.78:
            kind = r.choices(["reg_role", "freeze", "activate", "logout", "reg_node", "logout_node", "upd_strategy"],
                             [22, 22, 12, 14, 12, 8, 10])[0]
            c = any_caller()
            if kind == "reg_role":
                cand = [a for a in (100, 101, 200) if roles.get(a, (0, 0))[0] in (0, 1)]
                if cand:
                    return dict(k=kind, c=c, x=r.choice(cand))
            elif kind == "freeze":
                cand = [a for a in avail if roles[a][0] == 3 and roles[a][1] != 2 and a != c]
                if cand:
                    return dict(k=kind, c=c, x=r.choice(cand))
            elif kind == "activate":
                cand = [a for a, (s, w) in roles.items() if s == 5]
                if cand:
                    x = r.choice(cand)
                    return dict(k=kind, c=(x if r.random() < 0.3 else c), x=x)
            elif kind == "logout":
                cand = [a for a, (s, w) in roles.items() if s in (3, 4, 5, 6) and w != 2]
                if cand:
                    x = r.choice(cand)
                    return dict(k=kind, c=(x if r.random() < 0.3 else c), x=x)
            elif kind == "reg_node":
                cand = [j for j, s in nodes.items() if s in (0, 1)]
                if cand:
                    return dict(k=kind, c=c, x=r.choice(cand))
            elif kind == "logout_node":
                cand = [j for j, s in nodes.items() if s == 3]
                if cand:
                    return dict(k=kind, c=c, x=r.choice(cand))
            else:
                m = r.randrange(3)
                return dict(k=kind, c=c, x=m, b=1 if r.random() < 0.25 else 0, e=r.randrange(len(h["exprs"])))
            continue
        if u < 0.85:
            cand = opens + paused
            if cand and r.random() < 0.8:
                i = r.choice(cand)
                return dict(k="withdraw", c=(props[i]["from"] if r.random() < 0.8 else any_caller()), p=i)
            if props:
                i = r.randrange(len(props) + 1)
                return dict(k="withdraw", c=(props[i]["from"] if i < len(props) and r.random() < 0.5 else any_caller()), p=i)
            continue
        if u < 0.91:
            if props:
                zs = [i for i, p in enumerate(props) if p["zero"]]
                i = r.choice(zs) if zs and r.random() < 0.7 else r.randrange(len(props) + 1)
                return dict(k="zero", c=r.choice(outsiders + list(roles.keys())), p=i)
            continue
        if u < 0.95:
            return dict(k="guarded", c=r.choice(outsiders + avail) if avail else 200, x=r.choice(list(roles.keys())),
                        b=r.randrange(7), p=r.randrange(len(props) + 1), n=r.choice([0, 1, 2, 5]))
        # invalid manager calls
        kind = r.randrange(6)
        if kind == 0 and avail:
            a = r.choice(avail)
            return dict(k="freeze", c=a, x=a)
        if kind == 1:
            sup = [a for a, (s, w) in roles.items() if w == 2]
            if sup and avail:
                return dict(k=r.choice(["freeze", "logout"]), c=r.choice(avail), x=r.choice(sup))
        if kind == 2 and avail:
            return dict(k="activate", c=r.choice(avail), x=r.choice(list(roles.keys())))
        if kind == 3 and avail:
            return dict(k="reg_role", c=r.choice(avail), x=r.choice(list(roles.keys())))
        if kind == 4:
            k = r.choice(["reg_role", "freeze", "reg_node", "upd_strategy"])
            return dict(k=k, c=r.choice(outsiders), x=(r.choice([0, 1, 100]) if k in ("reg_role", "freeze") else r.randrange(2)), b=0, e=0)
        if kind == 5 and avail:
            return dict(k="logout_node", c=r.choice(avail), x=r.randrange(2))
    return dict(k="guarded", c=200, x=0, b=0, p=0, n=0)


def pub(h):
    """history without private fields, as fed to the driver / stored in replays"""
    return {k: v for k, v in h.items() if not k.startswith("_")}


def gen_histories(ctx, exe, count, maxlen, nonmono_p=0.2, workers=8):
    """adaptive generation on `workers` interactive drivers in parallel; deterministic for a seed:
    every worker has its own generator seeded from ctx.rng and results are concatenated in order"""
    workers = max(1, min(workers, count))
    seeds = [ctx.rng.getrandbits(64) for _ in range(workers)]
    shares = [count // workers + (1 if i < count % workers else 0) for i in range(workers)]
    outs = [None] * workers

    def work(i):
        outs[i] = gen_histories_seq(ctx, exe, random.Random(seeds[i]), shares[i], maxlen, nonmono_p)

    ts = [threading.Thread(target=work, args=(i,)) for i in range(workers)]
    for t in ts:
        t.start()
    for t in ts:
        t.join()
    return [x for o in outs if o for x in o]


def gen_histories_seq(ctx, exe, r, count, maxlen, nonmono_p=0.2):
    d = Driver(exe)
    out = []
    try:
        for _ in range(count):
            h = gen_header(r, nonmono_p)
            a = d.ask(pub(h))
            if "err" in a:
                ctx.broken("driver:gov-i", a["err"])
                break
            init = a["init"]
            h["_admitted"] = a["admitted"]
            obs = init
            steps = []
            L = r.randint(max(4, maxlen // 3), maxlen)
            for _ in range(L):
                o = gen_op(r, h, obs)
                so = d.ask({"ops": [o]})
                if "err" in so:
                    ctx.broken("driver:gov-i", so["err"])
                    break
                h["blocks"].append([o])
                steps.append(so)
                obs = so
            d.ask({"end": True})
            out.append((h, init, steps))
    finally:
        d.close()
    return out


def gen_theme(r):
    """scripted histories around the situations the property singles out: the electorate shrinks
    (freeze / logout of an elector through its own proposal) while another proposal is open, so that
    t (electorate at creation) differs from the available count; exactly-half tallies; a logout
    request over a pending freeze / activate request (priorities, pause / restore); logout of a frozen
    admin; zero-permission strategies with ZeroPermission calls by outsiders"""
    n = r.randint(3, 7)
    weights = [2] + [1] * (n - 1)
    if r.random() < 0.2 and n > 3:
        weights[r.randrange(1, n)] = 2
    pool = [DEFAULT]
    for e in r.sample(POOL_MONO[1:], 2) + ([r.choice(POOL_NONMONO)] if r.random() < 0.15 else []):
        if e not in pool:
            pool.append(e)
    adm = [i for i, e in enumerate(pool) if admitted_py(e, n)]
    ei = r.choice(adm) if r.random() < 0.6 else 0
    strat = [[0, ei], [0, ei], [0, 0]]
    normals = [i for i in range(n) if weights[i] != 2]
    admins = list(range(n))
    blocks = []
    np_ = [0]

    def submit(kind, c, x):
        blocks.append([dict(k=kind, c=c, x=x)])
        np_[0] += 1
        return np_[0] - 1

    def votes(p, voters, ballot=None):
        for v in voters:
            blocks.append([dict(k="vote", c=v, p=p, b=(r.randrange(2) if ballot is None else ballot))])

    def approve_all(p, skip=()):
        order = [a for a in admins if a not in skip]
        votes(p, order, 1)

    theme = r.choice("ABCDEFFGGHHII")
    if theme == "A":
        P = submit(r.choice(["reg_node", "reg_role"]), 0, 0 if r.random() < 0.5 else 100)
        if blocks[-1][0]["k"] == "reg_role":
            blocks[-1][0]["x"] = 100
        early = r.sample(admins, r.randint(0, n - 1))
        votes(P, early)
        if normals:
            x = r.choice(normals)
            F = submit("freeze", 0, x)
            approve_all(F, skip=[x] if r.random() < 0.5 else [])
        rest = [a for a in admins if a not in early]
        r.shuffle(rest)
        votes(P, rest)
    elif theme == "B":
        if normals:
            x = r.choice(normals)
            F = submit("freeze", 0, x)
            approve_all(F)
            P = submit("reg_node", 0, 0)
            votes(P, r.sample(admins, r.randint(0, 2)))
            L = submit("logout", r.choice([0, x]), x)
            votes(P, r.sample(admins, r.randint(0, 2)))
            votes(L, admins, r.randrange(2))
            if r.random() < 0.5:
                A = submit("activate", r.choice([0, x]), x)
                approve_all(A)
            votes(P, r.sample(admins, n))
    elif theme == "C":
        P = submit("reg_node", 0, 0)
        order = r.sample(admins, n)
        votes(P, order[: n // 2], 1)
        if normals and r.random() < 0.6:
            x = r.choice(normals)
            F = submit("freeze", 0, x)
            approve_all(F)
        votes(P, order[n // 2:], 1)
    elif theme == "D":
        if normals:
            x = r.choice(normals)
            first = r.choice(["freeze", "activate"])
            if first == "activate":
                F0 = submit("freeze", 0, x)
                approve_all(F0)
            F = submit(first, 0, x)
            votes(F, r.sample(admins, r.randint(0, 2)))
            L = submit("logout", 0, x)
            if r.random() < 0.3:
                blocks.append([dict(k="withdraw", c=0, p=F)])
            votes(F, r.sample(admins, 1))
            votes(L, admins, r.randrange(2))
            votes(F, r.sample(admins, n))
    elif theme == "F":
        # a proposal concluded through the electorate path (a non-voted elector is frozen so that
        # approval becomes unreachable, or the shrunk electorate no longer matters), followed by
        # further electorate changes of its other non-voted electors: nothing of it may change again
        if len(normals) >= 3:
            strat = [[0, 0], [0, 0], [0, 0]]
            P = submit(r.choice(["reg_node", "reg_role"]), 0, 0)
            if blocks[-1][0]["k"] == "reg_role":
                blocks[-1][0]["x"] = 100
                votes(P, [0], r.randrange(2))
            xs = r.sample(normals, min(len(normals), r.randint(2, 3)))
            rejecters = [a for a in normals if a not in xs][: max(1, (n - 1) // 2)]
            votes(P, rejecters, 0)
            for x in xs:
                F = submit("freeze", 0, x)
                approve_all(F, skip=[x])
                if r.random() < 0.6:
                    A = submit("activate", 0, x)
                    approve_all(A, skip=[x])
            votes(P, r.sample(admins, 2))
    elif theme == "G":
        # priorities: a freeze (or activate) request of X is paused by a logout request of X; while it
        # is paused other electors are frozen / activated; the logout request is then withdrawn or
        # rejected, the paused one re-opens and is voted: its count of available electors must be current
        if len(normals) >= 3:
            strat = [[0, 0], [0, 0], [0, 0]]
            x = normals[0]
            cs = r.sample(normals[1:], min(len(normals) - 1, r.randint(1, 2)))
            P1 = submit("freeze", 0, x)
            pre = r.random() < 0.7
            if pre:
                for c in cs:
                    F = submit("freeze", 0, c)
                    approve_all(F, skip=[c, x] if r.random() < 0.5 else [c])
            P2 = submit("logout", 0, x)
            for c in cs:
                A = submit("activate" if pre else "freeze", 0, c)
                approve_all(A, skip=[c, x])
            if r.random() < 0.5:
                blocks.append([dict(k="withdraw", c=0, p=P2)])
            else:
                votes(P2, [a for a in admins if a != x], 0)
            others = [a for a in normals if a != x and a not in cs]
            votes(P1, others[: max(1, len(others))], 0)
            votes(P1, [0] + cs, 1)
    elif theme == "I":
        # an elector of an OPEN proposal is frozen (counted out once) and then a logout request is made
        # for him while he is frozen / being activated: the request must not count him out again
        if len(normals) >= 2:
            strat = [[0, 0], [0, 0], [0, 0]]
            x = r.choice(normals)
            P = submit(r.choice(["reg_node", "reg_role"]), 0, 0)
            if blocks[-1][0]["k"] == "reg_role":
                blocks[-1][0]["x"] = 100
            votes(P, r.sample([a for a in admins if a != x], r.randint(0, 1)))
            F = submit("freeze", 0, x)
            approve_all(F, skip=[x])
            if r.random() < 0.3:
                A = submit("activate", 0, x)
            L = submit("logout", r.choice([0, x]), x)
            votes(P, r.sample([a for a in admins if a != x], min(2, n - 1)))
            votes(L, [a for a in admins if a != x], r.randrange(2))
            votes(P, [a for a in admins if a != x], 1)
    elif theme == "H":
        # two or three proposals open at once whose frozen electorates DIFFER (an admin frozen at one
        # submission and active at another), then freeze / activate of admins that are electors of
        # only some of them: every proposal is recounted over its OWN electorate only
        if len(normals) >= 3:
            strat = [[0, 0], [0, 0], [0, 0]]
            c = r.choice(normals)
            others = [a for a in normals if a != c]
            F = submit("freeze", 0, c)
            approve_all(F, skip=[c])
            Pb = submit("reg_node", 0, 0)
            A = submit("activate", 0, c)
            approve_all(A, skip=[c])
            Pc = submit(r.choice(["reg_node", "reg_role"]), 0, 1)
            if blocks[-1][0]["k"] == "reg_role":
                blocks[-1][0]["x"] = 100
            if r.random() < 0.5 and len(others) >= 3:
                d = others[-1]
                F2 = submit("freeze", 0, d)
                approve_all(F2, skip=[d, c])
                Pd = submit("reg_role", 0, 101)
            votes(Pb, others[:1], 0)
            if r.random() < 0.5:
                votes(Pc, others[1:2], r.randrange(2))
            F3 = submit("freeze", 0, c)
            approve_all(F3, skip=[c])
            votes(Pb, [0] + others[1:], 1)
            votes(Pc, [0] + others, r.randrange(2))
    else:
        strat = [[0, ei], [1, 0], [1, 0]]
        P = submit("reg_node", 0, 0)
        blocks.append([dict(k="zero", c=200, p=P)])
        S = submit("upd_strategy", 0, 1)
        blocks[-1][0].update(b=0, e=ei)
        if ei == 0:
            blocks[-1][0].update(b=0, e=0)
        L = submit("logout_node", 0, 0)
        blocks.append([dict(k="zero", c=r.choice([200, 1]), p=r.choice([P, L]))])
        votes(L, admins, r.randrange(2))
    return dict(n=n, weights=weights, strat=strat, exprs=[b_go(e) for e in pool], _ast=pool,
                accts=[100, 101, 200, 201], nodes=2, blocks=blocks)


def run_lines(exe, sub, lines, workers=8, timeout=3600):
    """feed JSON lines to `workers` driver processes in parallel (own TMPDIR each); returns outputs in order or (None, err)"""
    if not lines:
        return [], ""
    workers = max(1, min(workers, (len(lines) + 19) // 20))
    chunks = [lines[i::workers] for i in range(workers)]
    res = [None] * workers
    errs = [""] * workers

    def work(i):
        with _drv_lock:
            _drv_seq[0] += 1
            k = _drv_seq[0]
        tmp = os.path.join("/tmp", "verif-gov-%d-%d" % (os.getpid(), k))
        os.makedirs(tmp, exist_ok=True)
        try:
            inp = "\n".join(json.dumps(l, separators=(",", ":")) for l in chunks[i]) + "\n"
            rc, o, e = vlib.sh([exe, sub], inp=inp, timeout=timeout, env=dict(os.environ, TMPDIR=tmp))
            outs = []
            for l in o.splitlines():
                l = l.strip()
                if l.startswith("{"):
                    try:
                        outs.append(json.loads(l))
                    except ValueError:
                        pass
            if rc != 0 or len(outs) != len(chunks[i]):
                errs[i] = "rc=%d got %d of %d answers %s" % (rc, len(outs), len(chunks[i]), e[-1000:])
            else:
                res[i] = outs
        except Exception as ex:  # noqa: BLE001
            errs[i] = "exception in driver worker: %r" % (ex,)
        finally:
            shutil.rmtree(tmp, ignore_errors=True)

    ts = [threading.Thread(target=work, args=(i,)) for i in range(workers)]
    for t in ts:
        t.start()
    for t in ts:
        t.join()
    if any(r is None for r in res):
        return None, "; ".join(e for e in errs if e)
    out = [None] * len(lines)
    for i in range(workers):
        for j, o in enumerate(res[i]):
            out[i + j * workers] = o
    return out, ""


def run_batch(exe, hs):
    """run complete histories through the batch driver; returns list of (init, steps) or None"""
    outs, e = run_lines(exe, "gov", [pub(h) for h in hs])
    if outs is None:
        return None, e
    res = []
    for o in outs:
        if o.get("err"):
            return None, o["err"]
        res.append((o["init"], o["steps"] or []))
    return res, ""


# ------------------------------------------------------------------------------------------------

def allowed_cfgs():
    bits = [b for b in FLAG_NAMES if CFG_CURRENT & b]
    subs = [0]
    for b in bits:
        subs += [s | b for s in subs]
    return sorted(set(subs), key=lambda s: -bin(s).count("1"))


def has_garbage_ballot(steps):
    return any(b[1] not in (0, 1) for so in steps for p in so["props"] for b in p["ballots"])


def classify(h, init, steps, v, known):
    """-> ('ok'|'known'|'violation'|'broken'|'domain', id_or_text)"""
    p, m = v
    if p != 0:
        step, clause = p // 16, p % 16
        so = steps[step] if step < len(steps) else None
        if clause == 5 and so is not None and "C15-nonmonotone-expression" in known:
            # explained by the listed finding only if a proposal rejected in this step carries an
            # expression that is non-monotone on its own domain
            prev = steps[step - 1]["props"] if step > 0 else init["props"]
            for i, q in enumerate(so["props"]):
                was_open = i >= len(prev) or prev[i]["st"] < 2
                if was_open and q["st"] == 3 and q["reason"] in (1, 5) and 0 <= q["expr"] < len(h["_ast"]):
                    if not mono_py(h["_ast"][q["expr"]], max(q["t"], 1), q["av"]):
                        return "known", "C15-nonmonotone-expression"
        if clause == 11 and so is not None and m == 0 and "C15-available-drift" in known:
            # explained by the listed finding only if (the model reproduces the trace and) this step
            # concluded a role proposal that makes its role available again - a rejected logout or an
            # approved activation -, that role is an elector of every proposal that now counts more
            # available electors than its electorate, and each of those counts grew by exactly one
            prev = steps[step - 1]["props"] if step > 0 else init["props"]
            roles = {x[0]: x[1] for x in so["roles"]}
            objs = [q["obj"] for i, q in enumerate(so["props"])
                    if q["kind"] == 0 and ((q["ev"] == 4 and q["st"] == 3) or (q["ev"] == 3 and q["st"] == 2))
                    and (i >= len(prev) or prev[i]["st"] < 2) and roles.get(q["obj"]) in (3, 4)]
            over = [(i, q) for i, q in enumerate(so["props"]) if q["av"] > q["t"] and (i >= len(prev) or prev[i]["av"] <= prev[i]["t"])]
            if objs and over and all(i < len(prev) and q["av"] == prev[i]["av"] + 1 and any(e[0] in objs for e in q["elect"]) for i, q in over):
                return "known", "C15-available-drift"
        return "violation", "step %d: %s" % (step, CLAUSES.get(clause, "clause %d" % clause))
    if m == 0:
        return "ok", ""
    if m == 1000:
        return "domain", ""
    return "broken", "model and implementation differ first at step %d" % (m - 1)


def nontrivial(steps):
    acc = sum(1 for so in steps for rc in so["rc"] if rc[0] == 1)
    rej = sum(1 for so in steps for rc in so["rc"] if rc[0] == 0)
    concl = any(p["st"] >= 2 for p in (steps[-1]["props"] if steps else []))
    return acc > 0 and rej > 0 and concl


def hist_key(h):
    return json.dumps([h["n"], h["weights"], h["strat"], h["exprs"], h["blocks"]], sort_keys=True)


def shrink(ctx, exe, h, want):
    """delta-debug the op list keeping the same verdict signature `want`"""
    cur = h
    cfgs = allowed_cfgs()

    def test(cands):
        res, err = run_batch(exe, cands)
        if res is None:
            return None
        vs = eval_cases(ctx, "C15_shrink", [case_term(c, ini, st, cfgs) for c, (ini, st) in zip(cands, res)])
        if vs is None:
            return None
        return [sig(v) == want for v in vs]

    for _ in range(6):
        n = len(cur["blocks"])
        if n <= 1:
            break
        cands = []
        for i in range(n):
            c = dict(cur)
            c["blocks"] = cur["blocks"][:i] + cur["blocks"][i + 1:]
            cands.append(c)
        ok = test(cands)
        if ok is None:
            break
        removable = [i for i, x in enumerate(ok) if x]
        if not removable:
            break
        # try dropping all individually removable ops at once, then halves of them, then just one
        done = False
        sets = [removable, removable[: len(removable) // 2], removable[len(removable) // 2:]]
        trial = []
        for rs in sets:
            if len(rs) > 1:
                c = dict(cur)
                c["blocks"] = [b for i, b in enumerate(cur["blocks"]) if i not in rs]
                trial.append(c)
        if trial:
            ok2 = test(trial)
            if ok2:
                for c, x in zip(trial, ok2):
                    if x:
                        cur = c
                        done = True
                        break
        if not done:
            cur = cands[removable[-1]]
    return cur


def sig(v):
    p, m = v
    if p != 0:
        return ("prop", p % 16)
    if m not in (0, 1000):
        return ("diff", 0)
    return ("ok", 0)


def replay_obj(h, init, steps, v, what):
    return dict(property=PID, driver="gov", history=pub(h), ast=[b_go(e) for e in h["_ast"]], impl=dict(init=init, steps=steps),
                verdict=list(v), what=what, cfg_current=CFG_CURRENT)


def ast_of_strings(strs):
    """recover ASTs for a stored history (expressions come from the pools)"""
    table = {b_go(e): e for e in POOL_MONO + POOL_NONMONO}
    return [table[s] for s in strs]


MAX_PER_SIG = 2


def report(ctx, stats, sigkey, what, rep):
    """at most MAX_PER_SIG replays per kind of violation; the rest is only counted"""
    k = "viol:" + sigkey
    stats[k] = stats.get(k, 0) + 1
    if stats[k] <= MAX_PER_SIG:
        ctx.violation(what, rep)
        return True
    return False


def process(ctx, exe, batch, known, stats, do_shrink=True):
    """judge a batch of (h, init, steps)"""
    cfgs = allowed_cfgs()
    good = []
    for h, init, steps in batch:
        if has_garbage_ballot(steps):
            ctx.violation("a ballot that is neither approve nor reject was recorded", replay_obj(h, init, steps, (2, 2), "garbage ballot recorded"))
            continue
        if len(steps) != len(h["blocks"]):
            continue
        good.append((h, init, steps))
    terms = [case_term(h, init, steps, cfgs) for h, init, steps in good]
    vs = eval_cases(ctx, "C15_gov", terms)
    if vs is None:
        return
    # look behind instances of listed findings: re-judge with the explained codes skipped
    skips = [[] for _ in good]
    for _round in range(8):
        again = []
        for k, ((h, init, steps), v) in enumerate(zip(good, vs)):
            kind, info = classify(h, init, steps, v, known)
            if kind == "known" and v[0] not in skips[k]:
                ctx.known(info, known[info]["what"])
                stats["known:" + info] = stats.get("known:" + info, 0) + 1
                skips[k].append(v[0])
                again.append(k)
        if not again:
            break
        vs2 = eval_cases(ctx, "C15_gov_skip", [case_term(*good[k], cfgs, skips[k]) for k in again])
        if vs2 is None:
            return
        for k, v2 in zip(again, vs2):
            vs[k] = v2
    for (h, init, steps), v in zip(good, vs):
        kind, info = classify(h, init, steps, v, known)
        stats[kind] = stats.get(kind, 0) + 1
        ctx.count(case_key=hist_key(h), nontrivial=nontrivial(steps),
                  sample=dict(driver="gov", n=h["n"], weights=h["weights"], exprs=h["exprs"], ops=len(h["blocks"]), verdict=list(v)))
        ctx.traces_validated += 1
        for b in h["blocks"]:
            stats["op:" + b[0]["k"]] = stats.get("op:" + b[0]["k"], 0) + 1
        for so in steps:
            for rc in so["rc"]:
                stats["rc:%d" % rc[1]] = stats.get("rc:%d" % rc[1], 0) + 1
        if kind == "ok" or kind == "domain":
            continue
        if kind == "known":
            ctx.known(info, known[info]["what"])
            continue
        hh = h
        ini, st, vv = init, steps, v
        sk = "%s:%d" % sig(v)
        if stats.get("viol:" + sk, 0) >= MAX_PER_SIG:
            stats["viol:" + sk] += 1
            continue
        if do_shrink and len(h["blocks"]) > 2 and stats.get("viol:" + sk, 0) == 0 and stats.get("shrinks", 0) < 3:
            stats["shrinks"] = stats.get("shrinks", 0) + 1
            hs = shrink(ctx, exe, h, sig(v))
            if hs is not h:
                res, _ = run_batch(exe, [hs])
                if res:
                    vs2 = eval_cases(ctx, "C15_shrunk", [case_term(hs, res[0][0], res[0][1], cfgs)])
                    if vs2 and sig(vs2[0]) == sig(v):
                        hh, ini, st, vv = hs, res[0][0], res[0][1], vs2[0]
                        kind, info = classify(hh, ini, st, vv, known)
        if kind == "violation":
            report(ctx, stats, sk, info, replay_obj(hh, ini, st, vv, info))
        elif kind == "broken":
            # the property holds on the implementation's trace but the model does not reproduce it
            ctx.broken("correspondence:check_case", info + " :: " + json.dumps(replay_obj(hh, ini, st, vv, info))[:3000])


# ------------------------------------------------------------------------------------------------
# pure differential run of MakeStrategyDecision / CheckStrategyExpression

def decide_cases(ctx):
    r = ctx.rng
    cases = []
    exprs = POOL_MONO + POOL_NONMONO
    top = 5 if ctx.quick else 8
    for e in exprs:
        for t in range(0, top + 1):
            for avail in sorted({0, 1, t // 2, t, t + 1}):
                for a in range(0, t + 1):
                    for rr in range(0, t + 2):
                        if ctx.quick and r.random() < 0.6:
                            continue
                        if avail - (a + rr) > 60:
                            continue
                        cases.append((e, a, rr, t, avail, t))
    for _ in range(300 if ctx.quick else 20000):
        e = r.choice(exprs)
        t = r.choice([1, 2, 3, 4, 5, 6, 7, 10, 20])
        a = r.randrange(0, t + 1)
        rr = r.randrange(0, t + 3)
        avail = r.choice([t, t, max(0, t - 1), max(0, t - 2), r.randrange(0, t + 2), a + rr])
        cases.append((e, a, rr, t, avail, r.choice([t, max(t - 1, 0), t + 1])))
    # huge values: only comparisons against small numbers stay exact
    for e in [DEFAULT, (">=", "a", C(3)), ("==", "a", C(2))]:
        for (a, rr, t, avail) in [(0, 3, 4, 2), (1, 2 ** 63, 4, 2 ** 63 - 1), (0, 1, 4, 0), (2 ** 53 + 1, 0, 4, 2 ** 53 + 1), (0, 2 ** 64 - 1, 7, 2 ** 64 - 2)]:
            cases.append((e, a, rr, t, avail, 4))
    return cases


def run_decide(ctx, exe, known, stats):
    cases = decide_cases(ctx)
    lines = [dict(expr=b_go(e), a=a, r=rr, t=t, avail=av, n=n) for (e, a, rr, t, av, n) in cases]
    outs, err = run_lines(exe, "decide", lines, workers=2)
    if outs is None or len(outs) != len(cases):
        ctx.broken("driver:decide", err[-1500:])
        return
    uf = "true" if (CFG_CURRENT & 2) else "false"
    rows = []
    for (e, a, rr, t, av, n), o in zip(cases, outs):
        if o["err"] or o["panic"] or o["adm_panic"]:
            rows.append(None)
            continue
        rows.append("(%s, (%d, %d, %d, %d), %d, (%s, %s, %s))" % (b_coq(e), a, rr, t, av, n, gb(o["end"]), gb(o["pass"]), gb(o["admitted"])))
    idx = [i for i, x in enumerate(rows) if x is not None]
    chunks = [idx[i:i + 800] for i in range(0, len(idx), 800)]
    srcs = []
    for ch in chunks:
        srcs.append("From BX Require Import Base.Prelude Model.Strategy.\nFrom Coq Require Import QArith.\nLocal Open Scope N_scope.\n"
                    "Definition T := true. Definition F := false.\n"
                    "Definition cases : list (bexp * (N * N * N * N) * N * (bool * bool * bool)) :=\n %s.\n"
                    "Definition M := Eval vm_compute in map (judge_decide %s) cases.\nPrint M.\n" % (glist([rows[i] for i in ch]), uf))
    res = par_coq("C15_decide", srcs)
    for ch, (rc2, out) in zip(chunks, res):
        vs = vlib.parse_verdicts(out)
        if rc2 != 0 or vs is None or len(vs) != len(ch):
            ctx.broken("correspondence:judge_decide", out[-1500:])
            return
        for i, v in zip(ch, vs):
            e, a, rr, t, av, n = cases[i]
            o = outs[i]
            ctx.count(case_key=("d", b_go(e), a, rr, t, av), nontrivial=o["end"], sample=dict(driver="decide", input=lines[i], impl=o, verdict=list(v)))
            ctx.traces_validated += 1
            stats["decide:%d" % v[0]] = stats.get("decide:%d" % v[0], 0) + 1
            if v[0] in (0, 3):
                continue
            rep = dict(property=PID, driver="decide", input=lines[i], impl=o, verdict=list(v))
            if v[0] == 2 and not mono_py(e, max(t, 1), av) and "C15-nonmonotone-expression" in known and o["end"] and not o["pass"]:
                ctx.known("C15-nonmonotone-expression", known["C15-nonmonotone-expression"]["what"])
            elif v[0] == 2:
                report(ctx, stats, "decide:" + ("underflow" if rr > av else "other"),
                       "MakeStrategyDecision: decision not justified by the expression (a=%d r=%d t=%d avail=%d, %s)" % (a, rr, t, av, b_go(e)), rep)
            else:
                ctx.broken("correspondence:judge_decide", "first differing case: " + json.dumps(rep))
    # errors / panics must be exactly the ill-typed inputs: none of the pool expressions is ill-typed
    for i, x in enumerate(rows):
        if x is None:
            ctx.violation("MakeStrategyDecision / CheckStrategyExpression failed on a well-formed expression",
                          dict(property=PID, driver="decide", input=lines[i], impl=outs[i]))
            break


# ------------------------------------------------------------------------------------------------
# exhaustive vote sequences (thorough tier): every order of every ballot assignment for <= 4 admins

def exhaustive_histories(ctx):
    import itertools
    hs = []
    exprs = POOL_MONO[:10] + POOL_NONMONO[:5]
    for n in range(1, 5):
        for wi, weights in enumerate([[2] + [1] * (n - 1), [1] * (n - 1) + [2], [2] * n]):
            for e in exprs:
                if not admitted_py(e, n):
                    continue
                pool = [DEFAULT, e] if e != DEFAULT else [DEFAULT]
                ei = len(pool) - 1
                for kind in ("reg_node", "reg_role"):
                    if kind == "reg_role" and wi == 2 and n > 2:
                        continue
                    for ballots in itertools.product([0, 1], repeat=n):
                        perms = list(itertools.permutations(range(n)))
                        if n == 4:
                            perms = ctx.rng.sample(perms, 6)
                        for perm in perms:
                            blocks = [[dict(k=kind, c=0, x=(0 if kind == "reg_node" else 100))]]
                            for v in perm:
                                blocks.append([dict(k="vote", c=v, p=0, b=ballots[v])])
                            hs.append(dict(n=n, weights=weights, strat=[[0, ei], [0, ei], [0, 0]], exprs=[b_go(x) for x in pool], _ast=pool,
                                           accts=[100, 200], nodes=1, blocks=blocks))
    return hs


# ------------------------------------------------------------------------------------------------

def load_corpus():
    out = []
    d = vlib.CORPUS
    if not os.path.isdir(d):
        return out
    for f in sorted(os.listdir(d)):
        if f.startswith("C15_") and f.endswith(".json"):
            o = json.load(open(os.path.join(d, f)))
            if o.get("driver") != "gov":
                continue
            h = dict(o["history"])
            h["_ast"] = ast_of_strings(h["exprs"])
            h["_name"] = f
            out.append(h)
    return out


def run(ctx):
    ctx.proofs(["Proofs/StrategyProofs", "Proofs/GovProofs"], model_targets=["Strategy", "Gov"])
    exe, err = vlib.build_harness("gov")
    if exe is None:
        ctx.broken("harness-build", err)
        return ctx.finish(rule="-")
    known = {f["id"]: f for f in vlib.known_findings() if f["property"] == PID and f.get("status") == "open"}
    stats = {}
    if ctx.model_ok:
        run_decide(ctx, exe, known, stats)
        corpus = load_corpus()
        if corpus:
            res, e = run_batch(exe, corpus)
            if res is None:
                ctx.broken("driver:gov", e)
            else:
                process(ctx, exe, [(h, ini, st) for h, (ini, st) in zip(corpus, res)], known, stats, do_shrink=False)
        count, maxlen = (360, 18) if ctx.quick else (8000, 26)
        done = 0
        while done < count:
            k = min(300, count - done)
            batch = gen_histories(ctx, exe, k, maxlen)
            process(ctx, exe, batch, known, stats)
            done += k
            if ctx.violations and done >= 300:
                break
        themed = [gen_theme(ctx.rng) for _ in range(180 if ctx.quick else 4000)]
        for i in range(0, len(themed), 400):
            part = themed[i:i + 400]
            res, e = run_batch(exe, part)
            if res is None:
                ctx.broken("driver:gov", e)
                break
            process(ctx, exe, [(h, ini, st) for h, (ini, st) in zip(part, res)], known, stats)
        stats["themed_histories"] = len(themed)
        if not ctx.quick:
            hs = exhaustive_histories(ctx)
            for i in range(0, len(hs), 400):
                part = hs[i:i + 400]
                res, e = run_batch(exe, part)
                if res is None:
                    ctx.broken("driver:gov", e)
                    break
                process(ctx, exe, [(h, ini, st) for h, (ini, st) in zip(part, res)], known, stats)
            stats["exhaustive_histories"] = len(hs)
    ctx.extra["distribution"] = stats
    ctx.extra["cfg_current"] = CFG_CURRENT
    return ctx.finish(rule="gov: adaptive histories (admin sets of 1-7 with random weights, strategy expressions from a pool of monotone and "
                           "non-monotone expressions admitted by CheckStrategyExpression, per-module vote / zero-permission strategies; ops chosen from the "
                           "implementation's current observation: valid votes, votes by outsiders / unavailable admins / repeated / garbage / on finished, "
                           "role register-freeze-activate-logout, node register-logout, strategy updates, withdrawals, ZeroPermission and guarded-method "
                           "calls by outsiders) + corpus + (thorough) every vote order x ballot assignment for <= 4 admins x expression pool; "
                           "decide: grid + random (expr, a, r, t, avail) incl. r > avail. non-trivial = at least one accepted and one refused "
                           "transaction and a concluded proposal (gov) / a concluded decision (decide); distinct by full history")


def replay(ctx, path):
    obj = json.load(open(path))
    exe, err = vlib.build_harness("gov")
    if exe is None:
        print("harness build failed", err)
        return 1
    if obj.get("driver") == "decide":
        outs, e = run_lines(exe, "decide", [obj["input"]])
        print(json.dumps(dict(input=obj["input"], impl=outs)))
        return 0
    h = dict(obj["history"])
    h["_ast"] = ast_of_strings(h["exprs"])
    res, e = run_batch(exe, [h])
    if res is None:
        print("driver failed", e)
        return 1
    ini, st = res[0]
    vs = eval_cases(ctx, "C15_replay", [case_term(h, ini, st, allowed_cfgs())])
    known = {f["id"]: f for f in vlib.known_findings() if f["property"] == PID and f.get("status") == "open"}
    kind, info = classify(h, ini, st, vs[0], known) if vs else ("error", "")
    print(json.dumps(dict(history=pub(h), impl=dict(init=ini, steps=st), verdict=vs[0] if vs else None, kind=kind, info=info)))
    return 0 if kind in ("ok", "known", "domain") else 1
