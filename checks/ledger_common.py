"""Shared machinery of the state-ledger checks (C10, C12, C13): abstract histories, the driver
run, Gallina rendering of histories / observed traces, the in-Coq judge call, shrinking.

An op is a tuple; first element is the kind:
  ("getbal",a) ("getnonce",a) ("getcode",a) ("get",a,k) ("query",a,p)
  ("setbal",a,z) ("setnonce",a,n) ("setcode",a,c|None) ("set",a,k,v|None) ("add",a,k,v|None)
  ("snap",) ("revert",id) ("finalise",) ("clear",) ("flush",) ("commit",h) ("rollback",h)
  ("version",) ("reopen",) ("evict",a,layer,k) ("dbdump",) ("dump",)
k, p, v, c are bytes.  A history is a list of ops; a case is a group (list) of histories."""
import json
import os
import vlib
from vlib import glist

# three accounts whose index order, raw-byte order and EIP-55 string order are pairwise different
ADDRS = ["f173541b4438a25cf76312d4eeb3c2246879bf00",
         "b3cf8ed13abf129a3097ad96b442d6d1bdef4850",
         "ce4b39c15bffad5c2dfb8bb820b6119cba8ff887"]
KEYS = [b"", b"a", b"ab", b"abc", b"b", b"ba"]          # keys that are prefixes of each other
PREFIXES = [b"", b"a", b"ab", b"b", b"c"]
VALS = [None, b"", b"v1", b"v2", b"w1", b"x"]
CODES = [b"", b"c1", b"c2", b"\x60\x00"]
BALS = [0, 1, 5, 7, 100, 2**70, -30]
NONCES = [0, 1, 2, 3, 2**64 - 1]

EXTRA_PROOFS = ["Proofs/RootProofs", "Proofs/RefineMain", "Proofs/RefineProps"]
R_NAMES = {"ok": 0, "higher": 1, "toomuch": 2, "nojournal": 3, "panic": 4, "err": 5, "badop": 5, "hang": 6}


# ---------------------------------------------------------------- JSON for the driver

def hx(b):
    return None if b is None else b.hex()


def op_json(o):
    k = o[0]
    if k in ("getbal", "getnonce", "getcode", "suicide"):
        return {"o": k, "a": o[1]}
    if k in ("get", "query", "getcommitted"):
        return {"o": k, "a": o[1], "k": hx(o[2])}
    if k in ("setbal", "addbal"):
        return {"o": k, "a": o[1], "z": str(o[2])}
    if k == "setnonce":
        return {"o": k, "a": o[1], "n": o[2]}
    if k == "setcode":
        return {"o": k, "a": o[1], "v": hx(o[2])}
    if k in ("set", "add"):
        return {"o": k, "a": o[1], "k": hx(o[2]), "v": hx(o[3])}
    if k in ("revert", "commit", "rollback"):
        return {"o": k, "n": o[1]}
    if k == "evict":
        return {"o": k, "a": o[1], "n": o[2], "k": hx(o[3])}
    if k == "raw":          # malformed-stream op passed through verbatim
        return o[1]
    return {"o": k}


# True while the histories are to be run on the full ledger.Ledger (state + chain ledger + blockfile)
DRIVER_FULL = False


def history_json(ops, keys=KEYS, codes=CODES, addrs=ADDRS):
    j = {"addrs": addrs, "keys": [k.hex() for k in keys], "codes": [c.hex() for c in codes],
         "ops": [op_json(o) for o in ops]}
    if DRIVER_FULL:
        j["full"] = True
    return j


# ---------------------------------------------------------------- Gallina rendering

def gbytes(b):
    return "[" + "; ".join(str(x) for x in b) + "]"


def gval(b):
    return "None" if b is None else "(Some %s)" % gbytes(b)


def gz(z):
    return "(%d)%%Z" % z


def gop(o, keys=KEYS, naddr=len(ADDRS)):
    k = o[0]
    if k == "getbal":
        return "GetBal %d" % o[1]
    if k == "getnonce":
        return "GetNonce %d" % o[1]
    if k == "getcode":
        return "GetCode %d" % o[1]
    if k == "get":
        return "GetSt %d %s" % (o[1], gbytes(o[2]))
    if k == "query":
        return "Query %d %s" % (o[1], gbytes(o[2]))
    if k == "getcommitted":
        return "GetCommitted %d %s" % (o[1], gbytes(o[2]))
    if k == "setbal":
        return "SetBal %d %s" % (o[1], gz(o[2]))
    if k == "addbal":
        return "AddBal %d %s" % (o[1], gz(o[2]))
    if k == "suicide":
        # Suiside(addr) (EVM SELFDESTRUCT) as coded: the suicided flag is never read by Commit (Suicided() is the
        # constant false), so its whole effect is SetBalance(0) plus a second, redundant undo entry; the model
        # and the specification therefore see the op SetBal a 0 (the driver issues SetBalance(0) itself when the
        # ledger does not know the account: Suiside dereferences a nil account there, no SELFDESTRUCT can do that)
        return "SetBal %d %s" % (o[1], gz(0))
    if k == "setnonce":
        return "SetNonce %d %d" % (o[1], o[2])
    if k == "setcode":
        return "SetCode %d %s" % (o[1], gval(o[2]))
    if k == "set":
        return "SetSt %d %s %s" % (o[1], gbytes(o[2]), gval(o[3]))
    if k == "add":
        return "AddSt %d %s %s" % (o[1], gbytes(o[2]), gval(o[3]))
    if k == "snap":
        return "Snap"
    if k == "revert":
        return "Revert %d" % o[1]
    if k == "finalise":
        return "Finalise"
    if k == "clear":
        return "Clear"
    if k == "flush":
        return "Flush"
    if k == "commit":
        return "Commit %d" % o[1]
    if k == "rollback":
        return "Rollback %d" % o[1]
    if k == "version":
        return "Version"
    if k == "reopen":
        return "Reopen"
    if k == "evict":
        return "Evict %d %d %s" % (o[1], o[2], gbytes(o[3]))
    if k == "dbdump":
        return "DbDump"
    if k == "dump":
        return "Dump U_accts U_keys"
    raise ValueError(o)


def unhex(s):
    return None if s is None else bytes.fromhex(s)


def gacct(a):
    """[nonce, balance-string, codehash-hex|None] -> Gallina option acct"""
    if a is None:
        return "None"
    return "(Some (mkAcct %d %s %s))" % (a[0], gz(int(a[1])), gval(unhex(a[2])))


def gsout(kind, ob):
    if kind == "getbal":
        return "SZ %s" % gz(int(ob["z"]))
    if kind == "getnonce":
        return "SN %d" % ob["n"]
    if kind in ("getcode", "getcommitted"):
        return "SVal %s" % gval(unhex(ob["b"]))
    if kind == "get":
        return "SGet %s %s" % ("true" if ob["e"] else "false", gval(unhex(ob["b"])))
    raise ValueError(kind)


def gout(o, ob, keys=KEYS, naddr=len(ADDRS)):
    """observed output of op o (a dict from the driver) as a Gallina [out]"""
    k = o[0]
    if "r" in ob and ob["r"] in ("panic", "badop") and k not in ("revert", "commit", "rollback", "reopen"):
        return "ORes %d" % R_NAMES[ob["r"]]
    if k in ("getbal", "getnonce", "getcode", "get", "getcommitted"):
        return "OS (%s)" % gsout(k, ob)
    if k == "query":
        return "OQuery %s %s" % ("true" if ob["e"] else "false", glist(ob["l"], lambda s: gval(unhex(s))))
    if k in ("snap", "version"):
        return "OS (SN %d)" % ob["n"]
    if k in ("revert", "commit", "rollback", "reopen"):
        return "ORes %d" % R_NAMES[ob["r"]]
    if k == "flush":
        return "OFlush %s %s" % (gbytes(unhex(ob["root"])), glist(ob["dirty"]))
    if k == "dump":
        l = ob["l"]
        outs = []
        per = 3 + len(keys)
        for i, x in enumerate(l):
            j = i % per
            kind = ["getbal", "getnonce", "getcode"][j] if j < 3 else "get"
            outs.append(gsout(kind, x))
        return "ODump %s" % glist(outs)
    if k == "dbdump":
        accts = glist(ob["acct"] or [], lambda r: "(%d, mkAcct %d %s %s, %s)" % (
            r[0], r[1][0], gz(int(r[1][1])), gval(unhex(r[1][2])), gbytes(unhex(r[2]))))
        codes = glist(ob["code"] or [], lambda r: "(%d, %s)" % (r[0], gbytes(unhex(r[1]))))
        sts = glist(ob["st"] or [], lambda r: "(%d, %s, %s)" % (r[0], gbytes(unhex(r[1])), gbytes(unhex(r[2]))))

        def gje(e):
            return "mkJE %d %s %s %s %s %s" % (
                e[0], "true" if e[1] else "false", gacct(e[2]),
                glist(e[3] or [], lambda p: "(%s, %s)" % (gbytes(unhex(p[0])), gval(unhex(p[1])))),
                "true" if e[4] else "false", gval(unhex(e[5])))
        jnls = glist(ob["jnl"] or [], lambda r: "(%d, %s, %s)" % (r[0], glist(r[1] or [], gje), gbytes(unhex(r[2]))))
        return "ODb (mkDbv %s %s %s %s %d %d %d %d %s)" % (
            accts, codes, sts, jnls, ob["min"], ob["max"], ob["mmin"], ob["mmax"], gbytes(unhex(ob["prev"])))
    return "ONone"


# ---------------------------------------------------------------- running both sides

def run_impl(exe, histories, keys=KEYS, codes=CODES, addrs=ADDRS, timeout=900):
    """histories: list of op lists -> list of driver results (dict with strs, kec, obs) or None"""
    used = {b"" if o[2] is None else o[2] for h in histories for o in h if o[0] == "setcode"}
    codes = sorted(set(codes) | used)
    lines = [history_json(h, keys, codes, addrs) for h in histories]
    rc, outs, err = vlib.run_driver(exe, "ledger", lines, timeout=timeout)
    if rc != 0 or len(outs) != len(histories):
        return None, err
    return outs, ""


def cases_source(groups, impl, mode, cfgs="cfg_subsets cfg_current", keys=KEYS, addrs=ADDRS):
    """groups: list of lists of history indices; impl[i] = driver result for history i (with 'ops')"""
    first = impl[0]
    raw_tbl = glist(range(len(addrs)), lambda i: "(%d, %s)" % (i, gbytes(bytes.fromhex(addrs[i]))))
    str_tbl = glist(range(len(addrs)), lambda i: "(%d, %s)" % (i, gbytes(bytes.fromhex(first["strs"][i]))))
    kec_tbl = glist(first["kec"], lambda p: "(%s, %s)" % (gbytes(bytes.fromhex(p[0])), gbytes(bytes.fromhex(p[1]))))
    src = ["From BX Require Import Base.Prelude Base.Sha256 Model.JsonAcct Model.Merkle Model.StateLedger Model.LedgerSpec.",
           "Local Open Scope N_scope.",
           "Definition raw_tbl : list (N * bytes) := %s." % raw_tbl,
           "Definition str_tbl : list (N * bytes) := %s." % str_tbl,
           "Definition kec_tbl : list (bytes * bytes) := %s." % kec_tbl,
           "Definition tbl (t : list (N * bytes)) (a : N) : bytes := match alookup N.eqb a t with Some b => b | None => [] end.",
           "Definition E : env := mkEnv (tbl raw_tbl) (tbl str_tbl)",
           "  (fun c => match alookup bytes_eqb c kec_tbl with Some b => b | None => [] end) sha256.",
           "Definition U_accts : list N := %s." % glist(range(len(addrs))),
           "Definition U_keys : list bytes := %s." % glist(keys, gbytes)]
    gs = []
    for g in groups:
        hs = []
        for i in g:
            ops = impl[i]["ops"]
            obs = impl[i]["obs"]
            hs.append("mkHC %s %s" % (glist(ops, lambda o: "(" + gop(o, keys) + ")"),
                                      glist(zip(ops, obs), lambda p: "(" + gout(p[0], p[1], keys) + ")")))
        gs.append(glist(hs, lambda s: "(" + s + ")"))
    src.append("Definition cases : list (list hcase) :=\n %s." % glist(gs, lambda s: "\n " + s))
    src.append("Definition M := Eval vm_compute in map (judge_group E (%s) %d) cases." % (cfgs, mode))
    src.append("Print M.")
    return "\n".join(src) + "\n"


def judge(ctx, name, groups, impl, mode, cfgs="cfg_subsets cfg_current", keys=KEYS, shard=400, addrs=None):
    """returns list of verdicts (one per group) or None when the judge itself broke"""
    vs = []
    for s in range(0, len(groups), shard):
        part = groups[s:s + shard]
        src = cases_source(part, impl, mode, cfgs, keys, addrs or ADDRS)
        rc, out = vlib.coq_eval("%s_%d_%d" % (name, os.getpid(), s // shard), src, timeout=1700)
        v = vlib.parse_verdicts(out)
        if rc != 0 or v is None or len(v) != 3 * len(part):
            ctx.broken("correspondence:judge_group(%s)" % name, out[-1500:])
            return None
        # per case: (property verdict on the implementation trace, correspondence verdict, cfg index)
        vs += [(v[3 * i], v[3 * i + 1], v[3 * i + 2][0]) for i in range(len(part))]
    return vs


def clean_ops(ops, obs):
    """drop the ops the driver rejected before touching the ledger (malformed stream)"""
    o2, b2 = [], []
    for o, b in zip(ops, obs):
        if o[0] == "raw":
            continue
        if b.get("r") == "dead":      # the ledger instance was abandoned after a hang / failed reopen
            break
        o2.append(o)
        b2.append(b)
    return o2, b2


def run_groups(ctx, exe, name, groups_ops, mode, cfgs="cfg_subsets cfg_current", keys=KEYS, addrs=None):
    """groups_ops: list of groups, each a list of histories (op lists).
    Returns (verdicts, impl) where impl[i] is a dict(ops=, obs=, strs=, kec=) per flattened history,
    and index lists per group."""
    flat, groups = [], []
    for g in groups_ops:
        idx = []
        for h in g:
            idx.append(len(flat))
            flat.append(h)
        groups.append(idx)
    outs, err = run_impl(exe, flat, keys, addrs=addrs or ADDRS)
    if outs is None:
        ctx.broken("driver:ledger", err[-1500:])
        return None, None, None
    impl = []
    for h, o in zip(flat, outs):
        if o.get("bad"):
            ctx.broken("driver:ledger", "driver rejected a well-formed history")
            return None, None, None
        bad_raw = [ob for op_, ob in zip(h, o["obs"]) if op_[0] == "raw" and ob.get("r") not in ("panic", "badop", "dead")]
        if bad_raw:
            ctx.broken("driver:ledger", "malformed op was not rejected: " + json.dumps(bad_raw[:1]))
            return None, None, None
        ops, obs = clean_ops(h, o["obs"])
        impl.append(dict(ops=ops, obs=obs, strs=o["strs"], kec=o["kec"], chain0=o.get("chain0")))
    ctx.traces_validated += len(flat)
    vs = judge(ctx, name, groups, impl, mode, cfgs, keys, addrs=addrs)
    return vs, impl, groups


# ---------------------------------------------------------------- generators

def dump_block():
    return [("dump",)]


def gen_tx(r, next_snap, allow_add=True, allow_code=True, n_ops=None, wild=False):
    """one transaction: snapshot, a few reads/writes, possibly a nested snapshot, revert or not, finalise"""
    ops = [("snap",)]
    sid = next_snap[0]
    next_snap[0] += 1
    inner = None
    for _ in range(n_ops if n_ops is not None else r.randrange(1, 6)):
        c = r.random()
        a = r.randrange(len(ADDRS))
        if c < 0.30:
            ops.append(("set", a, r.choice(KEYS), r.choice(VALS)))
        elif c < 0.36 and allow_add:
            ops.append(("add", a, r.choice(KEYS), r.choice(VALS)))
        elif c < 0.43:
            ops.append(("setbal", a, r.choice(BALS)))
        elif c < 0.46:
            ops.append(("addbal", a, r.choice([0, 5, 7, -3, 2**65])))
        elif c < 0.52:
            ops.append(("setnonce", a, r.choice(NONCES)))
        elif c < 0.58 and allow_code:
            ops.append(("setcode", a, r.choice(CODES + [None])))
        elif c < 0.595:
            ops.append(("suicide", a))
        elif c < 0.62:
            ops.append(("getcommitted", a, r.choice(KEYS)))
        elif c < 0.70:
            ops.append(("get", a, r.choice(KEYS)))
        elif c < 0.80:
            ops.append(("query", a, r.choice(PREFIXES)))
        elif c < 0.86:
            ops.append((r.choice(["getbal", "getnonce", "getcode"]), a))
        elif c < 0.92 and inner is None:
            ops.append(("snap",))
            inner = next_snap[0]
            next_snap[0] += 1
        elif inner is not None:
            ops.append(("revert", inner))
            inner = None
        else:
            ops.append(("get", a, r.choice(KEYS)))
    if r.random() < 0.35:
        ops.append(("revert", sid))
    ops.append(("finalise",))
    next_snap[0] = 0
    return ops


def gen_history(r, n_blocks, allow_add=True, allow_code=True, rollback=True, reopen=True, evict=True, dumps=True,
                wild=False):
    """block-structured, well-formed history: every flush is followed by its commit"""
    ops = []
    h = 0
    snap = [0]
    for _ in range(n_blocks):
        for _ in range(r.randrange(0, 4)):
            ops += gen_tx(r, snap, allow_add, allow_code, wild=wild)
        if r.random() < 0.1:
            ops.append(("clear",))
            continue
        ops.append(("flush",))
        h += 1
        ops.append(("commit", h))
        if dumps and r.random() < 0.5:
            ops.append(("dump",))
        if r.random() < 0.25:
            ops.append(("dbdump",))
        c = r.random()
        if evict and c < 0.2:
            for _ in range(r.randrange(1, 4)):
                ops.append(("evict", r.randrange(len(ADDRS)), r.randrange(0, 4), r.choice(KEYS)))
        elif reopen and c < 0.35:
            ops.append(("reopen",))
        elif rollback and c < 0.55 and h > 0:
            t = r.choice([h, max(h - 1, 0), r.randrange(0, h + 1), h + 1, 0])
            ops.append(("rollback", t))
            if t <= h:
                lo = max(1, h - 10) if h > 10 else (0 if True else 1)
                if t >= lo or t == h:
                    h = t
            ops.append(("dump",))
            if r.random() < 0.5:
                ops.append(("dbdump",))
        if r.random() < 0.3:
            for _ in range(r.randrange(1, 5)):
                a = r.randrange(len(ADDRS))
                ops.append(r.choice([("get", a, r.choice(KEYS)), ("getbal", a), ("getnonce", a), ("getcode", a),
                                     ("query", a, r.choice(PREFIXES)), ("version",)]))
    return ops


# ---------------------------------------------------------------- shrinking

def shrink(fails, ops, max_rounds=70):
    """greedy one-op-at-a-time delta debugging; fails(ops) -> bool re-runs both sides"""
    cur = list(ops)
    rounds = 0
    changed = True
    while changed and rounds < max_rounds:
        changed = False
        i = len(cur) - 1
        while i >= 0 and rounds < max_rounds:
            cand = cur[:i] + cur[i + 1:]
            rounds += 1
            if cand and fails(cand):
                cur = cand
                changed = True
            i -= 1
    return cur


def gen_soup(r, n):
    """unstructured stream: any op anywhere (flush without commit, odd commit heights, reverts of
    unknown ids, rollback to arbitrary targets, SetCode(nil), ...).  Outside the theorem's domain in
    general; exercises only the model = implementation correspondence."""
    ops = []
    h = 0
    for _ in range(n):
        c = r.random()
        a = r.randrange(len(ADDRS))
        if c < 0.22:
            ops.append(("set", a, r.choice(KEYS), r.choice(VALS)))
        elif c < 0.27:
            ops.append(("add", a, r.choice(KEYS), r.choice(VALS)))
        elif c < 0.31:
            ops.append(("setbal", a, r.choice(BALS)))
        elif c < 0.33:
            ops.append(("addbal", a, r.choice([0, 5, 7, -3])))
        elif c < 0.37:
            ops.append(("setnonce", a, r.choice(NONCES)))
        elif c < 0.42:
            ops.append(("setcode", a, r.choice(CODES + [None])))
        elif c < 0.50:
            ops.append(("get", a, r.choice(KEYS)))
        elif c < 0.55:
            ops.append(("query", a, r.choice(PREFIXES)))
        elif c < 0.60:
            ops.append((r.choice(["getbal", "getnonce", "getcode"]), a))
        elif c < 0.62:
            ops.append(("getcommitted", a, r.choice(KEYS)))
        elif c < 0.67:
            ops.append(("snap",))
        elif c < 0.71:
            ops.append(("revert", r.randrange(0, 4)))
        elif c < 0.75:
            ops.append(("finalise",))
        elif c < 0.77:
            ops.append(("clear",))
        elif c < 0.84:
            ops.append(("flush",))
            if r.random() < 0.8:
                h += 1
                ops.append(("commit", h if r.random() < 0.9 else r.choice([0, h + 2, h - 1 if h > 0 else 0])))
        elif c < 0.86:
            ops.append(("commit", r.randrange(0, h + 3)))
        elif c < 0.90:
            ops.append(("rollback", r.randrange(0, h + 2)))
        elif c < 0.93:
            ops.append(("reopen",))
        elif c < 0.96:
            ops.append(("evict", a, r.randrange(0, 5), r.choice(KEYS)))
        elif c < 0.98:
            ops.append(("dbdump",))
        else:
            ops.append(r.choice([("dump",), ("version",)]))
    return ops


# ---------------------------------------------------------------- corpus / replay files

def op_from_json(j):
    k = j["o"]

    def b(x):
        return None if x is None else bytes.fromhex(x)
    if k in ("getbal", "getnonce", "getcode", "suicide"):
        return (k, j["a"])
    if k in ("get", "query", "getcommitted"):
        return (k, j["a"], b(j["k"]))
    if k in ("setbal", "addbal"):
        return (k, j["a"], int(j["z"]))
    if k == "setnonce":
        return (k, j["a"], j["n"])
    if k == "setcode":
        return (k, j["a"], b(j.get("v")))
    if k in ("set", "add"):
        return (k, j["a"], b(j["k"]), b(j.get("v")))
    if k in ("revert", "commit", "rollback"):
        return (k, j["n"])
    if k == "evict":
        return (k, j["a"], j["n"], b(j["k"]))
    return (k,)


def group_to_json(group):
    return [[op_json(o) for o in h] for h in group]


def group_from_json(g):
    return [[op_from_json(o) for o in h] for h in g]


def load_corpus(pid):
    out = []
    for f in sorted(os.listdir(vlib.CORPUS)):
        if f.startswith(pid + "_") and f.endswith(".json"):
            d = json.load(open(os.path.join(vlib.CORPUS, f)))
            if d.get("driver", "ledger") != "ledger":
                continue
            out.append((f, group_from_json(d["group"]), d.get("expect", "ok"),
                        [bytes.fromhex(k) for k in d["keys"]] if "keys" in d else KEYS, d.get("mode", 0) & 16))
    return out


def run_corpus(ctx, exe, pid, mode, known, nontrivial):
    """corpus entries first; entries with the same key universe and mode are judged in one Coq run"""
    batches = {}
    for fname, group, expect, keys, xmode in load_corpus(pid):
        batches.setdefault((tuple(keys), xmode), []).append((group, expect))
    n = 0
    for (keys, xmode), items in batches.items():
        decide(ctx, exe, "%sc%d" % (pid, n), [g for g, _ in items], mode | xmode, known, keys=list(keys),
               nontrivial=nontrivial, expect=[e for _, e in items])
        n += len(items)
    return n


# ---------------------------------------------------------------- deciding a verdict

def valid_utf8(b):
    try:
        b.decode("utf-8")
        return True
    except UnicodeDecodeError:
        return False


def classify(pb, group):
    """pb = (code, detail) of the property predicate on the implementation trace.
    Returns (kind, finding_id_or_None, text); kind in ok | known | violation"""
    if pb[0] == 0:
        return "ok", None, ""
    d = pb[1]
    if d >= 900000:
        r = d - 900000
        if r == 3:
            return "known", "C10-root-noop-account-write", "root depends on an account write that changed nothing"
        if r == 4:
            return "known", "C10-kv-concat-no-length-prefix", "different change sets with the same key/value concatenation share a root"
        if r == 1:
            return "violation", None, "same previous root and same change set but different state roots"
        return "violation", None, "different (previous root, change set) share a state root"
    if 300000 <= d < 500000:
        d -= 300000
        hi, step = d // 10000, d % 10000
        last = group[hi][step] if hi < len(group) and step < len(group[hi]) else None
        return "violation", None, "presence of a storage value wrong (present-and-empty vs absent) at step %d of history %d (%r)" % (step, hi, last)
    if 700000 <= d < 900000:
        d -= 700000
        hi, step = d // 10000, d % 10000
        ops = group[hi][:step + 1] if hi < len(group) else []
        return "violation", None, "committed code hash is not the Keccak of the stored code (raw dump at step %d of history %d)" % (step, hi)
    strict = d >= 500000
    if strict:
        d -= 500000
    hi, step = d // 10000, d % 10000
    ops = group[hi][:step + 1] if hi < len(group) else []
    last = ops[-1] if ops else None
    if strict:
        if any(o[0] in ("set", "add") and o[3] == b"" for o in ops):
            return "known", "C13-empty-exists-flag", "existence flag / query entry of an empty value depends on the layer"
        return "violation", None, "existence flag or query content wrong at step %d of history %d (%r)" % (step, hi, last)
    if any(o[0] in ("set", "add") and not valid_utf8(o[2]) for o in ops) and any(o[0] == "rollback" for o in ops):
        return "known", "C12-journal-nonutf8-key", "rollback with a storage key that is not valid UTF-8"
    return "violation", None, "read disagrees with the specification at step %d of history %d (%r)" % (step, hi, last)


def decide(ctx, exe, name, groups_ops, mode, known, keys=KEYS, nontrivial=None, do_shrink=True, expect=None, addrs=None):
    """run the groups on both sides, judge, classify, report.  known: dict id -> finding.
    expect: optional list (per group) of expected finding ids ("ok" or id) for corpus entries."""
    vs, impl, groups = run_groups(ctx, exe, name, groups_ops, mode, keys=keys, addrs=addrs)
    stats = dict(ok=0, known=0, violation=0, mismatch=0, domain=0)
    if vs is None:
        return stats
    for i in impl:
        for o, b in zip(i["ops"], i["obs"]):
            if o[0] in ("rollback", "commit", "revert", "reopen"):
                key = "%s_%s" % (o[0], b.get("r"))
                stats[key] = stats.get(key, 0) + 1
    for gi, (g, v) in enumerate(zip(groups, vs)):
        pb, corr, cfgi = v
        gops = [impl[i]["ops"] for i in g]
        kind, fid, text = classify(pb, gops)
        key = json.dumps(group_to_json(gops), sort_keys=True)
        nt = nontrivial(gops) if nontrivial else True
        ctx.count(case_key=hash(key), nontrivial=nt,
                  sample=dict(driver="ledger", group=group_to_json(gops)[:1], verdict=[list(pb), list(corr)]))
        if expect is not None and expect[gi] not in ("ok", None) and kind == "ok":
            ctx.notes.append("corpus entry %d: listed finding %s no longer reproduces" % (gi, expect[gi]))
        if kind == "known" and fid in known:
            stats["known"] += 1
            ctx.known(fid, known[fid]["what"])
        elif kind != "ok":
            stats["violation"] += 1
            rep_group = gops
            ctx._n_viol = getattr(ctx, "_n_viol", 0) + 1
            if ctx._n_viol > 6:
                continue          # enough replays; the run is a violation already
            if do_shrink and len(gops) == 1 and ctx._n_viol <= 2:
                def fails(cand):
                    v2, i2, g2 = run_groups(vlib.Ctx(ctx.pid, ctx.tier, ctx.seed), exe, name + "_sh", [[cand]], mode, keys=keys, addrs=addrs)
                    if not v2:
                        return False
                    k2, f2, _ = classify(v2[0][0], [i2[0]["ops"]])
                    return k2 == "violation" or (k2 == "known" and f2 not in known)
                rep_group = [shrink(fails, gops[0])]
            ctx.violation(text or ("unlisted finding " + str(fid)),
                          dict(property=ctx.pid, driver="ledger", mode=mode, keys=[k.hex() for k in keys], addrs=addrs or ADDRS,
                               group=group_to_json(rep_group), original=group_to_json(gops),
                               verdict=dict(property_predicate=list(pb), correspondence=list(corr)),
                               impl=[impl[i]["obs"] for i in g], what=text))
        else:
            stats["ok"] += 1
        if corr[0] == 1 and kind == "ok":
            stats["mismatch"] += 1
            hi, step = corr[1] // 10000, corr[1] % 10000
            ctx.broken("correspondence:judge_group(%s)" % name,
                       "model and implementation differ at step %d of %s; impl=%s" % (
                           step, json.dumps(group_to_json([gops[hi][:step + 1]])),
                           json.dumps(impl[g[hi]]["obs"][step])[:400]))
        elif corr[0] == 3:
            stats["domain"] += 1
    return stats


# ---------------------------------------------------------------- the full ledger (state + chain)

def gen_full_history(r, quick=True):
    """block history on the full ledger: well-formed blocks (commit = head + 1 on both halves), rollbacks to
    targets inside the journal window, above the head, BELOW the window (refused by the state ledger) and 0,
    reopen (ledger.New re-aligns both halves), dumps.  (mn, mx) follow the specification's window."""
    ops = []
    mn, mx = 0, 0
    n = r.choice([3, 5, 12, 13, 14, 15]) if quick else r.randrange(2, 16)
    steps = 0
    while steps < n + 6 and mx < 16:
        steps += 1
        a = r.randrange(3)
        ops += [r.choice([("setbal", a, mx + 1), ("setnonce", a, mx + 1), ("setcode", a, r.choice([b"c1", b"c2"]))]),
                ("set", r.randrange(3), r.choice(KEYS), r.choice([b"v%d" % mx, None, b"w"]))]
        h = mx + 1
        ops += [("flush",), ("commit", h)]
        mn1 = h if mn == 0 else mn
        mn = h - 10 if (h > 10 and mn1 < h - 10) else mn1
        mx = h
        c = r.random()
        if c < (0.5 if mx > 11 else 0.2):
            kind = r.random()
            if kind < 0.45 and mn > 1:
                t = r.randrange(0, mn)                      # below the journal window: refused
            elif kind < 0.6:
                t = mx + r.randrange(1, 3)                  # above the head: refused
            elif kind < 0.9:
                t = r.randrange(mn, mx + 1)
            else:
                t = 0
            if r.random() < 0.3:
                ops.append(("set", r.randrange(3), r.choice(KEYS), b"dirty"))
            ops.append(("rollback", t))
            refused = mx < t or (t < mn and not (mn == 1 and t == 0))
            ops += [("version",), ("dump",)]
            if not refused and t != mx:
                mx = t
                if t == 0:
                    mn = 0
            if r.random() < 0.4:
                ops += [("reopen",), ("dump",)]
        elif c < 0.6:
            ops.append(("reopen",))
    ops += [("version",), ("dump",)]
    return ops


def full_fixed_histories():
    """always run: 13 blocks (journal floor 3), a rollback below the floor, one above the head, both refused;
    then one inside the window, a reopen and a further block"""
    ops = []
    for h in range(1, 14):
        ops += [("setbal", h % 3, h), ("set", h % 3, KEYS[h % len(KEYS)], b"v%d" % h), ("flush",), ("commit", h)]
    a = ops + [("rollback", 1), ("version",), ("dump",), ("rollback", 15), ("version",), ("rollback", 7), ("version",), ("dump",),
               ("reopen",), ("dump",), ("setbal", 0, 77), ("flush",), ("commit", 8), ("dump",)]
    b = ops + [("set", 1, b"a", b"dirty"), ("rollback", 2), ("dump",), ("reopen",), ("version",), ("dump",),
               ("rollback", 3), ("dump",), ("rollback", 0), ("version",)]
    return [a, b]


def chain_frame_source(impl_list):
    src = ["From BX Require Import Base.Prelude Base.Sha256 Model.JsonAcct Model.Merkle Model.StateLedger Model.LedgerSpec.",
           "Local Open Scope N_scope.",
           "Definition U_accts : list N := %s." % glist(range(len(ADDRS))),
           "Definition U_keys : list bytes := %s." % glist(KEYS, gbytes)]
    cs = []
    for im in impl_list:
        ops, obs = im["ops"], im["obs"]
        cs.append("(%s, %s, %s, %s)" % (
            glist(ops, lambda o: "(" + gop(o) + ")"),
            glist(zip(ops, obs), lambda p: "(" + gout(p[0], p[1]) + ")"),
            glist(obs, lambda b: glist(b.get("chain") or [])),
            glist(im["chain0"] or [])))
    src.append("Definition fcases : list (list op * list out * list (list N) * list N) :=\n %s." % glist(cs, lambda x: "\n " + x))
    src.append("Definition M := Eval vm_compute in map (fun c : list op * list out * list (list N) * list N =>")
    src.append("  match full_frame_g (fst (fst (fst c))) (snd (fst (fst c))) (snd (fst c)) (snd c) 0 with Some i => (1, i) | None => (0, 0) end) fcases.")
    src.append("Print M.")
    return "\n".join(src) + "\n"


def chain_frame_verdicts(ctx, name, impl_list):
    rc, out = vlib.coq_eval("%s_%d" % (name, os.getpid()), chain_frame_source(impl_list), timeout=900)
    v = vlib.parse_verdicts(out)
    if rc != 0 or v is None or len(v) != len(impl_list):
        ctx.broken("predicate:full_frame_g(%s)" % name, out[-1500:])
        return None
    return v


def decide_full(ctx, exe, name, histories, mode, known, nontrivial=None):
    """histories run on the full ledger.Ledger: the state half is judged as every other history (specification on
    the implementation trace, correspondence with the model); the chain half by [full_frame_g]"""
    global DRIVER_FULL
    DRIVER_FULL = True
    try:
        stats = decide(ctx, exe, name, [[h] for h in histories], mode, known, nontrivial=nontrivial)
        vs, impl, groups = run_groups(ctx, exe, name + "_c", [[h] for h in histories], mode)
        if impl is None:
            return stats
        v = chain_frame_verdicts(ctx, name, impl)
        if v is None:
            return stats
        nviol = 0
        for im, (code, step) in zip(impl, v):
            if code == 0:
                continue
            nviol += 1
            if nviol > 3:
                continue
            ops = im["ops"]
            # replay: the history up to the offending step (re-run once to confirm it still fails)
            def fails(cand):
                v2, i2, g2 = run_groups(vlib.Ctx(ctx.pid, ctx.tier, ctx.seed), exe, name + "_sh", [[cand]], mode)
                if not i2:
                    return False
                w = chain_frame_verdicts(vlib.Ctx(ctx.pid, ctx.tier, ctx.seed), name + "_sh", i2)
                return bool(w) and w[0][0] == 1
            cand = ops[:step + 1]
            small = cand if nviol <= 1 and fails(cand) else ops
            o = ops[step]
            ctx.violation("step %d (%s -> %s) of a history on the full ledger moved the chain half although it %s: chain before %s, after %s" % (
                              step, o, im["obs"][step].get("r"),
                              "was refused" if o[0] in ("rollback", "commit") and im["obs"][step].get("r") != "ok" else "must leave it as it is / at that height",
                              (im["obs"][step - 1].get("chain") if step > 0 else im["chain0"]), im["obs"][step].get("chain")),
                          dict(property=ctx.pid, driver="ledger", full=True, mode=mode, keys=[k.hex() for k in KEYS], addrs=ADDRS,
                               group=group_to_json([small]), original=group_to_json([ops]),
                               verdict=dict(chain_frame=[code, step]), impl=[im["obs"]],
                               what="chain half of ledger.Ledger moved by a refused rollback / not aligned with the state half"))
        stats["chain_violation"] = nviol
        return stats
    finally:
        DRIVER_FULL = False


def replay_file(ctx, path):
    obj = json.load(open(path))
    exe, err = vlib.build_harness("ledger")
    if exe is None:
        print(err)
        return 1
    if obj.get("full"):
        global DRIVER_FULL
        DRIVER_FULL = True
        try:
            group = group_from_json(obj["group"])
            vs, impl, groups = run_groups(ctx, exe, "replay", [group], obj.get("mode", 7))
            if not vs:
                print("judge failed:", ctx.broken_list)
                return 1
            w = chain_frame_verdicts(ctx, "replay", impl)
            pb, corr, cfgi = vs[0]
            kind, fid, text = classify(pb, [impl[i]["ops"] for i in groups[0]])
            print(json.dumps(dict(property_predicate=list(pb), correspondence=list(corr), kind=kind, finding=fid, what=text,
                                  chain_frame=w, impl=[impl[i]["obs"] for i in groups[0]])))
            return 0 if kind == "ok" and corr[0] == 0 and w and all(c == 0 for c, _ in w) else 1
        finally:
            DRIVER_FULL = False
    keys = [bytes.fromhex(k) for k in obj["keys"]] if "keys" in obj else KEYS
    group = group_from_json(obj["group"])
    vs, impl, groups = run_groups(ctx, exe, "replay", [group], obj.get("mode", 7), keys=keys, addrs=obj.get("addrs"))
    if not vs:
        print("judge failed:", ctx.broken_list)
        return 1
    pb, corr, cfgi = vs[0]
    kind, fid, text = classify(pb, [impl[i]["ops"] for i in groups[0]])
    print(json.dumps(dict(property_predicate=list(pb), correspondence=list(corr), kind=kind, finding=fid, what=text,
                          impl=[impl[i]["obs"] for i in groups[0]])))
    return 0 if kind == "ok" and corr[0] == 0 else 1


def known_open():
    return {f["id"]: f for f in vlib.known_findings() if f.get("status") == "open"}


def malformed_lines(r, n):
    """raw junk for the driver's line parser and ops the driver must reject before touching the ledger"""
    junk = ["{", "[]", "{\"ops\":5}", "null", "{\"addrs\":[\"zz\"],\"ops\":[]}", "\x00\x01", "{\"ops\":[{\"o\":7}]}"]
    return [r.choice(junk) for _ in range(n)]


def sprinkle_bad_ops(r, ops):
    """insert ops that must be rejected without effect: unknown kind, account out of range, bad hex"""
    bad = [{"o": "frobnicate"}, {"o": "set", "a": 99, "k": "61", "v": "62"}, {"o": "get", "a": -1, "k": "61"},
           {"o": "set", "a": 0, "k": "zz", "v": "62"}, {"o": "setbal", "a": 0, "z": "12x"}, {"o": ""},
           {"o": "evict", "a": 7, "n": 1, "k": ""}]
    out = []
    for o in ops:
        if r.random() < 0.08:
            out.append(("raw", r.choice(bad)))
        out.append(o)
    return out



# ---------------------------------------------------------------- scenario templates
# Hand-shaped histories for interleavings the random streams reach only rarely.  Every template is
# instantiated with random accounts / keys / values; they are ordinary cases for the judge.

def _tx(ops, revert=False):
    return [("snap",)] + ops + ([("revert", 0)] if revert else []) + [("finalise",)]


def scen_delete_rewrite_revert(r):
    """key live from an earlier block, deleted before a snapshot, rewritten after it, snapshot reverted
    (nested or not); key in store only (reopen), in cache+store, or read first"""
    a, k = r.randrange(3), r.choice(KEYS)
    v0, v1, v2 = b"v0", r.choice([b"v1", b"x"]), b"v2"
    ops = [("set", a, k, v0), ("set", a, r.choice(KEYS), b"w"), ("flush",), ("commit", 1)]
    where = r.choice(["cache", "reopen", "evict", "read"])
    if where == "reopen":
        ops.append(("reopen",))
    elif where == "evict":
        ops += [("evict", a, 1, b""), ("evict", a, 0, b"")]
    elif where == "read":
        ops.append(("get", a, k))
    delete = ("set", a, k, None)
    ops += _tx([delete]) if r.random() < 0.7 else [delete]
    if r.random() < 0.5:
        ops += _tx([("set", a, k, v1)], revert=True)
    else:   # nested: inner revert restores the outer write, outer revert must restore the deletion
        ops += [("snap",), ("set", a, k, v1), ("snap",), ("set", a, k, v2), ("revert", 1), ("get", a, k), ("revert", 0), ("finalise",)]
    ops += [("get", a, k), ("query", a, b""), ("flush",), ("commit", 2), ("get", a, k), ("dump",), ("reopen",), ("get", a, k), ("dbdump",)]
    return [ops]


def scen_blind_overwrite_cold(r):
    """store-only key (cold cache after reopen or rollback), account already loaded in the block, blind
    overwrite inside a snapshot that is reverted"""
    a, k = r.randrange(3), r.choice(KEYS)
    other = r.choice([x for x in KEYS if x != k])
    ops = [("set", a, k, b"v0"), ("setbal", a, 5), ("flush",), ("commit", 1), ("set", a, other, b"o"), ("flush",), ("commit", 2)]
    cold = r.choice(["reopen", "rollback"])
    ops += [("reopen",)] if cold == "reopen" else [("rollback", 1)]
    ops += [r.choice([("getbal", a), ("set", a, other, b"p"), ("getnonce", a)])]
    ops += _tx([("set", a, k, b"v1")], revert=True)
    ops += [("get", a, k), ("set", a, other, b"q"), ("flush",), ("commit", 3 if cold == "reopen" else 2), ("get", a, k), ("dump",)]
    return [ops]


def scen_read_between_flush_and_commit(r):
    """block N deletes / overwrites committed keys, is flushed, block N+1 reads before Commit(N) lands"""
    a = r.randrange(3)
    k1, k2 = r.sample(KEYS, 2)
    ops = [("set", a, k1, b"v0"), ("set", a, k2, b"w0"), ("setbal", a, 3), ("flush",), ("commit", 1)]
    if r.random() < 0.5:
        ops.append(("reopen",))
    ops += [("set", a, k1, None), ("set", a, k2, b"w1"), ("setbal", a, 4), ("flush",),
            ("get", a, k1), ("get", a, k2), ("query", a, b""), ("getbal", a),
            ("commit", 2), ("get", a, k1), ("get", a, k2), ("query", a, b""), ("dump",)]
    return [ops]


def scen_code_rollback_continuation(r):
    """the rolled-back block replaced the code of an existing contract; a different continuation touches the
    account without changing its code; the code is read one block later"""
    a = r.randrange(3)
    ops = [("setcode", a, b"c1"), ("setbal", a, 1), ("flush",), ("commit", 1), ("dump",),
           ("setcode", a, b"c2"), ("set", a, b"a", b"v"), ("flush",), ("commit", 2), ("dump",),
           ("rollback", 1), ("dump",),
           r.choice([("setbal", a, 9), ("setnonce", a, 2)]), ("flush",), ("commit", 2),
           ("getcode", a), ("dump",), ("set", a, b"b", b"z"), ("flush",), ("commit", 3), ("getcode", a), ("dbdump",),
           ("rollback", 2), ("getcode", a), ("dump",)]
    return [ops]


def scen_code_replaced_pending(r):
    """a contract's committed code is REPLACED in block N; block N is flushed and, while Commit(N) is pending
    (block N+1 already executes), the account is loaded again: it must carry the flushed code; writing the old
    code back in block N+1 is a real change"""
    a = r.randrange(3)
    c1, c2 = r.sample([b"c1", b"c2", b"\x60\x00"], 2)
    ops = [("setcode", a, c1), ("setbal", a, 1), ("flush",), ("commit", 1)]
    if r.random() < 0.4:
        ops.append(("reopen",))
    ops += [("setcode", a, c2)] + ([("set", a, r.choice(KEYS), b"v")] if r.random() < 0.5 else []) + [("flush",)]
    ops += [r.choice([("getcode", a), ("getbal", a), ("getnonce", a)]), ("getcode", a)]
    tail = r.choice(["read", "writeback", "revert"])
    if tail == "writeback":
        ops += [("setcode", a, c1)]
    elif tail == "revert":
        ops += _tx([("setcode", a, c1)], revert=True)
    ops += [("commit", 2), ("getcode", a), ("flush",), ("commit", 3), ("getcode", a), ("dbdump",), ("reopen",), ("getcode", a), ("dump",)]
    return [ops]


def scen_selfdestruct_then_touch(r):
    """a contract self-destructs (EVM SELFDESTRUCT: Suiside) in block N; a later block touches that address on
    a ledger that kept running and on one that was restarted / lost its cache entry in between: what the root
    of block N committed to is what later blocks, warm or cold, must start from"""
    a, b = r.sample(range(3), 2)
    k = r.choice(KEYS)
    base = [("setbal", a, 7), ("setnonce", a, 3), ("setcode", a, r.choice([b"c1", b"c2"])), ("set", a, k, b"v"),
            ("setbal", b, 1), ("flush",), ("commit", 1)]
    base += _tx([("getbal", a), ("suicide", a), ("addbal", b, 7)]) + [("flush",), ("commit", 2)]
    touch = r.choice([[("addbal", a, 5)], [("setnonce", a, 9)], [("setcode", a, b"\x60\x00")], [("set", a, k, b"w")]])
    tail = [("getbal", a), ("getnonce", a), ("getcode", a), ("get", a, k)] + touch + \
           [("flush",), ("commit", 3), ("dump",), ("dbdump",), ("reopen",), ("addbal", a, 1), ("flush",), ("commit", 4), ("dump",)]
    cold = r.choice([[("reopen",)], [("evict", a, 0, b"")], [("reopen",)]])
    return [base + tail, base + cold + tail]


def scen_window_floor(r):
    """more than 11 blocks, rollback to exactly the oldest retained height, then re-execution"""
    n = r.randrange(12, 16)
    ops = []
    blocks = {}
    for h in range(1, n + 1):
        b = [("set", r.randrange(3), r.choice(KEYS), b"h%d" % h), ("setbal", h % 3, h)]
        blocks[h] = b
        ops += b + [("flush",), ("commit", h)]
    floor = n - 10
    ops += [("rollback", floor - 1), ("dump",), ("rollback", floor), ("dump",), ("dbdump",), ("version",)]
    ops += blocks[floor + 1] + [("flush",), ("commit", floor + 1), ("dump",)]
    return [ops]


def scen_reverted_setcode_root(r):
    """a reverted code write (failed deployment / upgrade) must not leave its code hash behind"""
    a = r.randrange(3)
    base = [("setbal", a, 2)] + ([("setcode", a, b"c1")] if r.random() < 0.6 else []) + [("flush",), ("commit", 1)]
    tail = [("set", a, r.choice(KEYS), b"v"), ("flush",), ("commit", 2), ("dbdump",), ("getcode", a),
            ("set", a, b"b", b"w"), ("flush",), ("commit", 3), ("dbdump",)]
    seg = _tx([("setcode", a, b"c2")], revert=True)
    return [base + seg + tail, base + tail]


def scen_stale_revision(r):
    """a finalised transaction that took snapshots but journaled nothing, then a transaction that writes
    BEFORE taking its own snapshot, writes more and reverts: only the writes after the snapshot go"""
    a, b = r.randrange(3), r.randrange(3)
    k1, k2 = r.sample(KEYS, 2)
    ops = []
    if r.random() < 0.5:
        ops += [("set", a, k1, b"old"), ("flush",), ("commit", 1)]
    h = 2 if ops else 1
    empty_tx = r.choice([
        [("snap",), ("get", a, k1), ("getbal", b), ("finalise",)],
        [("snap",), ("snap",), ("set", b, k2, b"t"), ("revert", 1), ("finalise",)],
        [("snap",), ("finalise",)]])
    ops += empty_tx
    ops += [("set", a, k1, b"v1"), ("setbal", b, 9), ("snap",), ("set", a, k2, b"v2"), ("setbal", b, 11), ("revert", 0), ("finalise",),
            ("get", a, k1), ("get", a, k2), ("getbal", b), ("flush",), ("commit", h), ("get", a, k1), ("getbal", b),
            ("reopen",), ("get", a, k1), ("getbal", b), ("dump",)]
    return [ops]


def scen_storage_only_pending(r):
    """storage-only account (no balance / nonce / code): block N flushed, Commit(N) pending; in block N+1 the
    account is first touched after a snapshot, the snapshot is reverted"""
    a = r.randrange(3)
    k1, k2 = r.sample(KEYS, 2)
    ops = []
    h = 0
    if r.random() < 0.5:
        ops += [("set", a, k1, b"v0"), ("flush",), ("commit", 1)]
        h = 1
    ops += [("set", a, k1, b"v1"), ("set", a, k2, b"w1"), ("flush",),
            ("snap",), r.choice([("get", a, k1), ("query", a, b""), ("set", a, k2, b"tmp")]), ("revert", 0), ("finalise",),
            ("get", a, k1), ("get", a, k2), ("query", a, b""),
            ("commit", h + 1), ("get", a, k1), ("set", a, k1, b"v1"), ("flush",), ("commit", h + 2), ("reopen",), ("get", a, k1), ("get", a, k2), ("dump",)]
    return [ops]


def scen_floor_moves(r):
    """more than 11 blocks, rollback inside the window, a different continuation above height 10, then targets
    just below the real floor (must be refused and change nothing), the floor itself, raw dumps in between"""
    n = r.randrange(12, 16)
    ops = []
    for h in range(1, n + 1):
        ops += [("set", r.randrange(3), r.choice(KEYS), b"h%d" % h), ("setnonce", h % 3, h), ("flush",), ("commit", h)]
    floor = n - 10
    t = n - r.randrange(1, 3)
    ops += [("rollback", t), ("dump",)]
    for h in range(t + 1, t + 1 + r.randrange(1, 3)):
        ops += [("set", r.randrange(3), r.choice(KEYS), b"c%d" % h), ("flush",), ("commit", h)]
        last = h
    ops += [("dbdump",), ("rollback", floor - 1), ("dump",), ("dbdump",), ("version",), ("rollback", floor), ("dump",), ("dbdump",)]
    return [ops]


def scen_created_account_storage(r):
    """a block gives an address its first account record AND writes storage under it; rollback; the same
    block again: same roots, storage gone in between"""
    a = r.randrange(3)
    k1, k2 = r.sample(KEYS, 2)
    base = [("set", (a + 1) % 3, b"a", b"z"), ("flush",), ("commit", 1)]
    blk = [r.choice([("setbal", a, 5), ("setnonce", a, 1), ("setcode", a, b"c1")]), ("set", a, k1, b"v1"), ("set", a, k2, b"v2")]
    ops = base + blk + [("flush",), ("commit", 2), ("dump",), ("rollback", 1), ("dump",), ("dbdump",)] + blk + [("flush",), ("commit", 2), ("dump",)]
    return [ops]


def scen_failed_write_after_delete(r):
    """a committed key is deleted; a failed (reverted) write of the same key before or after the deletion must
    not change the block's root"""
    a = r.randrange(3)
    k = r.choice(KEYS)
    base = [("set", a, k, b"v0"), ("set", a, r.choice(KEYS), b"o"), ("flush",), ("commit", 1)]
    if r.random() < 0.5:
        base.append(("reopen",))
    dele = _tx([("set", a, k, None)])
    failed = _tx([("set", a, k, b"junk")], revert=True)
    tail = [("flush",), ("commit", 2), ("get", a, k), ("dbdump",)]
    return [base + dele + tail, base + dele + failed + tail, base + failed + dele + tail]


def scen_credit_existing(r):
    """AddBalance on an account that exists in committed state and is otherwise untouched in the block: the
    credit must reach the root and the store; AddBalance(x) and SetBalance(old + x) are the same change"""
    a = r.randrange(3)
    b0, x = r.choice([0, 3, 100]), r.choice([5, 7])
    base = [("setbal", a, b0), ("setnonce", a, 1), ("flush",), ("commit", 1)] + ([("reopen",)] if r.random() < 0.4 else [])
    tail = [("flush",), ("commit", 2), ("getbal", a), ("dbdump",), ("reopen",), ("getbal", a), ("set", a, b"a", b"z"), ("flush",), ("commit", 3)]
    return [base + [("addbal", a, x)] + tail, base + [("setbal", a, b0 + x)] + tail, base + [("getbal", a), ("addbal", a, x)] + tail,
            base + tail, base + [("addbal", a, x + 2)] + tail]


def scen_empty_overwrite(r):
    """a committed non-empty value overwritten with the empty (non-nil) value stays present-and-empty through
    commit, eviction, reopen and a rollback to that height (judged with the exact-presence pass)"""
    a, k = r.randrange(3), r.choice(KEYS)
    ops = [("set", a, k, b"x"), ("set", a, r.choice([x for x in KEYS if x != k]), b"o"), ("flush",), ("commit", 1),
           ("set", a, k, b""), ("get", a, k), ("flush",), ("commit", 2), ("get", a, k), ("query", a, b""),
           r.choice([("reopen",), ("evict", a, 1, b""), ("evict", a, 2, k)]), ("get", a, k), ("query", a, b""),
           ("set", a, k, b"y"), ("flush",), ("commit", 3), ("get", a, k),
           ("rollback", 2), ("get", a, k), ("query", a, b""), ("dump",),
           ("snap",), ("set", a, k, b"t"), ("revert", 0), ("finalise",), ("get", a, k)]
    return [ops]


def scen_prefix_ff(r):
    """prefix queries whose range key ends in 0xff must not reach the keys that sort after the prefix"""
    a = r.randrange(3)
    ops = [("set", a, b"k", b"v1"), ("set", a, b"l", b"v2"), ("set", a, b"la", b"v3"), ("set", a, b"k0", b"v4"), ("flush",), ("commit", 1)]
    if r.random() < 0.6:
        ops.append(("reopen",))
    ops += [("query", a, b"k\xff"), ("query", a, b"k\xff\xff"), ("query", a, b"k"), ("query", a, b"l"), ("query", a, b"\xff"), ("query", a, b"")]
    return [ops]


# an address whose last byte is 0xff, the numerically following address, and a third one
ADDRS_FF = ["5a1d830bb7ce09d6bbc004e7175c643c7decb0ff", "5a1d830bb7ce09d6bbc004e7175c643c7decb100",
            "0bb8d4544a8721a99a01ad219eb59cf6a15ef6f1"]


def scen_address_ff(r):
    """(address universe ADDRS_FF) a query with the empty / a short prefix on an account whose address ends in
    0xff must not see the storage of the numerically following address"""
    ops = [("set", 0, b"a", b"e1"), ("set", 0, b"b", b"e2"), ("set", 1, b"a", b"n1"), ("set", 1, b"c", b"n3"),
           ("set", 2, b"a", b"z"), ("flush",), ("commit", 1)]
    if r.random() < 0.7:
        ops.append(("reopen",))
    ops += [("query", 0, b""), ("query", 0, b"a"), ("query", 1, b""), ("get", 0, b"a"), ("query", 0, b"\xff"), ("dump",)]
    return [ops]


EXACT_SCENARIOS = [scen_empty_overwrite]

SCENARIOS = [scen_delete_rewrite_revert, scen_blind_overwrite_cold, scen_read_between_flush_and_commit,
             scen_code_rollback_continuation, scen_code_replaced_pending, scen_selfdestruct_then_touch, scen_window_floor,
             scen_reverted_setcode_root,
             scen_stale_revision, scen_storage_only_pending, scen_floor_moves, scen_created_account_storage,
             scen_failed_write_after_delete, scen_credit_existing, scen_prefix_ff]


def scenario_groups(r, per=6):
    out = []
    for f in SCENARIOS:
        for _ in range(per):
            out.append(f(r))
    return out
