"""C02: IBTPs are accepted in index order, exactly once per ordered service pair."""
from checks import ibtp_common as C


def run(ctx):
    gens = [
        (5, lambda r: C.gen_mixed(r, C.W_ORDERED3, nblocks=r.randrange(3, 10), p_group=0.1)),
        (4, lambda r: C.gen_mixed(r, C.W_MIXED, nblocks=r.randrange(3, 10))),
        (2, lambda r: C.gen_mixed(r, C.W_BASIC, nblocks=r.randrange(4, 12), p_call=0.25, max_ops=5)),
        (2, C.gen_group),
        (1, C.gen_hub),
        (1, C.gen_shared_expiry),
        (1, C.gen_shared_group_expiry),
        (1, C.gen_colliding_groups),
        (1, C.gen_dash),
        (2, lambda r: C.gen_mixed(r, C.W_SAMECHAIN, nblocks=r.randrange(3, 8), p_group=0.1)),
    ]
    return C.run_check(ctx, "C02", gens, 110, 6000, router_n=60 if ctx.quick else 3000)


def replay(ctx, path):
    return C.replay_check(ctx, "C02", path)
