"""C19: the pool neither loses accepted transactions nor misreports its content."""
from checks import mempool_common as mc


def run(ctx):
    return mc.run(ctx, "C19")


def replay(ctx, path):
    return mc.replay(ctx, "C19", path)
