"""C18: the pool batches each account's transactions in gap-free nonce order, once."""
from checks import mempool_common as mc


def run(ctx):
    return mc.run(ctx, "C18")


def replay(ctx, path):
    return mc.replay(ctx, "C18", path)
