"""C20: ordering — sync range partition (calcRangeHeight) + raft/solo bookkeeping."""
import json
import vlib
from vlib import gN, glist, gopt

MAXU = 2**64 - 1


def gen_ranges(ctx, n):
    r = ctx.rng
    cases = []
    # grid
    grid = 12 if ctx.quick else 40
    for f in range(0, 6 if ctx.quick else 12):
        for b in range(0, grid, 1 if not ctx.quick else 3):
            for e in range(0, grid, 1 if not ctx.quick else 2):
                cases.append(dict(fetch=f, begin=b, end=e))
    for _ in range(n):
        f = r.choice([0, 1, 2, 3, 5, 7, 10, 64, 1000, r.randrange(1, 10**6)])
        b = r.choice([0, 1, r.randrange(0, 10**6), r.randrange(0, 2**40), 2**63, MAXU - 10**6])
        span = r.choice([0, 1, f, 2 * f + 1, r.randrange(0, 40 * max(f, 1) + 1)])
        e = b + span
        if e + (f or 5) >= 2**64:
            continue
        cases.append(dict(fetch=f, begin=b, end=e))
        if r.random() < 0.1 and b > 0:
            cases.append(dict(fetch=f, begin=b, end=r.randrange(0, b)))
    # the overflow corner: run in a child process under a deadline
    for f, b, e in [(4, MAXU - 2, MAXU - 1), (5, MAXU - 3, MAXU), (1, MAXU, MAXU), (7, MAXU - 20, MAXU - 1)]:
        cases.append(dict(fetch=f, begin=b, end=e, hostile=True))
    return cases


def judge_ranges(ctx, cases, outs):
    """returns list of (case, out, verdict)"""
    rows = []
    for c, o in zip(cases, outs):
        f = c["fetch"] or 5     # New(): blockFetch 0 means the default 5
        if o.get("hang"):
            obs, fuel = "None", 64
        elif o["err"]:
            obs, fuel = "None", 4
        else:
            rs = o["ranges"] or []
            obs = "(Some %s)" % glist(rs, lambda p: "(%d, %d)" % (p[0], p[1]))
            fuel = len(rs) + 2
        rows.append("((%d, %d, %d), %d%%nat, %s)" % (f, c["begin"], c["end"], fuel, obs))
    vs, msg = vlib.coq_judge_sharded("C20_ranges", "From BX Require Import Base.Prelude Model.Ranges.\nLocal Open Scope N_scope.",
                                     "(N * N * N) * nat * option (list (N * N))", "judge_ranges", rows)
    if vs is None:
        ctx.broken("correspondence:judge_ranges", msg)
        return None
    return vs


def run(ctx):
    ctx.proofs(["Proofs/RangesProofs"], model_targets=["Ranges"])
    exe, err = vlib.build_harness("ranges")
    if exe is None:
        ctx.broken("harness-build", err)
        return ctx.finish(rule="-")
    known = {f["id"]: f for f in vlib.known_findings() if f["property"] == "C20"}
    if ctx.model_ok:
        cases = gen_ranges(ctx, 300 if ctx.quick else 20000)
        rc, outs, e = vlib.run_driver(exe, "ranges", cases)
        if rc != 0 or len(outs) != len(cases):
            ctx.broken("driver:ranges", e[-1500:])
        else:
            vs = judge_ranges(ctx, cases, outs)
            if vs is not None:
                kinds = {}
                for c, o, v in zip(cases, outs, vs):
                    nontriv = (not o.get("err")) and not o.get("hang") and len(o.get("ranges") or []) >= 2
                    ctx.count(case_key=("r", c["fetch"], c["begin"], c["end"]), nontrivial=nontriv,
                              sample=dict(driver="ranges", input=c, impl=o, verdict=v))
                    ctx.traces_validated += 1
                    k = "hang" if o.get("hang") else "err" if o["err"] else "ranges%d" % min(len(o["ranges"] or []), 9)
                    kinds[k] = kinds.get(k, 0) + 1
                    overflow = c["end"] + (c["fetch"] or 5) >= 2**64
                    rep = dict(property="C20", driver="ranges", input=c, impl=o, verdict=v)
                    if v[0] == 0:
                        continue
                    if overflow and "C20-ranges-overflow" in known and (o.get("hang") or v[0] in (2, 3)):
                        ctx.known("C20-ranges-overflow", known["C20-ranges-overflow"]["what"])
                    elif o.get("hang") or v[0] == 3:
                        ctx.violation("calcRangeHeight does not terminate", rep)
                    elif v[0] == 2:
                        ctx.violation("ranges do not partition [begin,end]", rep)
                    else:
                        # model and implementation differ but the implementation's answer still satisfies the property
                        ctx.broken("correspondence:judge_ranges", "first differing case: " + json.dumps(rep))
                ctx.extra["ranges_distribution"] = kinds
    return ctx.finish(rule="ranges: grid over (fetch,begin,end) + random spans incl. values near 2^63/2^64 + overflow corner in a child process; "
                           "non-trivial = at least two ranges returned, distinct by input triple")


def replay(ctx, path):
    obj = json.load(open(path))
    exe, err = vlib.build_harness("ranges")
    c = obj["input"]
    rc, outs, e = vlib.run_driver(exe, "ranges", [c])
    vs = judge_ranges(ctx, [c], outs)
    print(json.dumps(dict(input=c, impl=outs, verdict=vs)))
    return 0 if vs and vs[0][0] == 0 else 1
