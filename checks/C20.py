"""C20: ordering — sync range partition (calcRangeHeight) + raft / solo delivery bookkeeping.

ranges  : (fetch, begin, end) -> calcRangeHeight, judged by Model/Ranges.judge_ranges
raft    : scripted histories against the real etcdraft.Node main loop over a scripted raft.Node
          (entries incl. replays of executed blocks, gaps, duplicates, overlapping re-deliveries,
          lagging / out-of-order reports, crashes at every point, leader changes, own proposals
          that reach or do not reach the log), judged by Model/Order.judge_raft
raftreal: the same node over its real etcd-raft instance (single member): what etcd-raft hands
          out after a restart; translated to the same model ops and judged by judge_raft
solo    : exported constructor + Prepare/Commit/ReportState (+ hook: proposal with a chosen
          height), judged by Model/Order.judge_solo
"""
import glob
import json
import os
import vlib
from vlib import glist

MAXU = 2**64 - 1
ORDER_PRE = "From BX Require Import Base.Prelude Model.Order.\nLocal Open Scope N_scope."

# defect flags of the model that are listed as OPEN findings (cfg_current); a fixed finding leaves this map
FLAG_OF_FINDING = {
    "C20-raft-replay-future-entry": "restart",
    # "snap" (d_snap_unexecuted), "snapin" (d_snapin_lost) and "solo10" (d_solo_commit10) are fixed in /repo: their flags are off for good;
    # if either defect comes back the implementation's trace fails predicate 4 / 6 and no allowed flag set explains it
}


# ------------------------------------------------------------------------------------------- ranges

def gen_ranges(ctx, n):
    r = ctx.rng
    cases = []
    # grid
    grid = 12 if ctx.quick else 40
    for f in range(0, 6 if ctx.quick else 12):
        for b in range(0, grid, 1 if not ctx.quick else 3):
            for e in range(0, grid, 1 if not ctx.quick else 2):
                cases.append(dict(fetch=f, begin=b, end=e))
    for _ in range(n):
        f = r.choice([0, 1, 2, 3, 5, 7, 10, 64, 1000, r.randrange(1, 10**6)])
        b = r.choice([0, 1, r.randrange(0, 10**6), r.randrange(0, 2**40), 2**63, MAXU - 10**6])
        span = r.choice([0, 1, f, 2 * f + 1, r.randrange(0, 40 * max(f, 1) + 1)])
        e = b + span
        if e > MAXU:
            continue
        if e + (f or 5) >= 2**64 and span > 400 * max(f, 1):
            continue
        cases.append(dict(fetch=f, begin=b, end=e, hostile=e + (f or 5) >= 2**64))
        if r.random() < 0.1 and b > 0:
            cases.append(dict(fetch=f, begin=b, end=r.randrange(0, b)))
    # the overflow corner: run in a child process under a deadline
    for f, b, e in [(4, MAXU - 2, MAXU - 1), (5, MAXU - 3, MAXU), (1, MAXU, MAXU), (7, MAXU - 20, MAXU - 1),
                    (1, MAXU - 3, MAXU), (3, MAXU - 7, MAXU), (2**63, 5, MAXU), (MAXU, 0, MAXU), (MAXU, MAXU, MAXU),
                    (2**32, 2**64 - 2**33, MAXU - 1), (5, 0, 3), (6, MAXU - 12, MAXU - 6)]:
        cases.append(dict(fetch=f, begin=b, end=e, hostile=True))
    return cases


def judge_ranges(ctx, cases, outs, wrap=False):
    """wrap: the listed overflow finding is open, so the model runs the old (wrapping) loop"""
    rows = []
    for c, o in zip(cases, outs):
        f = c["fetch"] or 5     # New(): blockFetch 0 means the default 5
        if o.get("hang"):
            obs, fuel = "None", 64
        elif o["err"]:
            obs, fuel = "None", 4
        else:
            rs = o["ranges"] or []
            obs = "(Some %s)" % glist(rs, lambda p: "(%d, %d)" % (p[0], p[1]))
            fuel = len(rs) + 2
        rows.append("(%s, (%d, %d, %d), %d%%nat, %s)" % ("true" if wrap else "false", f, c["begin"], c["end"], fuel, obs))
    vs, msg = vlib.coq_judge_sharded("C20_ranges", "From BX Require Import Base.Prelude Model.Ranges.\nLocal Open Scope N_scope.",
                                     "bool * (N * N * N) * nat * option (list (N * N))", "judge_ranges", rows)
    if vs is None:
        ctx.broken("correspondence:judge_ranges", msg)
        return None
    return vs


def run_ranges(ctx, known):
    exe, err = vlib.build_harness("ranges")
    if exe is None:
        ctx.broken("harness-build:ranges", err)
        return
    cases = gen_ranges(ctx, 300 if ctx.quick else 20000)
    rc, outs, e = vlib.run_driver(exe, "ranges", cases)
    if rc != 0 or len(outs) != len(cases):
        ctx.broken("driver:ranges", e[-1500:])
        return
    vs = judge_ranges(ctx, cases, outs, wrap="C20-ranges-overflow" in known)
    if vs is None:
        return
    kinds = {}
    nviol = {}
    for c, o, v in zip(cases, outs, vs):
        nontriv = (not o.get("err")) and not o.get("hang") and len(o.get("ranges") or []) >= 2
        ctx.count(case_key=("r", c["fetch"], c["begin"], c["end"]), nontrivial=nontriv,
                  sample=dict(driver="ranges", input=c, impl=o, verdict=v))
        ctx.traces_validated += 1
        k = "hang" if o.get("hang") else "err" if o["err"] else "ranges%d" % min(len(o["ranges"] or []), 9)
        if c["end"] + (c["fetch"] or 5) >= 2**64:
            k = "near2^64:" + k
        kinds[k] = kinds.get(k, 0) + 1
        overflow = c["end"] + (c["fetch"] or 5) >= 2**64
        rep = dict(property="C20", driver="ranges", input=c, impl=o, verdict=v)
        if v[0] == 0:
            continue
        if overflow and "C20-ranges-overflow" in known and (o.get("hang") or v[0] in (2, 3)):
            ctx.known("C20-ranges-overflow", known["C20-ranges-overflow"]["what"])
        elif o.get("hang") or v[0] == 3:
            nviol["hang"] = nviol.get("hang", 0) + 1
            if nviol["hang"] <= 3:      # a few replays per kind are enough
                ctx.violation("calcRangeHeight does not terminate", rep)
        elif v[0] == 2:
            nviol["part"] = nviol.get("part", 0) + 1
            if nviol["part"] <= 3:
                ctx.violation("ranges do not partition [begin,end]", rep)
        else:
            # model and implementation differ but the implementation's answer still satisfies the property
            ctx.broken("correspondence:judge_ranges", "first differing case: " + json.dumps(rep))
    if nviol:
        kinds["violating_cases"] = nviol
    ctx.extra["ranges_distribution"] = kinds


# ------------------------------------------------------------------------------------------- raft histories

def gen_raft(r, style=None, maxops=30):
    """one scripted history.  The generator keeps a rough picture (next height a well-behaved leader
    would propose) only to make most entries useful; the verdict never depends on it."""
    style = style or r.choice(["plain", "plain", "replay", "gap", "crash", "crash", "leader", "snap", "mixed", "mixed"])
    init = r.choice([0, 1, 1, 1, 3, 7, 10])
    snap = r.choice([2, 3, 4, 6]) if style in ("snap",) or (style == "mixed" and r.random() < 0.4) else 1000
    h = dict(kind="raft", init=init, snap=snap, batch=1, id=1, style=style, ops=[])
    ops = h["ops"]
    nh = init + 1            # next fresh height
    ntx = [1]                # fresh account counter -> tx id acct*100
    remote = []              # tx ids handed to this node's pool as a follower and not yet put into a scripted entry
    leader_self = False
    pending = 0

    def fresh():
        ntx[0] += 1
        return ntx[0] * 100

    def entry():
        nonlocal nh
        k = r.random()
        if k < 0.08:
            return ["ent", 0, 0, []]
        txs = [fresh() for _ in range(r.choice([0, 1, 1, 2, 3]))]
        if remote and r.random() < 0.6:
            txs.append(remote.pop(0))
        if style in ("replay", "mixed", "crash") and k < 0.25 and nh > init + 1:
            return ["ent", 1, r.randrange(max(init, nh - 4), nh), txs]       # stale height (replay / old leader)
        if style in ("gap", "mixed") and k < (0.35 if style == "gap" else 0.14):
            return ["ent", 1, nh + r.choice([1, 1, 2, 3]), txs]              # a batch from the future
        e = ["ent", 1, nh, txs]
        nh += 1
        return e

    n = r.randrange(8, maxops + 1)
    if style == "leader" or (style == "mixed" and r.random() < 0.5):
        ops.append(["ready", 0, 0, 0, r.choice([2, 3])])
        leader_self = ops[-1][4] == 2
    while len(ops) < n:
        k = r.random()
        if k < 0.30:
            for _ in range(r.choice([1, 1, 2, 3])):
                ops.append(entry())
        elif k < 0.58:
            lead = 0
            if style in ("leader", "mixed") and r.random() < 0.3:
                lead = r.choice([1, 2, 2, 3, 3])
                leader_self = lead == 2
                if leader_self:
                    # from now on this node may batch what it received as a follower: a scripted foreign
                    # entry must not contain those transactions as well (that would be the environment
                    # putting a transaction into the log twice, not the code under test)
                    remote.clear()
            ops.append(["ready", r.choice([0, 0, 0, 0, 1, 2, 5]), r.choice([0, 1, 1, 2, 3, 10]), r.choice([0, 0, 0, 1, 3]), lead])
        elif k < 0.72:
            for _ in range(r.choice([1, 1, 2, 4])):
                ops.append(["exec"])
        elif k < 0.82:
            ops.append(["report", r.choice([0, 0, 0, 1, 1, 2, 3])])
        elif k < 0.90 and style in ("crash", "replay", "gap", "snap", "mixed", "leader"):
            ops.append(["crash"])
            leader_self = False
        elif k < 0.94 and style in ("snap", "mixed", "crash", "plain"):
            ops.append(["snapin", r.choice([1, 2, 3, 5, 50]), r.choice([0, 0, 1, 2, 3])])
        elif style in ("leader", "mixed", "plain"):
            t = fresh()
            local = 1 if r.random() < 0.6 else 0
            ops.append(["tx", t, local])
            if not leader_self and local == 0:
                remote.append(t)
            if leader_self:
                pending += 1
            if pending and r.random() < 0.8:
                ops.append([r.choice(["entp", "entp", "entp", "dropp"])])
                pending -= 1
                if ops[-1][0] == "entp":
                    nh += 1
    return h


def gen_crashpoints(r):
    """a log with optional stale / future / empty entries; deliver a prefix, execute some of what was handed
    over, report some of what was executed (any order), crash; replay everything; finish; crash; replay"""
    init = r.choice([0, 1, 4, 9])
    h = dict(kind="raft", init=init, snap=r.choice([1000, 1000, 1000, 2, 3]), batch=1, id=1, style="crashpoints", ops=[])
    ops = h["ops"]
    nh, tx = init + 1, 100
    ents = []
    for _ in range(r.randrange(3, 8)):
        tx += 100
        k = r.random()
        if k < 0.18 and nh > init + 1:
            ents.append(["ent", 1, r.randrange(max(init, nh - 3), nh), [tx]])
        elif k < 0.36:
            # a batch from the future, then (usually) the regular ones that fill the gap
            ents.append(["ent", 1, nh + 1, [tx]])
            if r.random() < 0.8:
                ents.append(["ent", 1, nh, [tx + 1]])
                ents.append(["ent", 1, nh + 1, [tx + 2]])
                nh += 2
        elif k < 0.44:
            ents.append(["ent", 0, 0, []])
        else:
            ents.append(["ent", 1, nh, [tx]])
            nh += 1
    ops += ents
    n = len(ents)
    a = r.randrange(0, n + 1)
    ops.append(["ready", 0, a, r.choice([0, 0, 2]), r.choice([0, 2, 3])])
    b = r.randrange(0, a + 1)
    ops += [["exec"]] * b
    for _ in range(r.randrange(0, b + 1)):
        ops.append(["report", r.randrange(0, max(1, b))])
    if r.random() < 0.3:
        ops.append(["ready", 0, r.randrange(0, 3), 0, 0])
    ops.append(["crash"])
    ops.append(["ready", 0, 99, 0, 0])
    ops += [["exec"]] * r.randrange(0, n + 1)
    for _ in range(r.randrange(0, 3)):
        ops.append(["report", r.randrange(0, 3)])
    ops.append(["crash"])
    ops.append(["ready", 0, 99, 0, 0])
    ops += [["exec"]] * r.randrange(0, 3)
    return h


def redistribute_lag(h, t, idx_last):
    """While the consumer stayed away ("lag" .. "drain") the driver did not read Commit(); the drain step has
    everything in the order the queue handed it out.  Give each step of the lag period as many of those
    events as its lastExec moved (a Go channel is FIFO: hand-over order = order of taking), so that the
    trace has the events where they were produced.  Returns a copy of the steps."""
    steps = [dict(s, ev=s.get("ev") or []) for s in t["steps"]]
    lagging, period = False, []
    for i, op in enumerate(h["ops"]):
        k = i + 1
        if k >= len(steps):
            break
        if op[0] == "lag":
            lagging, period = True, []
        elif op[0] == "drain" and lagging:
            evs = list(steps[k]["ev"])
            for j in period:
                n = steps[j]["st"][idx_last] - steps[j - 1]["st"][idx_last]
                if n > 0:
                    steps[j]["ev"] = evs[:n]
                    evs = evs[n:]
            steps[k]["ev"] = evs          # anything left was not accounted for by lastExec: stays here
            lagging = False
        elif lagging:
            period.append(k)
    return steps


def gen_raft_backlog(r, big=False):
    """an executor backlog above the capacity of the commit queue (1024): the consumer stays away while more
    than 1024 blocks are applied, then drains"""
    # goroutines that complete an overflowing hand-over in the background start in creation order as long as
    # they fit the scheduler's local run queue (256); a few hundred of them are needed to see another order
    k = 1024 + (r.choice([600, 1076]) if big else r.choice([300, 340, 400]))
    # goroutine start order depends on the schedule; one P makes the newest goroutine run first
    h = dict(kind="raft", init=1, snap=r.choice([1000, 5000]), batch=1, id=1, style="backlog", procs=r.choice([1, 2, 0]), ops=[])
    ops = h["ops"]
    ops.append(["ready", 0, 0, 0, 3])
    ops.append(["lag"])
    ops.append(["ents", k, 2])
    left = k
    while left > 0:
        n = min(left, r.choice([300, 512, 700, 1024]))
        ops.append(["ready", 0, n, 0, 0])
        left -= n
    ops.append(["drain"])
    ops += [["exec"], ["exec"], ["report", 0], ["ents", 2, k + 2], ["ready", 0, 5, 0, 0]]
    return h


def gen_solo_lag(r):
    """solo with an executor that is some blocks behind: order k small batches while nobody reads Commit()"""
    init = r.choice([1, 5, 9])
    h = dict(kind="solo", init=init, batch=1, style="lag", ops=[])
    ops = h["ops"]
    ntx = 1
    for _ in range(r.randrange(0, 3)):
        ntx += 1
        ops.append(["tx", ntx * 100, 1])
    ops.append(["lag"])
    for _ in range(r.randrange(2, 9)):
        ntx += 1
        ops.append(["tx", ntx * 100, 1])
    ops.append(["drain"])
    for _ in range(r.randrange(0, 4)):
        ops.append(r.choice([["exec"], ["exec"], ["report", 0]]))
    ntx += 1
    ops.append(["tx", ntx * 100, 1])
    return h


def gdef(d):
    return "(mkD %s %s %s %s %s)" % tuple("true" if d.get(k) else "false" for k in ("restart", "snap", "solo10", "snapin", "early"))


def gib(ib):
    return "(%d, (%d, %s))" % (ib[0], ib[1]["h"], glist(ib[1]["txs"]))


def gblk(b):
    return "(%d, %s)" % (b["h"], glist(b["txs"]))


def gobs(st):
    return "{| b_ev := %s; b_prop := %s; b_st := %s; b_bai := %s |}" % (
        glist(st["ev"], gblk), glist([p["h"] for p in (st.get("prop") or [])]), glist(st["st"]),
        glist(st.get("bai") or [], lambda p: "(%d, %d)" % (p[0], p[1])))


def canon_index(init, log):
    """height -> 1-based index of the log entry that the canonical chain accepts for it"""
    out, c = {}, init
    for i, e in enumerate(log):
        if e[0] == 1 and e[1] == c + 1:
            c = e[1]
            out[c] = i + 1
    return out


def raft_resolve(h, t):
    """-> (log as python list of (kind,h,txs,origin), model ops as strings, observations) from a history and its trace"""
    log, ops, obs = [], [], []
    steps = redistribute_lag(h, t, 0)
    blank = dict(ev=[], st=[], bai=[])

    def ghost(evs):
        ci = canon_index(h["init"], log)
        return glist([(ci.get(b["h"], 0), b) for b in evs], gib)
    for op, st in zip(h["ops"], steps[1:]):
        name = op[0]
        obs.append(st)
        if name in ("ent", "entp"):
            if st.get("ent") is not None:
                e = st["ent"]
                log.append((st["r"][0], e["h"], e["txs"], name))
                ops.append("OAppend")
            else:
                ops.append("ONop")
        elif name == "ents":
            n, h0 = st["r"][:2]
            for i in range(n):
                log.append((1, h0 + i, [], "ent"))
                ops.append("OAppend")
            obs.pop()
            obs += [blank] * (n - 1) + [st]
        elif name in ("lag", "drain"):
            ops.append("ONop")
        elif name == "dropp":
            ops.append("ONop")
        elif name == "ready":
            lo, hi, app = st["r"][:3]
            ops.append("OReady %d %d %d %s" % (lo, hi, app, "None" if op[4] == 0 else "(Some %d)" % (op[4] - 1)))
        elif name == "exec":
            ops.append("OExec")
        elif name == "report":
            ops.append("OReport %d" % st["r"][0])
        elif name == "crash":
            ops.append("OCrash %s" % ghost(st["ev"]))
        elif name == "snapin":
            if st["r"][0] == 1:
                ops.append("OSnapIn %d %s" % (st["r"][1], ghost(st["ev"])))
            else:
                ops.append("ONop")
        elif name == "tx":
            ops.append("OPropose %d" % len(st.get("prop") or []))
        else:
            raise ValueError(name)
    return log, ops, [steps[0]] + obs


def gen_glue(r):
    """real executor + node wired as in feedhub.go: deliveries, the ledger write of each block released or
    not, reports held back and released out of order, the process dying at every point"""
    init = 1                                  # height after genesis
    h = dict(kind="glue", init=init, snap=1000, batch=1, id=1, ops=[])
    ops = h["ops"]
    k = r.randrange(3, 8)
    nh = init + 1
    if r.random() < 0.5:
        ops.append(["ent", 0, 0, []])
    for i in range(k):
        if r.random() < 0.15 and nh > init + 1:
            ops.append(["ent", 1, nh - 1, []])       # stale duplicate
        ops.append(["ent", 1, nh, []])
        nh += 1
    ops.append(["ready", 0, r.randrange(1, k + 3), 0, r.choice([0, 2, 3])])
    lives = r.choice([1, 2, 2, 3])
    for life in range(lives):
        for _ in range(r.randrange(0, 5)):
            c = r.random()
            if c < 0.55:
                ops.append(["persist"])
            elif c < 0.70:
                ops.append(["hold", r.choice([1, 2, 3])])
            elif c < 0.82:
                ops.append(["release"])
            else:
                ops.append(["ready", r.choice([0, 0, 1]), r.choice([1, 2, 9]), 0, 0])
        ops.append(["crash"])
        ops.append(["ready", 0, 99, 0, 0])
    for _ in range(r.randrange(0, 4)):
        ops.append(["persist"])
    ops.append(["release"])
    return h


def glue_resolve(h, t):
    """flatten a glue trace: the op itself, then one OReport per ReportState that reached the node during it"""
    log, ops, obs = [], [], []
    steps = t["steps"]

    def ghost(evs):
        ci = canon_index(h["init"], log)
        return glist([(ci.get(b["h"], 0), b) for b in evs], gib)
    for op, st in zip(h["ops"], steps[1:]):
        name = op[0]
        reps = st.get("reps") or []
        if name == "ent":
            e = st["ent"]
            log.append((st["r"][0], e["h"], e["txs"], name))
            ops.append("OAppend")
        elif name == "ready":
            lo, hi, app = st["r"][:3]
            ops.append("OReady %d %d %d %s" % (lo, hi, app, "None" if op[4] == 0 else "(Some %d)" % (op[4] - 1)))
        elif name == "persist":
            ops.append("OExec" if st["r"][0] == 1 else "ONop")
        elif name == "crash":
            ops.append("OCrash %s" % ghost(st["ev"]))
        elif name in ("hold", "release"):
            ops.append("ONop")
        else:
            raise ValueError(name)
        # the state right after the op itself is not observable when reports followed in the same step
        obs.append(dict(ev=st["ev"], st=[], bai=[]) if reps else st)
        for rp in reps:
            ops.append("OReport %d" % rp["h"])
            obs.append(dict(ev=[], st=rp["st"], bai=rp["bai"]))
    return log, ops, [steps[0]] + obs


def glue_row(h, t, flags):
    log, ops, obs = glue_resolve(h, t)
    cfg = "{| c_id := 1; c_snap := 1000; c_init := %d |}" % h["init"]
    glog = glist(["EBatch %d %s" % (e[1], glist(e[2])) if e[0] == 1 else "EEmpty" for e in log])
    return "(%s, %s, %s, %s, %s)" % (gdef(flags), cfg, glog, glist(ops), glist(obs, gobs))


def raft_row(h, t, flags):
    log, ops, obs = raft_resolve(h, t)
    cfg = "{| c_id := %d; c_snap := %d; c_init := %d |}" % (h.get("id") or 1, h.get("snap") or 1000, h["init"])
    glog = glist(["EBatch %d %s" % (e[1], glist(e[2])) if e[0] == 1 else "EEmpty" for e in log])
    return "(%s, %s, %s, %s, %s)" % (gdef(flags), cfg, glog, glist(ops), glist(obs, gobs))


def real_to_model(h, t):
    """raftreal: rebuild the shared log and the Ready ops from what the real etcd-raft instance did"""
    steps = t["steps"]
    log = {}          # index -> (kind, h)
    txs_of = {}

    def absorb(flat):
        for i in range(0, len(flat), 3):
            log.setdefault(flat[i], (flat[i + 1], flat[i + 2]))
    # proposals carry their txs; the log view only has heights: recover txs from the ops in order of first appearance
    prop_txs = {}
    ops, obs = [], []
    init_obs = dict(ev=[], st=[h["init"], 0, 0, 0, 0, 0, h["init"], 0], bai=[[h["init"], 0]])
    avail = 0
    last_applied = 0

    def catch_up(st, lead_known, after_crash_from=None):
        """ops that bring the model from the previous observation to this one.  After a (re)start the real
        instance first hands out what was committed before (one Ready), then wins the election and
        commits the new empty entry (another Ready)."""
        nonlocal avail, last_applied
        ram_last = st["st"][7]
        out = []
        if after_crash_from is not None and avail > after_crash_from:
            out.append("OReady %d %d %d None" % (after_crash_from + 1, avail, avail))
            last_applied = avail
        while avail < ram_last:
            out.append("OAppend")
            avail += 1
        lo = last_applied + 1
        out.append("OReady %d %d %d %s" % (min(lo, st["st"][1] + 1), st["st"][1], ram_last, "(Some %d)" % st["st"][5]))
        last_applied = st["st"][1]
        return out
    absorb(steps[0]["r"])
    # start-up: the bootstrap conf change is committed first, the election entry afterwards
    first = ["OAppend", "OReady 1 1 1 None"]
    avail, last_applied = 1, 1
    first += catch_up(steps[0], True)
    ops += first
    obs += [None] * (len(first) - 1) + [steps[0]]
    prev_snap = steps[0]["st"][2]
    for op, st in zip(h["ops"], steps[1:]):
        r = st.get("r") or []
        cut = r.index(77777)
        absorb(r[cut + 1:])
        name = op[0]
        if name == "propose":
            prop_txs.setdefault((op[1], st["st"][7]), op[2])
            seq = catch_up(st, True)
            # remember the txs of the entry this proposal produced (the last batch index)
            for idx in sorted(log):
                if log[idx][0] == 1 and idx not in txs_of and log[idx][1] == op[1] and idx == st["st"][7]:
                    txs_of[idx] = op[2]
            ops += seq
            obs += [None] * (len(seq) - 1) + [st]
        elif name == "exec":
            ops.append("OExec"); obs.append(st)
        elif name == "report":
            ops.append("OReport %d" % r[0]); obs.append(st)
        elif name == "crash":
            seq = ["OCrash []"] + catch_up(st, True, after_crash_from=prev_snap)
            ops += seq
            if len(seq) > 1 and seq[1].startswith("OReady") and seq[1].endswith("None"):
                # commit events of a restart come from the replay Ready; the election entry is empty
                replay = dict(ev=st["ev"], st=[], bai=[])
                final = dict(st, ev=[])
                obs += [None, replay] + [None] * (len(seq) - 3) + [final]
            else:
                obs += [None] * (len(seq) - 1) + [st]
        elif name == "wait":
            seq = catch_up(st, True)
            ops += seq
            obs += [None] * (len(seq) - 1) + [st]
        prev_snap = st["st"][2]
    glog = []
    for idx in range(1, (max(log) if log else 0) + 1):
        k, hh = log.get(idx, (0, 0))
        glog.append("EBatch %d %s" % (hh, glist(txs_of.get(idx, []))) if k == 1 else "EEmpty")
    return glog, ops, [init_obs] + obs


def gen_real(r):
    init = r.choice([1, 1, 4])
    h = dict(kind="raftreal", init=init, snap=r.choice([1000, 1000, 3, 5]), batch=1, id=1, ops=[])
    nh, ntx = init + 1, 50
    for _ in range(r.randrange(6, 16)):
        k = r.random()
        if k < 0.45:
            ntx += 1
            hh = nh if r.random() < 0.75 else r.choice([max(init, nh - 1), nh + 1])
            h["ops"].append(["propose", hh, [ntx * 100]])
            if hh == nh:
                nh += 1
        elif k < 0.7:
            h["ops"].append(["exec"])
        elif k < 0.85:
            h["ops"].append(["report", r.choice([0, 0, 1, 2])])
        else:
            h["ops"].append(["crash"])
    return h


# ------------------------------------------------------------------------------------------- solo histories

def gen_solo(r, maxops=24):
    """the generator mirrors the node just enough to know when a commit event is to be waited for"""
    init = r.choice([0, 1, 1, 5, 8, 9, 18])
    h = dict(kind="solo", init=init, batch=1, ops=[])
    ops = h["ops"]
    last, seq, chain, queue, dead, stuck, ntx, seen = init, init, init, [], False, False, 1, []
    style = r.choice(["plain", "plain", "plain", "mismatch", "mismatch", "crash"])
    h["style"] = style
    n = r.randrange(6, maxops + 1)
    while len(ops) < n:
        k = r.random()
        if k < 0.45:
            if seen and r.random() < 0.1:
                ops.append(["tx", r.choice(seen), 0])
                continue
            ntx += 1
            t = ntx * 100
            ops.append(["tx", t, 1 if (not dead and not stuck and seq == last) else 0])
            if not stuck:
                seen.append(t)
                seq += 1
                if dead:
                    stuck = True
                elif seq == last + 1:
                    last += 1
                    queue.append(last)
                else:
                    dead = True
        elif k < 0.65:
            ops.append(["exec"])
            if queue:
                chain = queue.pop(0)
        elif k < 0.82:
            ops.append(["report", r.choice([0, 0, 0, 1, 2])])
        elif k < 0.90 and style in ("crash", "mismatch"):
            ops.append(["crash"])
            last, seq, queue, dead, stuck, seen = chain, chain, [], False, False, []
        elif style == "mismatch":
            ntx += 1
            hh = max(0, last + r.choice([1, 1, 1, 0, 2, 5]))
            ops.append(["prop", hh, [ntx * 100]])
            if not dead:
                if hh == last + 1:
                    last += 1
                    queue.append(last)
                else:
                    dead = True
    return h


def solo_row(h, t, flags):
    ops = []
    steps = redistribute_lag(h, t, 0)
    pairs = list(zip(h["ops"], steps[1:]))
    # "lag" / "drain" are not steps of the node; events a drain could not attribute stay visible on the step before it
    kept = []
    for op, st in pairs:
        if op[0] in ("lag", "drain"):
            if st["ev"] and kept:
                kept[-1] = (kept[-1][0], dict(kept[-1][1], ev=kept[-1][1]["ev"] + st["ev"]))
            continue
        kept.append((op, st))
    hops = [op for op, _ in kept]
    steps = [steps[0]] + [st for _, st in kept]
    for op, st in zip(hops, steps[1:]):
        name = op[0]
        if name == "tx":
            ops.append("STx %d" % op[1])
        elif name == "prop":
            ops.append("SInject %d %s" % (op[1], glist(op[2])))
        elif name == "exec":
            ops.append("SExec")
        elif name == "report":
            ops.append("SReport %d" % st["r"][0])
        elif name == "crash":
            ops.append("SCrash")

    def so(st, op=None):
        r = st.get("r") or []
        code = 0
        if op is not None and op[0] == "prop" and r[:1] == [2]:
            code = 2
        still = 0
        if op is not None and op[0] == "report" and len(r) > 2:
            code, still = r[1], r[2]
        return "{| so_ev := %s; so_st := %s; so_r := %d; so_still := %d |}" % (glist(st["ev"], gblk), glist(st["st"]), code, still)
    obs = [so(steps[0])] + [so(st, op) for op, st in zip(hops, steps[1:])]
    return "(%s, %d, %s, %s)" % (gdef(flags), h["init"], glist(ops), glist(obs))


# ------------------------------------------------------------------------------------------- SyncCFTBlocks

def gen_sync(r):
    f = r.choice([0, 1, 2, 3, 5, 7, 16])
    b = r.choice([0, 1, 2, r.randrange(0, 50), r.randrange(0, 10**9), MAXU - r.randrange(0, 200), 2**63 - 3])
    span = r.choice([0, 1, (f or 5) - 1, f or 5, 2 * (f or 5) + 1, r.randrange(0, 60)])
    e = min(MAXU, b + span)
    if r.random() < 0.08 and b > 0:
        e = r.randrange(0, b)
    peers = r.choice([1, 2, 3, 4])
    nreq = max(1, span // (f or 5) + 2)
    faults = sorted(set(r.randrange(1, nreq + 2) for _ in range(r.randrange(0, peers))))[:peers - 1]
    return dict(kind="sync", fetch=f, begin=b, end=e, peers=peers, faults=faults)


def sync_row(h, t, wrap):
    ok = [q for q in t["reqs"] if q[3] == 1]
    return "(%s, (%d, %d, %d), %d%%nat, %s, %s, %s)" % (
        "true" if wrap else "false", h["fetch"] or 5, h["begin"], h["end"], len(ok) + 2,
        glist(ok, lambda q: "(%d, %d)" % (q[0], q[1])), glist(t["emit"]), "true" if t["err"] else "false")


# ------------------------------------------------------------------------------------------- deciding

def resolved_log(h, t):
    """(kind, height, txs, origin) per log entry, for both driver modes"""
    if h["kind"] == "raft":
        return raft_resolve(h, t)[0]
    if h["kind"] == "glue":
        return glue_resolve(h, t)[0]
    out = []
    for e in real_to_model(h, t)[0]:
        if e.startswith("EBatch"):
            hh, rest = e[len("EBatch "):].split(" ", 1)
            out.append((1, int(hh), [int(x) for x in rest.strip("[] ").split(";") if x.strip()], "entp"))
        else:
            out.append((0, 0, [], "ent"))
    return out


def log_has_future_entry(h, t):
    """python mirror of ~nogap: some entry's height is above canonical height + 1 at its position"""
    log = resolved_log(h, t)
    c = h["init"]
    for kind, hh, _, _ in log:
        if kind != 1:
            continue
        if hh > c + 1:
            return True
        if hh == c + 1:
            c = hh
    return False


def own_reproposal(h, t):
    """a transaction is in two delivered blocks and the later block's entry is this node's own proposal"""
    if h["kind"] != "raft":
        return False
    log = resolved_log(h, t)
    own = set()
    for kind, hh, txs, origin in log:
        if origin == "entp":
            own.add((hh, tuple(txs)))
    seen = {}
    for st in t["steps"]:
        for b in st["ev"]:
            for x in b["txs"]:
                if x in seen and seen[x] != b["h"]:
                    if (b["h"], tuple(b["txs"])) in own:
                        return True
                seen.setdefault(x, b["h"])
    return False


def order_flags(known):
    d = {flag: (fid in known) for fid, flag in FLAG_OF_FINDING.items()}
    d["wrap"] = "C20-ranges-overflow" in known
    return d


def decide_raft(ctx, known, h, t, v):
    """returns None when fine, else ('known', id) or ('violation', text) or ('broken', text)"""
    if v[0] == 0:
        return None
    if v[0] == 2:
        p, bits = v[1] % 10, v[1] // 10
        has_crash = any(op[0] == "crash" for op in h["ops"])
        if p == 8:
            return ("violation", "ReportState(h) reached the ordering node before block h was durable in the ledger "
                                 "(the persisted applied index may cover an entry whose block is lost by a crash)")
        has_snapin = any(op[0] == "snapin" for op in h["ops"])
        if p in (2, 3, 4) and bits != 9 and (bits & 4) and has_crash and has_snapin and "C20-raft-snapshot-install-crash" in known:
            return ("known", "C20-raft-snapshot-install-crash")
        if p in (2, 3) and bits != 9 and (bits & 1) and has_crash and log_has_future_entry(h, t) and "C20-raft-replay-future-entry" in known:
            return ("known", "C20-raft-replay-future-entry")
        if p in (2, 3, 4) and bits != 9 and (bits & 2) and has_crash and "C20-raft-snapshot-unexecuted" in known:
            return ("known", "C20-raft-snapshot-unexecuted")
        if p == 5 and bits != 9 and own_reproposal(h, t) and "C20-raft-new-leader-rebatches-delivered-tx" in known:
            return ("known", "C20-raft-new-leader-rebatches-delivered-tx")
        what = {7: "the replica became leader and its batch sequence number is not lastExec", 6: "a block at or below the executed height was handed to the executor again",
                1: "heights handed to the executor are not lastExec+1, +2, ...", 2: "a delivered block is not the block of the log's canonical chain at its height (replicas diverge)",
                3: "the executed blocks are not a prefix of the log's canonical chain", 4: "an entry of a block that was never executed was skipped (applied index ahead of lastExec)",
                5: "a transaction is in two delivered blocks"}.get(p, "property predicate %d" % p)
        return ("violation", what)
    if v[0] == 1:
        return ("broken", "model and implementation differ at step %d (property predicates hold on the implementation's trace)" % v[1])
    return ("broken", "history outside the model's domain (generator / driver bug)")


def decide_solo(ctx, known, h, t, v):
    if v[0] == 0:
        return None
    if v[0] == 2:
        if v[1] == 6 and "C20-solo-commit-every-10" in known:
            return ("known", "C20-solo-commit-every-10")
        what = {1: "solo: heights handed to the executor are not lastExec+1, +2, ...", 5: "solo: a transaction is in two delivered blocks",
                6: "solo: a reported block's transactions stay in the pool"}.get(v[1], "solo predicate %d" % v[1])
        return ("violation", what)
    if v[0] == 1:
        return ("broken", "solo model and implementation differ at step %d" % v[1])
    return ("broken", "solo history outside the model's domain")


LOAD_SUSPECT = ("worker died", "timeout", "no advance", "ready not taken", "lost")


def _run_tagged(exe, hs, timeout):
    """run the histories; outputs are matched to inputs by the position id the driver echoes"""
    rc, lines, e = vlib.run_driver(exe, "order", hs, timeout=timeout)
    outs = [None] * len(hs)
    for l in lines:
        if isinstance(l, dict) and isinstance(l.get("hid"), int) and 0 <= l["hid"] < len(hs) and isinstance(l.get("t"), dict):
            outs[l["hid"]] = l["t"]
    return rc, outs, e


def run_order_batch(exe, hs, isolate=True):
    rc, outs, e = _run_tagged(exe, hs, 2400)
    if all(o is None for o in outs):
        return None, "driver rc=%s produced no usable output: %s" % (rc, e[-1200:])
    if not isolate:
        return [o if o is not None else dict(steps=[], err="lost") for o in outs], ""
    # A history whose output is missing, or that ended in a way a loaded machine can cause (a worker that died
    # takes the rest of its share with it; a deadline passed), is run again on its own, once, before anything is
    # concluded from it.  Only what fails again alone is a result.
    def suspect(o):
        err = o.get("err")
        return isinstance(err, str) and any(k in err for k in LOAD_SUSPECT)
    again = [i for i, o in enumerate(outs) if o is None or suspect(o)]
    for i in again[:200]:
        rc1, o1, e1 = _run_tagged(exe, [hs[i]], 900)
        if o1[0] is not None:
            outs[i] = o1[0]
            if o1[0].get("err") == "worker died":
                outs[i]["stderr"] = e1[-800:]
        else:
            outs[i] = dict(steps=[], err="lost", lost=True, stderr=(e1 or "")[-800:])
    return [o if o is not None else dict(steps=[], err="lost", lost=True) for o in outs], ""


def judge_order(hs, outs, flags):
    """-> verdict list aligned with hs (None entries for histories whose driver run failed)"""
    rows_r, idx_r, rows_s, idx_s, rows_y, idx_y = [], [], [], [], [], []
    vs = [None] * len(hs)
    for i, (h, t) in enumerate(zip(hs, outs)):
        if h["kind"] == "sync":
            if t.get("hang") or "reqs" not in t:
                vs[i] = (8, 0)
            else:
                rows_y.append(sync_row(h, t, flags.get("wrap", False))); idx_y.append(i)
            continue
        if t.get("err") or not t.get("steps"):
            vs[i] = (9, 0)
            continue
        if h["kind"] == "raft":
            rows_r.append(raft_row(h, t, flags)); idx_r.append(i)
        elif h["kind"] == "glue":
            if t["steps"][0].get("dur") != h["init"]:
                vs[i] = (9, 1)
                continue
            rows_r.append(glue_row(h, t, flags)); idx_r.append(i)
        elif h["kind"] == "raftreal":
            try:
                glog, ops, obs = real_to_model(h, t)
            except Exception:
                vs[i] = (9, 1)
                continue
            # unobserved intermediate steps: fill with a copy of the model's own view is impossible here,
            # so only the last op of each group is compared: the row keeps ops grouped via ONop-free prefixes
            rows_r.append(real_row(h, glog, ops, obs, flags)); idx_r.append(i)
        else:
            rows_s.append(solo_row(h, t, flags)); idx_s.append(i)
    if rows_r:
        res, msg = vlib.coq_judge_sharded("C20_raft", ORDER_PRE, "raft_case", "judge_raft", rows_r, shard=150)
        if res is None:
            return None, msg
        for i, v in zip(idx_r, res):
            vs[i] = v
    if rows_y:
        res, msg = vlib.coq_judge_sharded("C20_sync", "From BX Require Import Base.Prelude Model.Ranges.\nLocal Open Scope N_scope.",
                                          "sync_case", "judge_sync", rows_y, shard=300)
        if res is None:
            return None, msg
        for i, v in zip(idx_y, res):
            vs[i] = v
    if rows_s:
        res, msg = vlib.coq_judge_sharded("C20_solo", ORDER_PRE, "solo_case", "judge_solo", rows_s, shard=300)
        if res is None:
            return None, msg
        for i, v in zip(idx_s, res):
            vs[i] = v
    return vs, ""


def real_row(h, glog, ops, obs, flags):
    cfg = "{| c_id := 1; c_snap := %d; c_init := %d |}" % (h.get("snap") or 1000, h["init"])
    # observations that the driver could not take (ops synthesised inside one driver step) are marked
    # with an empty state vector; the judge for real mode skips them
    def g(o):
        if o is None:
            return "{| b_ev := []; b_prop := []; b_st := []; b_bai := [] |}"
        return gobs(o)
    return "(%s, %s, %s, %s, %s)" % (gdef(flags), cfg, glist(glog), glist(ops), glist(obs, g))


def shrink(exe, h, flags, same, rounds=12):
    """greedy one-op-at-a-time removal keeping the verdict class; `same(v)` says whether a verdict is the one we chase"""
    cur = h
    for _ in range(rounds):
        cands = []
        for i in range(len(cur["ops"]) - 1, -1, -1):
            c = dict(cur)
            c["ops"] = cur["ops"][:i] + cur["ops"][i + 1:]
            cands.append(c)
        if not cands:
            break
        outs, msg = run_order_batch(exe, cands)
        if outs is None:
            break
        vs, msg = judge_order(cands, outs, flags)
        if vs is None:
            break
        hit = [c for c, v in zip(cands, vs) if v is not None and same(v)]
        if not hit:
            break
        cur = hit[0]
    return cur


def run_order(ctx, known):
    exe, err = vlib.build_harness("order")
    if exe is None:
        ctx.broken("harness-build:order", err)
        return
    flags = order_flags(known)
    hs = []
    for f in sorted(glob.glob(os.path.join(vlib.CORPUS, "C20_*.json"))):
        try:
            obj = json.load(open(f))
        except ValueError:
            continue
        for hh in (obj if isinstance(obj, list) else [obj]):
            if isinstance(hh, dict) and hh.get("kind") in ("raft", "solo", "raftreal", "sync", "glue"):
                hh = dict(hh); hh["corpus"] = os.path.basename(f)
                hs.append(hh)
    n_corpus = len(hs)
    r = ctx.rng
    n_raft, n_solo, n_real = (200, 70, 10) if ctx.quick else (5000, 1200, 120)
    hs += [gen_raft(r) for _ in range(n_raft)]
    hs += [gen_crashpoints(r) for _ in range(n_raft // 2)]
    hs += [gen_solo(r) for _ in range(n_solo)]
    hs += [gen_real(r) for _ in range(n_real)]
    hs += [gen_sync(r) for _ in range(60 if ctx.quick else 3000)]
    hs += [gen_glue(r) for _ in range(24 if ctx.quick else 400)]
    hs += [gen_solo_lag(r) for _ in range(16 if ctx.quick else 300)]
    hs += [gen_raft_backlog(r) for _ in range(0 if ctx.quick else 4)]    # quick: the corpus has one
    if not ctx.quick:
        hs += [gen_raft_backlog(r, big=True) for _ in range(3)]
    outs, msg = run_order_batch(exe, hs)
    if outs is None:
        ctx.broken("driver:order", msg)
        return
    vs, msg = judge_order(hs, outs, flags)
    if vs is None:
        ctx.broken("correspondence:judge_order", msg)
        return
    dist = {}
    reported = set()
    for i, (h, t, v) in enumerate(zip(hs, outs, vs)):
        kind = h["kind"]
        if kind == "sync":
            ctx.count(case_key=("sync", h["fetch"], h["begin"], h["end"], tuple(h["faults"])), nontrivial=len(t.get("reqs") or []) >= 2,
                      sample=dict(driver="sync", history=h, impl=t, verdict=v) if dist.get("sync", 0) < 1 else None)
            ctx.traces_validated += 1
            dist["sync"] = dist.get("sync", 0) + 1
            dist["sync:faulty_requests"] = dist.get("sync:faulty_requests", 0) + sum(1 for q in (t.get("reqs") or []) if q[3] == 0)
            if v[0] == 0:
                continue
            rep = dict(property="C20", driver="order", history=h, impl=t, verdict=v)
            key = ("sync", v[0])
            if key in reported:
                continue
            reported.add(key)
            if v[0] == 8:
                ctx.violation("SyncCFTBlocks does not finish", rep)
            elif v[0] == 2:
                ctx.violation("SyncCFTBlocks does not request / emit every height of [begin,end] exactly once in ascending order", rep)
            elif v[0] == 1:
                ctx.broken("correspondence:judge_sync", json.dumps(rep)[:1500])
            else:
                ctx.broken("domain:judge_sync", json.dumps(rep)[:1500])
            continue
        nev = sum(len(s["ev"]) for s in t.get("steps", []))
        ncrash = sum(1 for op in h["ops"] if op[0] == "crash")
        if kind == "glue":
            dist["glue:reports"] = dist.get("glue:reports", 0) + sum(len(s.get("reps") or []) for s in t.get("steps", []))
        skipped = kind == "raft" and any(s.get("r") and len(s["r"]) == 3 and s["r"][1] >= s["r"][0] for s in t.get("steps", [])) and \
            nev < sum(1 for s in t.get("steps", []) if s.get("ent") is not None)
        nontriv = nev >= 2 and (ncrash >= 1 or skipped or kind != "raft")
        ctx.count(case_key=(kind, json.dumps(h["ops"]), h["init"], h.get("snap")), nontrivial=nontriv,
                  sample=dict(driver=kind, history=h, verdict=v) if i < 2 or (kind == "solo" and dist.get("solo", 0) < 1) else None)
        ctx.traces_validated += 1
        dist[kind] = dist.get(kind, 0) + 1
        for op in h["ops"]:
            dist["op:" + kind + ":" + op[0]] = dist.get("op:" + kind + ":" + op[0], 0) + 1
        dist["events:" + kind] = dist.get("events:" + kind, 0) + nev
        if kind == "raft":
            dist["style:" + h.get("style", "corpus")] = dist.get("style:" + h.get("style", "corpus"), 0) + 1
        if t.get("changed"):
            key = ("violation", "changed", kind)
            if key not in reported:
                reported.add(key)
                ctx.violation("a commit event taken from Order.Commit() changed its content afterwards (%d event(s))" % t["changed"],
                              dict(property="C20", driver="order", history=h, impl=t, what="delivered event changed"))
        if (v == (9, 0) or v == (9, 1)) and t.get("lost"):
            key = ("violation", "lost", kind)
            if key not in reported:
                reported.add(key)
                ctx.violation("the driver produced no trace for this history, also when it was run again on its own",
                              dict(property="C20", driver="order", history=h, impl=t, what="no trace twice"))
            continue
        if v == (9, 0) or v == (9, 1):
            if t.get("err") == "worker died" and t.get("stderr") is not None:
                key = ("violation", "died", kind)
                if key not in reported:
                    reported.add(key)
                    ctx.violation("the ordering node's process died (panic / fatal) on a history the environment can produce",
                                  dict(property="C20", driver="order", history=h, impl=t, what="process died: " + t["stderr"][-400:]))
                continue
            ctx.broken("driver:order", "history %d (%s): %s" % (i, kind, t.get("err") or "trace not translatable"))
            continue
        d = decide_solo(ctx, known, h, t, v) if kind == "solo" else decide_raft(ctx, known, h, t, v)
        if kind == "glue" and d is not None and d[0] == "known":
            d = None if v[0] == 0 else d
        if d is None:
            continue
        dist["verdict:%d:%d" % v] = dist.get("verdict:%d:%d" % v, 0) + 1
        if d[0] == "known":
            ctx.known(d[1], known[d[1]]["what"])
            continue
        key = (d[0], d[1], kind)
        if key in reported:
            continue
        reported.add(key)
        small = h
        bulky = any(op[0] == "ents" and op[1] > 200 for op in h["ops"])    # judging a >1000-entry log takes ~15 s per candidate
        if kind in ("raft", "solo") and len(reported) <= 3 and not bulky:
            small = shrink(exe, h, flags, lambda w, v=v: w[0] == v[0] and (v[0] != 2 or w[1] % 10 == v[1] % 10))
        o2, _ = run_order_batch(exe, [small])
        v2, _ = judge_order([small], o2, flags) if o2 else (None, "")
        rep = dict(property="C20", driver="order", history=small, impl=o2[0] if o2 else None, verdict=v2[0] if v2 else v,
                   original_verdict=v, what=d[1])
        if d[0] == "violation":
            ctx.violation(d[1], rep)
        else:
            ctx.broken("correspondence:judge_%s" % kind, d[1] + " :: " + json.dumps(small)[:1500])
            ctx.extra.setdefault("mismatch_replays", []).append(rep)
    dist["corpus"] = n_corpus
    ctx.extra["order_distribution"] = dist


# ------------------------------------------------------------------------------------------- entry points

def run(ctx):
    ctx.proofs(["Proofs/RangesProofs", "Proofs/OrderProofs"], model_targets=["Ranges", "Order"])
    known = {f["id"]: f for f in vlib.known_findings() if f["property"] == "C20" and f.get("status") == "open"}
    if ctx.model_ok:
        run_ranges(ctx, known)
        run_order(ctx, known)
    return ctx.finish(rule="ranges: grid over (fetch,begin,end) + random spans incl. values near 2^63/2^64 + overflow corner in a child process; "
                           "non-trivial = at least two ranges returned, distinct by input triple.  order: corpus + seeded scripted histories "
                           "(raft: log entries incl. stale/future heights and empties, Ready with overlap and in-flight entries, exec, lagging reports, "
                           "crashes, leader changes, own proposals appended or dropped; solo: transactions, injected proposals with right/wrong height, "
                           "exec, report, crash; raftreal: proposals/exec/report/crash over the real etcd-raft instance); non-trivial = at least two "
                           "commit events and (raft) a crash or a skipped entry, distinct by op list")


def replay(ctx, path):
    obj = json.load(open(path))
    known = {f["id"]: f for f in vlib.known_findings() if f["property"] == "C20" and f.get("status") == "open"}
    if obj.get("driver") == "order" or "history" in obj:
        exe, err = vlib.build_harness("order")
        if exe is None:
            print(err)
            return 1
        vlib.run_extractor()
        vlib.coq_build(["theories/Model/Order.vo", "theories/Model/Ranges.vo"])
        h = obj["history"]
        outs, msg = run_order_batch(exe, [h])
        if outs is None:
            print(msg)
            return 1
        vs, msg = judge_order([h], outs, order_flags(known))
        print(json.dumps(dict(history=h, impl=outs[0], verdict=vs[0] if vs else msg)))
        return 0 if vs and vs[0][0] == 0 else 1
    if "input" not in obj:
        print(json.dumps(obj))
        return 1
    exe, err = vlib.build_harness("ranges")
    c = obj["input"]
    rc, outs, e = vlib.run_driver(exe, "ranges", [c])
    vs = judge_ranges(ctx, [c], outs, wrap="C20-ranges-overflow" in known)
    print(json.dumps(dict(input=c, impl=outs, verdict=vs)))
    return 0 if vs and vs[0][0] == 0 else 1
