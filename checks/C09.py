"""C09: stored chain is hash-linked and every index agrees with the executed blocks.

Histories of persist / rollback / reopen are run on the REAL chain ledger (driver harness/chain)
and on the Coq model (Model/ChainLedger.v); the judge evaluates, inside Coq, first the property
predicate (agreement of every lookup with the surviving stack + chain invariant with the real
header hash / Merkle root as oracle tables) on the implementation's own trace, then model = impl."""
import glob
import json
import os
import re

import vlib
from vlib import glist

PID = "C09"


# ----------------------------------------------------------------------------- Gallina writers

def g_hdr(h):
    return "(mkHdr %d %d %d %d %d)" % tuple(h)


def g_nl(l):
    return glist(l, lambda x: "%d" % x)


def g_ic(ic, tag):
    return "(%s, %d)" % (glist(ic, lambda e: "(%d, %s)" % (e[0], g_nl(e[1]))), tag)


def g_block(b):
    return "(mkBlk %s %d %s)" % (g_hdr(b[0]), b[1], g_nl(b[2]))


def g_entry(e):
    return "(mkEntry (mkBlk %s %d %s) %s %s)" % (g_hdr(e["hdr"]), e["hash"], g_nl(e["txs"]), g_nl(e["rcpts"]),
                                                 g_ic(e["ic"], e["tag"]))


DUMMY_ENTRY = "(mkEntry (mkBlk (mkHdr 0 0 0 0 0) 0 []) [] ([], 0))"


def g_res(r, f):
    st, p = r
    if st == 0:
        return "(ROk %s)" % f(p)
    return {1: "RNotFound", 2: "RFail", 3: "RPanic"}[st]


def g_obs(o):
    hs = glist(o["hs"], lambda h: "(mkHobs %s %s %d %s %s %s)" % (
        g_res(h["full"], g_block), g_res(h["idx"], g_block), h["bh"],
        g_res(h["ic"], lambda p: g_ic(p[0], p[1])), g_res(h["rc"], g_nl), g_res(h["sg"], lambda x: "%d" % x)))
    xs = glist(o["xs"], lambda r: g_res(r, g_block))
    ts = glist(o["ts"], lambda t: "(mkTobs %s %s %s)" % (
        g_res(t["tx"], lambda x: "%d" % x), g_res(t["meta"], lambda m: "(%d, %d, %d)" % tuple(m)),
        g_res(t["rc"], lambda x: "%d" % x)))
    st = o.get("stored") or o["meta"]
    return "(mkObs (mkMeta %d %d %d) (mkMeta %d %d %d) %s %s %s)" % (o["meta"][0], o["meta"][1], o["meta"][2],
                                                                  st[0], st[1], st[2], hs, xs, ts)


def g_case(hist, out):
    ent = {e["op"]: e for e in (out.get("entries") or [])}
    ops = []
    if hist.get("exec"):
        ops.append("OPersist %s" % g_entry(ent[-2]))      # genesis, executed by the driver's bootstrap
        ops.append("OPersist %s" % g_entry(ent[-1]))      # block 2: seeded appchains / services
    for i, o in enumerate(hist["ops"]):
        if o["op"] == "y":
            ops.append("OReexec %s" % (g_entry(ent[i]) if i in ent else DUMMY_ENTRY))
        elif o["op"] in ("p", "x"):
            ops.append("OPersist %s" % (g_entry(ent[i]) if i in ent else DUMMY_ENTRY))
        elif o["op"] == "r":
            ops.append("ORollback %d" % o["t"])
        else:
            ops.append("OReopen")
    tr = glist(out.get("steps") or [], lambda s: "(%d, %s)" % (s["code"], g_obs(s["obs"])))
    return "(mkCase %s %s %s (mkU %d%%nat %s %s) %s %s %s %s)" % (
        "true" if hist.get("full") or hist.get("exec") else "false",
        "false" if hist.get("ldb") == "multi" else "true", "true" if hist.get("exec") else "false",
        hist["kh"], g_nl(out["uh"]), g_nl(out["ut"]),
        glist(ops), tr,
        glist(out["hash_tbl"], lambda p: "(%s, %d)" % (g_hdr(p[0]), p[1])),
        glist(out["root_tbl"], lambda p: "(%s, %d)" % (g_nl(p[0]), p[1])))


def parse_two(txt):
    """the cases file prints MP (property verdicts) then MM (model verdicts)"""
    res = []
    for name in ("MP", "MM"):
        m = re.search(name + r"\s*=\s*(\[.*?\])\s*:\s*list", txt.replace("\n", " "))
        if not m:
            return None
        res.append([(int(a), int(b)) for a, b in re.findall(r"\(\s*(\d+)(?:%N)?\s*,\s*(\d+)(?:%N)?\s*\)", m.group(1))])
    return res


def judge(ctx, hists, outs, tag="C09", shard=16, jobs=8):
    """returns list of (prop verdict, model verdict) or None; shards are evaluated by parallel coqc
    processes (parsing the observation literals dominates, not vm_compute)"""
    from concurrent.futures import ThreadPoolExecutor

    def one(k):
        rows = [g_case(h, o) for h, o in zip(hists[k:k + shard], outs[k:k + shard])]
        src = ("From BX Require Import Base.Prelude Model.ChainLedger.\nLocal Open Scope N_scope.\n"
               "Definition cases : list case :=\n %s.\n"
               "Definition MP := Eval vm_compute in map judge_prop cases.\nPrint MP.\n"
               "Definition MM := Eval vm_compute in map judge_model cases.\nPrint MM.\n") % glist(rows)
        rc, out = vlib.coq_eval("%s_%d_%d" % (tag, os.getpid(), k), src)
        two = parse_two(out) if rc == 0 else None
        if two is None or len(two[0]) != len(rows) or len(two[1]) != len(rows):
            return None, out[-1500:]
        return list(zip(two[0], two[1])), ""
    res = []
    with ThreadPoolExecutor(max_workers=jobs) as ex:
        for vs, msg in ex.map(one, range(0, len(hists), shard)):
            if vs is None:
                ctx.broken("correspondence:judge_chain", msg)
                return None
            res += vs
    return res


# ----------------------------------------------------------------------------- generators

def kh_of(ops):
    n = sum(1 for o in ops if o["op"] == "p")
    m = max([o.get("num", 0) for o in ops if o["op"] == "p"] + [0])
    return min(max(n, m) + 2, 60)


def gen_structured(r, full, nops, want_dup=False, deep=False):
    """mostly well-formed: fresh transactions, re-execution of rolled-back transactions,
    interchain-heavy metas, rollbacks inside / at / above the head, reopen"""
    ops = []
    live = []          # tx lists of live blocks
    pool = []          # transactions of rolled-back blocks (candidates for re-execution)
    nxt = [1]

    def fresh(k):
        l = list(range(nxt[0], nxt[0] + k))
        nxt[0] += k
        return l
    for _ in range(nops):
        x = r.random()
        head = len(live)
        if x < (0.9 if deep and head < 13 else 0.62) or head == 0:
            k = r.choice([0, 0, 1, 1, 2, 3, 5, 8]) if r.random() < 0.93 else r.randrange(20, 45)
            txs = []
            if pool and r.random() < 0.6:
                txs = pool.pop()
                if r.random() < 0.5 and txs:
                    txs = txs[:r.randrange(0, len(txs) + 1)]
            txs = txs + fresh(max(0, k - len(txs)))
            if want_dup and live and r.random() < 0.45:
                src = r.choice(live)
                if src:
                    txs = txs + [r.choice(src)]           # same tx hash in two live blocks
            if want_dup and txs and r.random() < 0.2:
                txs = txs + [txs[0]]                      # same tx twice in one block
            ic = []
            if r.random() < 0.5:
                for key in sorted(r.sample(range(1, 9), r.randrange(1, 5))):
                    ic.append([key, [r.randrange(1, 50) for _ in range(r.randrange(1, 7 if r.random() < 0.8 else 30))]])
            ops.append(dict(op="p", txs=txs, ic=ic, tag=r.choice([0, 0, r.randrange(1, 99)])))
            live.append(txs)
        elif x < 0.9:
            t = r.choice([head, head + 1, head + 3] + list(range(0, head + 1)) * 3) if not deep else r.choice([0, 1, 2, head - 1, head - 10, head - 11, head - 12, head])
            t = max(t, 0)
            ops.append(dict(op="r", t=t))
            if t < head and not (full and (head - t > 10 and head > 11)):
                # (in full mode a rollback deeper than the journal window is refused)
                pool.extend(x for x in live[t:] if x)
                live = live[:t]
            if r.random() < 0.45:
                ops.append(dict(op="o"))      # restart right after the rollback, before the next persist:
                                              # the STORED chain meta is what the next process sees
        else:
            ops.append(dict(op="o"))
    return dict(full=full, ldb=r.choice(["normal", "normal", "multi"]), kh=kh_of(ops), ops=ops)


def gen_malformed(r, nops):
    """chain ledger alone: wrong numbers, wrong parents, wrong hash / roots, receipts not matching"""
    ops = []
    nxt = 1
    np = 0
    for _ in range(nops):
        x = r.random()
        if x < 0.65:
            k = r.randrange(0, 4)
            o = dict(op="p", txs=list(range(nxt, nxt + k)), ic=[], tag=0)
            nxt += k
            y = r.random()
            if y < 0.25:
                o["num"] = r.choice([1, 2, 3, np + 2, np + 3, np])
                if o["num"] == 0:
                    del o["num"]
            elif y < 0.45:
                o["par"] = r.choice([-2] + list(range(0, max(1, np))))
            elif y < 0.65:
                o["bad"] = r.choice([1, 2, 4, 3, 6])
            elif y < 0.8 and k > 0:
                o["nrc"] = r.randrange(0, k + 2)
            ops.append(o)
            np += 1
        elif x < 0.9:
            ops.append(dict(op="r", t=r.randrange(0, np + 2)))
        else:
            ops.append(dict(op="o"))
    return dict(full=False, ldb=r.choice(["normal", "multi"]), kh=kh_of(ops), ops=ops)


# ----------------------------------------------------------------------------- classification

def dup_trigger(hist, out):
    """the known finding's narrow trigger: an accepted rollback removes a block containing a
    transaction hash that also occurs in a surviving block (so its tx-meta key is deleted)"""
    live = []
    if hist.get("exec"):
        return False
    for o, s in zip(hist["ops"], out.get("steps") or []):
        if o["op"] == "p" and s["code"] == 0:
            live.append(list(o["txs"]))
        elif o["op"] == "r" and s["code"] == 0:
            t = o["t"]
            gone = set(x for b in live[t:] for x in b)
            kept = set(x for b in live[:t] for x in b)
            if gone & kept:
                return True
            live = live[:t]
    return False


def nontrivial(hist, out):
    if hist.get("exec"):
        return sum(1 for o in hist["ops"] if o["op"] in ("x", "y") and o.get("n", 0) + o.get("m", 0) > 0) >= 2
    acc_p = sum(1 for o, s in zip(hist["ops"], out["steps"]) if o["op"] == "p" and s["code"] == 0)
    acc_r = any(o["op"] == "r" and s["code"] == 0 and o["t"] < 10 ** 6 for o, s in zip(hist["ops"], out["steps"]))
    rej = any(s["code"] != 0 for s in out["steps"])
    return acc_p >= 2 and (acc_r or rej)


def run_hists(ctx, exe, hists):
    """chain-driver histories and executor-level histories go to different sub-commands"""
    outs = [None] * len(hists)
    for sub, sel in (("chain", [i for i, h in enumerate(hists) if not h.get("exec")]),
                     ("exec", [i for i, h in enumerate(hists) if h.get("exec")])):
        if not sel:
            continue
        rc, os_, e = vlib.run_driver(exe, sub, [hists[i] for i in sel])
        if rc != 0 or len(os_) != len(sel):
            ctx.broken("driver:" + sub, (e or "")[-1500:] + " rc=%s got %d of %d" % (rc, len(os_), len(sel)))
            return None
        for i, o in zip(sel, os_):
            outs[i] = o
    return outs


EXEC_HEAD0 = 2      # the bootstrap executes genesis and the seed block


def gen_exec(r, nops, redeliver=True):
    """executor-level: blocks of native transfers (some failing) and of IBTP requests that are really
    delivered (some rejected), EMPTY blocks right after them, restarts, and RE-DELIVERY of a different
    block for an already executed height k at every depth below the head (the executor's rollbackBlocks
    path), followed by further blocks"""
    ops = []
    head = EXEC_HEAD0
    for _ in range(nops):
        x = r.random()
        n = r.choice([0, 0, 1, 2, 3, 5])
        bad = r.randrange(0, n + 1) if n and r.random() < 0.4 else 0
        m = r.choice([0, 0, 1, 2, 4]) if r.random() < 0.6 else 0
        mbad = r.randrange(0, m + 1) if m and r.random() < 0.3 else 0
        blk = dict(n=n, bad=bad, m=m, mbad=mbad)
        if r.random() < 0.45:
            # the DELIVERED header already carries fields (a block fetched by the state syncer arrives
            # complete): garbage, the head block's values, or the right value -- the executor must seal
            # the block from what it executed whatever the header carried
            blk.update(ptx=r.choice([0, 1, 2, 3]), prc=r.choice([0, 1, 2]), pst=r.choice([0, 1, 2]),
                       ppar=r.choice([0, 1, 2, 3]), pbloom=r.choice([0, 1]))
        if redeliver and head >= 3 and x < 0.25:
            k = r.randrange(3, head + 1)         # any depth: k = head is the common case, k < head the deep one
            ops.append(dict(op="y", k=k, **blk))
            head = k
        elif x < 0.85 and head < 11:
            ops.append(dict(op="x", **blk))
            head += 1
            if m > mbad and r.random() < 0.6 and head < 11:
                # empty block(s) directly after delivered interchain transactions
                for _ in range(r.choice([1, 1, 2])):
                    ops.append(dict(op="x", n=0, bad=0, m=0, mbad=0))
                    head += 1
        else:
            ops.append(dict(op="o"))
    return dict(exec=True, kh=14, ops=ops)


def exec_redelivery_ladder(depth):
    """head 3+depth, then a different block for every height from the head down to 3, each followed by
    blocks up to the old head again (the sequence 2,3,4,5,3,4,5 and all others)"""
    ops = [dict(op="x", n=1 + i % 3, bad=0, m=i % 2, mbad=0) for i in range(depth + 1)]
    head = EXEC_HEAD0 + 1 + depth
    for k in range(head, 2, -1):
        ops.append(dict(op="y", k=k, n=2, bad=0, m=1, mbad=0))
        ops += [dict(op="x", n=0 if j == 0 else 1, bad=0, m=0, mbad=0) for j in range(head - k)]
    return dict(exec=True, kh=head + 2, ops=ops)


def exec_valid(hist):
    head = EXEC_HEAD0
    for o in hist["ops"]:
        if o["op"] == "x":
            head += 1
        elif o["op"] == "y":
            if not (3 <= o["k"] <= head):
                return False
            head = o["k"]
    return True


def deep_redelivery(hist):
    """a block strictly below the executor head is re-delivered"""
    head = EXEC_HEAD0
    for o in hist["ops"]:
        if o["op"] == "x":
            head += 1
        elif o["op"] == "y":
            if o["k"] < head:
                return True
            head = o["k"]
    return False


def empty_after_interchain(hist):
    """an empty block is executed directly after a block with delivered interchain transactions"""
    prev = False
    n = 0
    for o in hist["ops"]:
        if o["op"] in ("x", "y"):
            if prev and o.get("n", 0) + o.get("m", 0) == 0:
                n += 1
            prev = o.get("m", 0) > o.get("mbad", 0)
    return n


def shrink(ctx, exe, hist, bad):
    """greedy one-op removal while the verdict stays failing in the same way"""
    cur = hist
    changed = True
    rounds = 0
    while changed and rounds < 6:
        changed = False
        rounds += 1
        i = 0
        while i < len(cur["ops"]):
            cand = dict(cur, ops=cur["ops"][:i] + cur["ops"][i + 1:])
            if not cand["ops"]:
                i += 1
                continue
            # par references by op index shift: drop them when ops are removed
            cand["ops"] = [dict((k, v) for k, v in o.items() if k != "par" or v < 0) for o in cand["ops"]]
            cand["kh"] = kh_of(cand["ops"]) if not cand.get("exec") else cand["kh"]
            if cand.get("exec") and not exec_valid(cand):
                i += 1
                continue
            outs = run_hists(ctx, exe, [cand])
            if outs:
                vs = judge(ctx, [cand], outs, tag="C09s")
                if vs and bad(cand, outs[0], vs[0]):
                    cur = cand
                    changed = True
                    continue
            i += 1
    return cur


def decide(ctx, exe, known, hist, out, v, do_shrink=True):
    vp, vm = v
    rep = dict(property=PID, driver="chain", history=hist, impl=out, verdict_prop=vp, verdict_model=vm)
    if vp[0] == 0 and vm[0] == 0:
        return "ok"
    if vp[0] == 3 or (vp[0] == 0 and vm[0] == 3):
        ctx.broken("domain:judge_chain", "case outside the model's domain: " + json.dumps(hist)[:600])
        return "domain"
    if vp[0] == 2 and len(ctx.violations) >= 5 and not (dup_trigger(hist, out) and vm[0] == 0):
        ctx.extra["further_failing_cases_not_written"] = ctx.extra.get("further_failing_cases_not_written", 0) + 1
        return "violation"
    if vp[0] == 2:
        if "C09-dup-txhash-meta" in known and dup_trigger(hist, out) and vm[0] == 0:
            ctx.known("C09-dup-txhash-meta", known["C09-dup-txhash-meta"]["what"])
            return "known"

        def bad(h, o, vv):
            return vv[0][0] == 2 and not (dup_trigger(h, o) and vv[1][0] == 0)
        small = shrink(ctx, exe, hist, bad) if do_shrink else hist
        outs = run_hists(ctx, exe, [small]) or [out]
        vs = judge(ctx, [small], outs, tag="C09s") or [v]
        rep = dict(property=PID, driver="chain", history=small, impl=outs[0], verdict_prop=vs[0][0], verdict_model=vs[0][1],
                   what="lookup / chain invariant wrong on the implementation's own trace at step %d" % vs[0][0][1])
        ctx.violation("property predicate false on the implementation trace (step %d)" % vs[0][0][1], rep)
        return "violation"
    # property holds on the implementation trace but the model disagrees: broken correspondence
    ctx.broken("correspondence:judge_chain", "first differing case (step %d): %s" % (vm[1], json.dumps(hist)[:1200]))
    return "mismatch"


def coqchk(ctx, pid):
    """thorough tier: re-check the compiled property file and everything it depends on with the
    independent checker; records its context summary (axioms must be none)"""
    if ctx.quick or ctx.broken_list:
        return
    rc, o, e = vlib.sh(["coqchk", "-silent", "-o", "-Q", "theories", "BX", "-Q", "gen", "BXGen", "BX.Properties." + pid],
                       cwd=vlib.COQ, timeout=3000)
    txt = (o + e)
    ctx.extra["coqchk"] = txt[-600:]
    if rc != 0 or "* Axioms: <none>" not in txt:
        ctx.broken("coqchk:Properties/%s" % pid, txt[-1500:])


# ----------------------------------------------------------------------------- entry points

def load_corpus():
    hs = []
    for f in sorted(glob.glob(os.path.join(vlib.CORPUS, "C09_*.json"))):
        hs.append(json.load(open(f))["history"])
    return hs


def run(ctx):
    try:
        return run_inner(ctx)
    except Exception as ex:  # never die without a verdict
        import traceback
        ctx.broken("check-internal-error", traceback.format_exc()[-1500:])
        return ctx.finish(rule="-")


def run_inner(ctx):
    ctx.proofs(["Proofs/ChainLedgerProofs"], model_targets=["ChainLedger"])
    coqchk(ctx, PID)
    exe, err = vlib.build_harness("chain")
    if exe is None:
        ctx.broken("harness-build", err)
        return ctx.finish(rule="-")
    known = {f["id"]: f for f in vlib.known_findings() if f["property"] == PID and f.get("status") == "open"}
    if ctx.model_ok:
        r = ctx.rng
        hists = load_corpus()
        ncorp = len(hists)
        n = 150 if ctx.quick else 6000
        for i in range(n):
            x = r.random()
            if x < 0.40:
                hists.append(gen_structured(r, full=False, nops=r.randrange(3, 13)))
            elif x < 0.62:
                hists.append(gen_structured(r, full=True, nops=r.randrange(3, 13)))
            elif x < 0.72:
                hists.append(gen_structured(r, full=True, nops=r.randrange(15, 22), deep=True))
            elif x < 0.86:
                hists.append(gen_structured(r, full=r.random() < 0.5, nops=r.randrange(4, 12), want_dup=True))
            else:
                hists.append(gen_malformed(r, r.randrange(3, 11)))
        hists.append(exec_redelivery_ladder(3))
        for i in range(14 if ctx.quick else 400):
            hists.append(gen_exec(r, r.randrange(3, 12)))
        dist = dict(corpus=ncorp, histories=len(hists), full=sum(1 for h in hists if h.get("full")),
                    multi_leveldb=sum(1 for h in hists if h.get("ldb") == "multi"),
                    executor_level=sum(1 for h in hists if h.get("exec")),
                    executor_redeliveries=sum(1 for h in hists if h.get("exec") for o in h["ops"] if o["op"] == "y"),
                    executor_deep_redelivery_histories=sum(1 for h in hists if h.get("exec") and deep_redelivery(h)),
                    executor_prefilled_headers=sum(1 for h in hists if h.get("exec") for o in h["ops"]
                                                   if any(o.get(k) for k in ("ptx", "prc", "pst", "ppar", "pbloom"))),
                    executor_interchain_blocks=sum(1 for h in hists if h.get("exec") for o in h["ops"] if o.get("m", 0) > o.get("mbad", 0)),
                    executor_empty_blocks_after_interchain=sum(empty_after_interchain(h) for h in hists if h.get("exec")),
                    ops=sum(len(h["ops"]) for h in hists))
        kinds = {}
        B = 300
        for k in range(0, len(hists), B):
            hs = hists[k:k + B]
            outs = run_hists(ctx, exe, hs)
            if outs is None:
                break
            vs = judge(ctx, hs, outs)
            if vs is None:
                break
            for h, o, v in zip(hs, outs, vs):
                ctx.traces_validated += 1
                key = json.dumps(h, sort_keys=True)
                ctx.count(case_key=key, nontrivial=nontrivial(h, o),
                          sample=dict(driver="chain", history=h, codes=[s["code"] for s in o["steps"]], verdict=v))
                for s in o["steps"]:
                    kinds["code%d" % s["code"]] = kinds.get("code%d" % s["code"], 0) + 1
                d = decide(ctx, exe, known, h, o, v, do_shrink=len(ctx.violations) < 3)
                kinds[d] = kinds.get(d, 0) + 1
        dist["steps_by_code_and_outcome"] = kinds
        ctx.extra["chain_distribution"] = dist
    return ctx.finish(rule="chain: corpus, then seeded histories of persist/rollback/reopen on the real ledger (chain-only and full "
                           "ledger modes; fresh, re-executed, duplicated transactions; interchain-heavy metas; deep rollbacks past the "
                           "journal window; a malformed stream with wrong numbers/parents/hashes/roots/receipt counts); every lookup "
                           "over the whole universe after every step; non-trivial = at least two accepted persists and an accepted "
                           "rollback or a refused step, distinct by history")


def replay(ctx, path):
    obj = json.load(open(path))
    if "history" not in obj:
        print(json.dumps(dict(note="this replay names a broken obligation / tie, not an input; re-run ./check C09",
                              broken=obj.get("broken"), message=(obj.get("message") or "")[:400])))
        return 1
    exe, err = vlib.build_harness("chain")
    if exe is None:
        print("harness build failed", err)
        return 1
    h = obj["history"]
    outs = run_hists(ctx, exe, [h])
    if not outs:
        print("driver failed")
        return 1
    vs = judge(ctx, [h], outs, tag="C09r")
    print(json.dumps(dict(history=h, codes=[s["code"] for s in outs[0]["steps"]], verdict_prop=vs and vs[0][0],
                          verdict_model=vs and vs[0][1], dup_trigger=dup_trigger(h, outs[0]))))
    return 0 if vs and vs[0][0][0] == 0 and vs[0][1][0] == 0 else 1
