"""C14: transfers and fees never create value (Model/Fees.v, judge_fees)."""
import json

import vlib
from vlib import gbool, glist
from checks import execframe_common as X

PID = "C14"
AMOUNTS = ["0", "1", "-1", "-30", "abc", "", "+5", "007", " 5", "1e3", "0x10", "1_000", str(2**256), "-" + str(2**200)]


def gen_history(r, quick, ids):
    admins = r.choice([1, 2, 3, 4, 4, 7, 9])
    price = r.choice([0, 1, 3, 7, 1000003])
    genesis = 10**15
    users = 5
    fn, fb = X.GAS_NORMAL * price, X.GAS_BVM * price
    levels = sorted(set(v for v in [0, 1, fn - 1, fn, fn + 1, fb - 1, fb, fb + 1, 2 * fb + 12345, fb + fn, 3 * fb + 7, 10**13] if v >= 0))
    pre, funded = [], {}
    for u in range(users):
        lv = r.choice(levels)
        funded["u:%d" % u] = lv
        pre.append({"op": "fund", "acct": "u:%d" % u, "amt": str(lv)})
    pre.append({"op": "fund", "acct": "u:9", "amt": "1"})
    grant_state = {"stage": 0, "approves": 0} if admins == 4 and r.random() < 0.5 else None
    blocks = []
    for _ in range(r.randrange(2, 5 if quick else 7)):
        ops = []
        for _ in range(r.randrange(1, 6)):
            frm = r.choice(["u:%d" % r.randrange(users)] * 4 + ["a:%d" % r.randrange(admins)])
            k = r.random()
            if k < 0.5:
                to = r.choice(["u:%d" % r.randrange(users), frm, "c:store", "a:%d" % r.randrange(admins), "u:%d" % r.randrange(users),
                               "u:%d" % r.randrange(40, 46), "u:%d" % r.randrange(40, 46)])
                if r.random() < 0.15:
                    frm = "u:%d" % r.randrange(40, 46)      # an account that may have been created earlier in this very block
                lv = funded.get(frm, genesis)
                amt = r.choice(AMOUNTS + [str(lv), str(lv + 1), str(max(lv - fn, 0)), str(max(lv - fn, 0) + 1), str(lv // 2), str(r.randrange(0, 10**6))])
                ops.append(X.op_transfer(frm, to, amt))
            elif k < 0.65:
                ops.append(X.op_store_set(ids, frm, "k%d" % r.randrange(5), r.randrange(100)))
            elif k < 0.78:
                ops.append(r.choice([X.op_store_get_missing(frm, "k9%d" % r.randrange(10, 99)), X.op_no_method(frm), X.op_wrong_arity(frm)]))
            elif k < 0.9 or grant_state is None:
                ops.append(X.op_bad(frm, r.randrange(3)))
            else:
                g = grant_state
                if g["stage"] == 0:
                    ops.append(dict(tx={"t": "bvm", "from": "a:0", "to": "c:role", "m": "RegisterRole",
                                        "args": [["sa", "u:9"], ["s", "governanceAdmin"], ["s", ""], ["s", "reason"]]},
                                    frm="a:0", body=("bvm", ("done",)), invalid=False, tag="register_role", opaque=True))
                    g["stage"] = 1
                elif g["stage"] <= 4:
                    voter = "a:%d" % (g["stage"] - 1)
                    g["approves"] += 1
                    tx = {"t": "bvm", "from": voter, "to": "c:governance", "m": "Vote", "args": [["pid", "a:0", 0], ["s", "approve"], ["s", "r"]]}
                    if g["approves"] == 3:
                        ops.append(dict(tx=tx, frm=voter, body=("grant", X.acct_id("u:9"), True), invalid=False, tag="grant", opaque=True, accts=["u:9"]))
                    else:
                        ops.append(dict(tx=tx, frm=voter, body=("bvm", ("done",) if g["approves"] < 3 else ("fail", False)), invalid=False, tag="vote", opaque=True))
                    g["stage"] += 1
                else:
                    ops.append(X.op_store_set(ids, frm, "k1", 1))
        blocks.append(ops)
        if r.random() < 0.2:
            blocks.append(RESTART)      # the next block finds every account on disk only
    return dict(cfg=dict(admins=admins, gas=price, audit=False, bal=str(genesis)), pre=pre, blocks=blocks)


RESTART = "RESTART"


def to_history(g):
    """a block entry "RESTART" restarts the node (ledger and executor reopened from disk: empty account cache)"""
    return {"cfg": g["cfg"], "steps": g["pre"] + [X.blk([])] + [({"op": "restart"} if ops == RESTART else X.blk([o["tx"] for o in ops])) for ops in g["blocks"]],
            "timeout_ms": 60000}


def corpus_histories(ids):
    """witnesses of the two transfer defects, fee rounding + fallback, and the fee-after-revert credit"""
    def mk(admins, gas, pre, blocks):
        return dict(cfg=dict(admins=admins, gas=gas, audit=False, bal="1000000000"), pre=pre, blocks=blocks)
    f = lambda a, v: {"op": "fund", "acct": a, "amt": str(v)}
    return [
        mk(3, 0, [f("u:1", 1000)], [[X.op_transfer("u:1", "u:1", "400")]]),
        mk(3, 0, [f("u:1", 1000), f("u:2", 5)], [[X.op_transfer("u:1", "u:2", "-30")]]),
        mk(9, 1, [f("u:1", 100003), f("u:2", 1)], [[X.op_transfer("u:1", "u:2", "50000"), X.op_transfer("u:1", "u:2", "50000"), X.op_transfer("u:1", "u:2", "1")]]),
        # credit to an account object loaded earlier in the block survives the revert of an unaffordable fee
        mk(3, 7, [f("u:0", 150000), f("u:1", 300000)], [[X.op_transfer("u:1", "u:0", "1"), X.op_transfer("u:0", "a:2", "73499")]]),
        # whole-balance fallback of a sender that is itself a fee-receiving admin holding less than one fee: its own
        # share is credited after its account was emptied; the loss is the rounding loss only (one tx per block)
        mk(4, 50000, [f("a:1", 788500003)], [[X.op_transfer("a:1", "u:1", "5")], [X.op_transfer("a:1", "u:1", "1")], [X.op_store_set(ids, "a:1", "k1", 1)]]),
        mk(3, 50000, [], [[X.op_transfer("a:2", "u:1", "5")], [X.op_transfer("a:2", "a:0", "1")], [X.op_bad("a:2", 0)]]),
        # RESTART: the accounts of the next block are on disk only (empty account cache); transfers from old accounts to
        # old, cached and never-seen ones, fees to the admins - the books are compared with the COMMITTED balances
        mk(4, 1, [f("u:1", 10**9), f("u:2", 5 * 10**5)],
           [[X.op_transfer("u:1", "u:2", "1000")], RESTART, [X.op_transfer("u:1", "u:50", "7000")], [X.op_transfer("u:2", "u:1", "3")], RESTART,
            [X.op_transfer("u:1", "u:2", "5"), X.op_transfer("u:2", "u:51", "1"), X.op_transfer("a:1", "u:1", "9")], RESTART, [X.op_store_set(ids, "u:2", "k1", 1)]]),
        mk(3, 0, [f("u:1", 1000)], [[X.op_transfer("u:1", "u:2", "10")], RESTART, [X.op_transfer("u:1", "u:2", "10"), X.op_transfer("u:2", "u:1", "15")]]),
        # "young" accounts: created by an earlier transaction of the SAME block, then on either side of a transfer that is
        # undone (the sender covers the amount but not the fee afterwards): receiver keeps nothing of the undone credit,
        # a young sender gets its debit back
        mk(4, 1, [f("u:1", 10**9), f("u:2", 50100)], [[X.op_transfer("u:1", "u:50", "100000"), X.op_transfer("u:2", "u:50", "50000"), X.op_transfer("u:1", "u:50", "7")]]),
        mk(4, 1, [f("u:1", 10**9)], [[X.op_transfer("u:1", "u:51", "30000"), X.op_transfer("u:51", "u:1", "25000"), X.op_transfer("u:51", "u:52", "9000")]]),
        mk(3, 7, [f("u:1", 10**9), f("u:2", 160000)], [[X.op_transfer("u:1", "u:53", "1"), X.op_transfer("u:2", "u:53", "100000"), X.op_transfer("u:1", "u:54", "200000"),
                                                     X.op_transfer("u:54", "u:53", "150000"), X.op_transfer("u:53", "u:54", "1")]]),
        mk(7, 1000003, [f("a:0", 20999999999), f("a:6", 13)], [[X.op_transfer("a:0", "a:6", "7")], [X.op_transfer("a:6", "u:1", "0"), X.op_transfer("a:0", "u:1", "0")]]),
    ]


BNS_DURATIONS = [0, 1, 100, 2**31, 18446744073, 18446744074, 18500000000, 20000000000, 36893488147, 36893488148, 2**40, 2**62, 2**63, 2**63 + 5,
                 2**64 - 1700000000 - 90 * 86400 - 1, 2**64 - 1700000000 - 90 * 86400, 2**64 - 1]


def bns_histories(r, quick):
    """name registrations / renewals with ordinary and extreme durations (price below, at and above 2^63 and 2^64), by
    callers holding little, a lot, and more than 2^64; one call per block and caller (the balance at the start of the
    call is then the funded balance), gas price 1.  What a successful call takes from the caller is credited to nobody:
    the books of the block shrink by exactly the price (grants = -price), never grow."""
    out = []
    durs = BNS_DURATIONS if not quick else BNS_DURATIONS
    f = lambda a, v: {"op": "fund", "acct": a, "amt": str(v)}
    for bi, bal in enumerate([10**13, 2**64 + 10**12, 3 * 10**5, 10**19]):
        pre, blocks = [], []
        for di, d in enumerate(durs):
            caller = "u:%d" % (10 + di)
            pre.append(f(caller, bal))
            name = "nm%c%c%s" % (97 + bi, 97 + di, "x" * r.choice([0, 0, 1]))[: r.choice([3, 4, 5, 6])] if r.random() < 0.3 else "name%c%c" % (97 + bi, 97 + di)
            blocks.append([X.op_bns(caller, "Register", name, d, bal)])
        # renewals of a name registered for 100 s, by a third party
        pre += [f("u:40", 10**13), f("u:41", bal), f("u:42", bal)]
        blocks.append([X.op_bns("u:40", "Register", "renewme", 100, 10**13)])
        for di, d in enumerate(r.sample(durs, 2) + [20000000000]):
            caller = "u:%d" % (41 + di)
            if di < 2:
                blocks.append([X.op_bns(caller, "Renew", None, d, bal, registered_until=X.BNS_NOW + 100, full="renewme.hub")])
        out.append(dict(cfg=dict(admins=4, gas=1, audit=False, bal="1000000000"), pre=pre, blocks=blocks))
    return out


def gov_call(frm, contract, method, args, tag, ok=True, accts=()):
    return dict(tx={"t": "bvm", "from": frm, "to": "c:" + contract, "m": method, "args": args}, frm=frm,
                body=("bvm", ("done",) if ok else ("fail", False)), invalid=False, tag=tag, opaque=True, accts=list(accts))


def audit_admin_history(r, decision_bind="approve", gas=0, extra_transfers=False, poor_decider=False):
    """GOVERNED history through the real NodeManager / RoleManager / Governance contracts (4 admins, 3 approvals or
    2 rejections conclude a proposal): two audit nodes registered, an audit admin registered and approved (the ONE
    legitimate grant), its node logged out (admin paused), the admin bound to the other node (approved or rejected).
    Grants are counted for approved REGISTRATIONS only - and only when the transaction whose vote concluded the
    registration SUCCEEDED.  poor_decider (gas price > 0): the admin casting the third approval has given its money
    away and cannot pay the fee of that vote: the body runs (proposal approved, grant paid to the pre-funded, already
    existing candidate account), the executor undoes it and marks the receipt FAILED; the fourth admin then really
    approves.  Exactly one grant may remain."""
    admin, n1, n2 = "u:22", "u:20", "u:21"
    pre = list(X.SEED2) + [{"op": "fund", "acct": a, "amt": "7"} for a in (admin, n1, n2, "u:1", "u:2")]
    blocks = []
    pid = [0]
    cfg_bal = "1000000000"

    def proposal(op, concl_tag="vote", grant=None, decision="approve", poor=None):
        blocks.append([op])
        voters = ["a:0", "a:1", "a:2"] if decision == "approve" else ["a:1", "a:3"]
        if poor_decider and decision == "approve":
            voters = ["a:0", "a:1", "a:2", "a:3"] if poor else ["a:0", "a:1", "a:3"]
        for i, v in enumerate(voters):
            tx = {"t": "bvm", "from": v, "to": "c:governance", "m": "Vote", "args": [["pid", "a:0", pid[0]], ["s", decision], ["s", "r"]]}
            last = i == len(voters) - 1 or (poor and i == len(voters) - 2)       # the poor admin's vote WOULD conclude, too
            if last and grant is not None and decision == "approve":
                o = dict(tx=tx, frm=v, body=("grant", X.acct_id(grant), True), invalid=False, tag="grant_audit_admin", opaque=True, accts=[grant])
            else:
                o = dict(tx=tx, frm=v, body=("bvm", ("done",)), invalid=False, tag=concl_tag if last else "vote", opaque=True, accts=[admin])
            blk = [o]
            if extra_transfers and r.random() < 0.5:
                blk.append(X.op_transfer("u:1", "u:2", str(r.randrange(0, 3))))
            blocks.append(blk)
        pid[0] += 1
    node = lambda n, name: gov_call("a:0", "node", "RegisterNode", [["sa", n], ["s", "nvpNode"], ["s", ""], ["u64", "0"], ["s", name], ["s", "chainA"], ["s", "r"]], "register_node")
    proposal(node(n1, "nvp1"))
    proposal(node(n2, "nvp2"))
    if poor_decider:
        # a:2 did not vote so far and received a quarter of eight fees; it keeps nothing but its share of this
        # transfer's fee, and three more fee shares do not add up to the fee of one vote
        o = X.op_transfer("a:2", "u:1", str(int(cfg_bal) + 8 * 52500 * gas - 21000 * gas))
        o["tag"] = "admin_gives_all_away"
        blocks.append([o])
    proposal(gov_call("a:0", "role", "RegisterRole", [["sa", admin], ["s", "auditAdmin"], ["sa", n1], ["s", "r"]], "register_audit_admin"), grant=admin,
             poor=poor_decider)
    proposal(gov_call("a:0", "node", "LogoutNode", [["sa", n1], ["s", "r"]], "logout_node"), concl_tag="node_logged_out")
    proposal(gov_call("a:0", "role", "BindRole", [["sa", admin], ["sa", n2], ["s", "r"]], "bind_role"), concl_tag="bind_concluded", decision=decision_bind)
    return dict(cfg=dict(admins=4, gas=gas, audit=False, bal="1000000000"), pre=pre, blocks=blocks)


def build_rows(g, out, flagsets, ids):
    g = X.revive_ops(g)
    rows = []
    steps = out.get("steps") or []
    hist = to_history(g)
    run = X.Run(hist, out, ids)
    npre = len(g["pre"]) + 1
    genesis, price = int(g["cfg"]["bal"]), g["cfg"]["gas"]
    for si, st in enumerate(hist["steps"]):
        if si >= len(steps):
            rows.append((None, dict(block=si, problem="missing step (crash?)")))
            break
        ob = steps[si]
        if st["op"] != "block":
            run.sh.apply_pre(st)
            continue
        if si < npre:
            run.sh.apply_block(ob)
            continue
        ops = g["blocks"][si - npre]
        if ob.get("hang") or ob.get("receipts") is None:
            rows.append((None, dict(block=si, problem="hang")))
            break
        xrow, info = run.xcase(ob, ops, flagsets, genesis, price, opaque=True)
        grants = genesis * sum(1 for o, rc in zip(ops, ob["receipts"]) if o["body"][0] == "grant" and rc[0] == 0)
        # a name registration's price is taken from the caller and credited to nobody (SUCCESS receipts only)
        grants -= sum(o.get("burn", 0) for o, rc in zip(ops, ob["receipts"]) if rc[0] == 0)
        run.sh.apply_block(ob)
        info.update(block=si, tags=[o["tag"] for o in ops], sum=ob.get("sum"))
        rows.append(("(%s, %s)" % (X.gZ(grants), xrow), info))
    return hist, rows


PRE = X.XPRE + "Definition jn (p : Z * xcase) := judge_native (fst p) (snd p).\n"


def judge(ctx, items, flagsets, ids):
    flat = []
    for g, out in items:
        hist, rows = build_rows(g, out, flagsets, ids)
        for row, info in rows:
            info["g"] = g
            flat.append((hist, out, row, info))
    rows = [f[2] for f in flat if f[2] is not None]
    vs, msg = vlib.coq_judge_sharded("C14_native", PRE, "Z * xcase", "jn", rows, shard=60)
    if vs is None:
        ctx.broken("correspondence:judge_native", msg)
        return None
    it = iter(vs)
    return [(h, o, info, (next(it) if row is not None else (2, 900))) for h, o, row, info in flat]


def evaluate(ctx, items, flagsets, open_map, ids, exe=None):
    res = judge(ctx, items, flagsets, ids)
    if res is None:
        return
    for hist, out, info, v in res:
        blk = hist["steps"][info["block"]] if info["block"] < len(hist["steps"]) else None
        ctx.count(case_key=json.dumps([hist["cfg"], blk], sort_keys=True), nontrivial=info.get("nontrivial", False),
                  sample=dict(driver="execframe", cfg=hist["cfg"], block=blk, tags=info.get("tags"), verdict=v))
        ctx.traces_validated += 1
        rep = dict(property=PID, kind="fees", history=hist, g=info.pop("g", None), block=info.get("block"), verdict=v, info=info)
        if out.get("crash") or out.get("killed") or info.get("problem"):
            ctx.violation("node crashed / hung while executing a native block: %s" % (out.get("panic") or info.get("problem")), rep)
            continue
        rep = maybe_shrink(ctx, rep, v, flagsets, open_map, ids, exe)
        kind = X.handle_verdict(ctx, PID, v, flagsets, open_map, "value created, negative balance, or more value lost than the rounding loss of the fees (predicate 1 / 2 / 3)", rep,
                                relevant={"self_transfer", "neg_amount", "stale_changer"})
        if kind == "mismatch":
            ctx.broken("correspondence:judge_native", "first differing block: replay=%s %s" % (X.save_mismatch(ctx, rep), json.dumps(rep)[:600]))
        elif kind == "domain":
            ctx.broken("correspondence:judge_native(domain)", json.dumps(rep)[:800])



SHRUNK = [0]


def maybe_shrink(ctx, rep, v, flagsets, open_map, ids, exe):
    """minimise the history of an unexplained property violation (at most three per run)"""
    if exe is None or v[0] != 2 or rep.get("g") is None or SHRUNK[0] >= 3:
        return rep
    idx = v[1] % 100
    if 1 <= idx <= len(flagsets) and flagsets[idx - 1] and all(f in open_map for f in flagsets[idx - 1]):
        return rep          # explained by listed findings: nothing to minimise
    SHRUNK[0] += 1
    g0 = rep["g"]
    npre = len(g0["pre"]) + 1
    pred = v[1] // 100

    def still_bad(g2):
        outs, _ = X.run_histories(exe, [to_history(g2)])
        if outs is None:
            return None
        res = judge(ctx, [(g2, outs[0])], flagsets, ids)
        res = res[0] if isinstance(res, tuple) else res
        for _, _, info, vv in (res or []):
            if vv[0] == 2 and vv[1] // 100 == pred and "block" in info:
                return info["block"] - npre
        return None
    g1, bi = X.shrink_blocks(g0, rep["block"] - npre, still_bad)
    if g1 is not g0:
        rep = dict(rep, g=g1, history=to_history(g1), block=bi + npre, shrunk_from=dict(blocks=len(g0["blocks"]), txs=sum(len(b) for b in g0["blocks"] if b != RESTART)))
    return rep


def flag_setup():
    open_map = X.open_flags(["C14", "C07"])
    flagsets = X.subsets([f for f in X.FFLAGS + ["stale_changer"] if f in open_map])
    return open_map, flagsets


def run(ctx):
    ctx.proofs(["Proofs/FeesProofs", "Proofs/ExecFrameProofs", "Proofs/NativeRefineProofs"], model_targets=["Fees", "ExecFrame"])
    exe, err = vlib.build_harness("execframe")
    if exe is None:
        ctx.broken("harness-build", err)
        return ctx.finish(rule="-")
    open_map, flagsets = flag_setup()
    ids = X.Ids()
    if ctx.model_ok:
        items = corpus_histories(ids) + [audit_admin_history(ctx.rng, "approve"), audit_admin_history(ctx.rng, "reject"),
                                         audit_admin_history(ctx.rng, "approve", gas=1, extra_transfers=True),
                                         audit_admin_history(ctx.rng, "approve", gas=1, poor_decider=True),
                                         audit_admin_history(ctx.rng, "reject", gas=7, poor_decider=True)]
        if not ctx.quick:
            items += [audit_admin_history(ctx.rng, ctx.rng.choice(["approve", "reject"]), gas=ctx.rng.choice([0, 1, 7]), extra_transfers=True) for _ in range(12)]
            items += [audit_admin_history(ctx.rng, ctx.rng.choice(["approve", "reject"]), gas=ctx.rng.choice([1, 3, 7]), extra_transfers=ctx.rng.random() < 0.5,
                                          poor_decider=True) for _ in range(8)]
        items += bns_histories(ctx.rng, ctx.quick)
        n = 150 if ctx.quick else 2000
        items += [gen_history(ctx.rng, ctx.quick, ids) for _ in range(n)]
        outs, e = X.run_histories(exe, [to_history(g) for g in items])
        if outs is None:
            ctx.broken("driver:execframe", e)
        else:
            evaluate(ctx, list(zip(items, outs)), flagsets, open_map, ids, exe)
            ctx.extra["fees_distribution"] = dict(histories=len(items), admins=sorted(set(g["cfg"]["admins"] for g in items)),
                                                  prices=sorted(set(g["cfg"]["gas"] for g in items)),
                                                  tags=sorted(set(o["tag"] for g in items for b in g["blocks"] if b != RESTART for o in b)),
                                                  restarts=sum(1 for g in items for b in g["blocks"] if b == RESTART))
    return ctx.finish(rule="blocks of native transactions (transfers with amounts from {0,1,balance,balance+1,balance-fee,2^256,negative,non-numeric,empty,"
                           "signed,padded}, to other/self/contract/admin; succeeding and failing contract calls; undecodable payloads; the admin-registration "
                           "vote sequence) over |admins| in {1,2,3,4,7,9} x gas price in {0,1,3,7,1000003} x balances at every fee threshold; "
                           "admin senders on the whole-balance fallback path (drained admins, governed flow with a deciding voter who cannot pay); "
                           "non-trivial = a block with at least one SUCCESS and one FAILED receipt, distinct by (config, block)")


def replay(ctx, path):
    obj = json.load(open(path))
    exe, err = vlib.build_harness("execframe")
    open_map, flagsets = flag_setup()
    ids = X.Ids()
    g = X.revive_ops(obj["g"])
    outs, e = X.run_histories(exe, [to_history(g)])
    if outs is None:
        print(e)
        return 1
    res = judge(ctx, [(g, outs[0])], flagsets, ids)
    vs = [(i.get("block"), v) for _, _, i, v in (res or [])]
    print(json.dumps(dict(impl=outs[0], verdicts=vs, flagsets=[sorted(f) for f in flagsets])))
    return 1 if res is None or any(v[0] != 0 for _, v in vs) else 0
