"""C07: a failed transaction leaves nothing but nonce and fee; FAILED is never announced; views are pure
(Model/ExecFrame.v, judge_frame)."""
import json

import vlib
from vlib import glist
from checks import execframe_common as X

PID = "C07"
SCRATCH = ["store", "svcresolver", "dapp"]       # contracts whose state is written only by the exact operations below
RELEVANT = {"raw_add", "stub_promoted", "ibtp_no_revert", "failed_events", "stale_changer", "fee_after_body"}


def gen_history(r, quick, ids):
    admins = r.choice([2, 4])
    price = r.choice([0, 0, 1])
    users = 6
    fb, fn = X.GAS_BVM * price, X.GAS_NORMAL * price
    pre = list(X.SEED2)
    level = {}
    for u in range(users):
        lv = r.choice([10**13, 10**13, fb + 5, fb, max(fb - 1, 0), fn, 1, 0])
        level["u:%d" % u] = lv
        pre.append({"op": "fund", "acct": "u:%d" % u, "amt": str(lv)})
    rich = [u for u, lv in level.items() if lv >= 10**13] or ["a:0"]
    next_index = 1
    blocks = []
    for _ in range(r.randrange(2, 5 if quick else 8)):
        ops = []
        for _ in range(r.randrange(1, 6)):
            frm = r.choice(list(level.keys()) + ["a:%d" % r.randrange(admins)])
            c = r.choice(SCRATCH)
            key = "k%d" % r.randrange(6)
            k = r.random()
            if k < 0.12:
                ops.append(X.op_store_set(ids, frm, key, r.randrange(1, 100)))
            elif k < 0.20:
                ops.append(r.choice([X.op_store_get(ids, frm, key), X.op_get_interchain(ids, frm, "chainZ:svcQ"),
                                     X.op_register_interchain(ids, frm, "chainZ:svcQ"), X.op_delete_interchain(ids, frm, "chainZ:svcQ")]))
            elif k < 0.30:
                # interchain events posted by the called contract itself or by a CROSS-INVOKED one (plugin contracts
                # relay -> emitter): the sender's nonce is unrelated to the position in the block
                ops.append(X.op_plugin(ids, r.choice(rich + [frm]), r.choice(["Emit", "EmitFail", "Relay", "Relay", "RelayDeep", "RelayIgnore", "RelayThenFail", "RelaySet"]),
                                       r.choice(["chainA", "chainB", "chainC"]), key, r.randrange(200, 300)))
            elif k < 0.46:
                ops.append(X.op_stub(ids, frm, c, r.choice(["set", "setobj", "del", "add", "addobj"]), key, r.randrange(100, 200)))
            elif k < 0.54:
                ops.append(r.choice([X.op_store_get_missing(frm, "k9%d" % r.randrange(10, 99)), X.op_no_method(frm, c), X.op_wrong_arity(frm)]))
            elif k < 0.62:
                ops.append(r.choice([X.op_emit_bad_funcs(ids, frm), X.op_invoke_receipt_missing(ids, frm)]))
            elif k < 0.70:
                to = r.choice(list(level.keys()) + ["c:store", frm, "u:%d" % r.randrange(40, 60)])
                ops.append(X.op_transfer(frm, to, r.choice(["0", "1", str(level.get(frm, 10**6)), str(level.get(frm, 10**6) + 1), "abc", "5"])))
            elif k < 0.76:
                ops.append(X.op_bad(frm, r.randrange(3)))
            elif k < 0.82:
                ops.append(X.op_ibtp_defect(frm, next_index, r.choice(X.PROOF_DEFECTS)))
            elif k < 0.86:
                ops.append(X.op_ibtp_receipt_defect(frm, max(next_index - 1, 1), r.choice(X.PROOF_DEFECTS)))
            elif k < 0.92:
                ops.append(X.op_ibtp_wrong_index(frm, next_index + 1 + r.randrange(3)))
            else:
                ops.append(X.op_ibtp_ok(ids, r.choice(rich), next_index))
                next_index += 1
        blocks.append(ops)
        if r.random() < 0.2:
            blocks.append(RESTART)
    views = []
    if r.random() < 0.5:
        frm = r.choice(list(level.keys()))
        views = [r.choice([X.op_store_set(ids, frm, "k1", 7), X.op_stub(ids, frm, "store", "add", "k2", 8),
                           X.op_transfer(frm, "u:0", "1"), X.op_ibtp_defect(frm, 1, "absent")])]
    return dict(cfg=dict(admins=admins, gas=price, audit=False, bal="1000000000000000", plugins=True), pre=pre, blocks=blocks, views=views)


RESTART = "RESTART"


def to_history(g):
    steps = g["pre"] + [X.blk([])]
    for ops in g["blocks"]:
        if ops == RESTART:
            steps.append({"op": "restart"})
        else:
            steps.append(X.blk([o["tx"] for o in ops], **g.get("blk_kw", {})))
    steps += [{"op": "view", "tx": o["tx"]} for o in g.get("views", [])]
    return {"cfg": g["cfg"], "steps": steps, "timeout_ms": 60000}


def without_failed(g, out):
    """the same history without the transactions whose receipt is FAILED (metamorphic reference); returns
    (g_ref, per block: list of original indices kept) or None when the run is incomplete"""
    steps = out.get("steps") or []
    npre = len(g["pre"]) + 1
    blocks, keep = [], []
    for bi, ops in enumerate(g["blocks"]):
        si = npre + bi
        if ops == RESTART:
            blocks.append(RESTART)
            keep.append([])
            continue
        if si >= len(steps) or steps[si].get("receipts") is None and ops:
            return None
        recs = steps[si].get("receipts") or []
        # reads have no effect of their own: they stay, so that their answers can be compared
        idx = [i for i, rc in enumerate(recs) if rc[0] == 0 or X.body_reads(ops[i]["body"])]
        blocks.append([ops[i] for i in idx])
        keep.append(idx)
    return dict(cfg=g["cfg"], pre=g["pre"], blocks=blocks, views=[], blk_kw=g.get("blk_kw", {})), keep


def block_traces(g, out, ids):
    """per block of g: (store shadow after the block, {tx index: value returned}) - for the metamorphic comparison"""
    steps = out.get("steps") or []
    hist = to_history(g)
    sh = X.Shadow(hist["cfg"]["admins"], hist["cfg"]["bal"])
    npre = len(g["pre"]) + 1
    res = []
    for si, st in enumerate(hist["steps"]):
        if si >= len(steps):
            break
        ob = steps[si]
        if st["op"] == "block":
            if ob.get("receipts") is None and st["txs"]:
                break
            sh.apply_block(ob)
            if si >= npre:
                res.append((dict(sh.store), {i: ("FEE" if rc[1] == "fee_insufficient" else
                                              # a read that SUCCEEDED says "present" even when the value it returned is empty; a FAILED one None
                                              ((rc[5] if (len(rc) > 5 and rc[5] is not None) else "present") if rc[0] == 0 else None))
                                          for i, rc in enumerate(ob.get("receipts") or [])},
                            [rc[0] == 0 for rc in (ob.get("receipts") or [])]))
        elif st["op"] == "restart":
            res.append((dict(sh.store), {}, []))
    return res


def corpus_histories(ids):
    """one witness per defect flag (each reproduces a C07_<flag>_refuted theorem on the real code)"""
    f = lambda a, v: {"op": "fund", "acct": a, "amt": str(v)}

    def mk(pre, blocks, admins=4, gas=0, audit=False, **kw):
        return dict(cfg=dict(admins=admins, gas=gas, audit=audit, bal="1000000000000000", plugins=True), pre=pre, blocks=blocks, views=[], **kw)
    P = lambda frm, m, ch, *a: X.op_plugin(ids, frm, m, ch, *a)
    tob = "1356:1356:0x00000000000000000000000000000000000000ff"
    tid = "1356:chainA:svc1-%s-1" % tob
    # IBTP to a service of the relay chain itself with audit on: fails after all writes, no revert
    noreb = ("touch", X.CID["interchain"], ("cross", X.CID["txmgr"], ("raw", ids.key("c:txmgr", "tx-" + tid), "OBS", ("done",)),
             ("ev", [(X.chain_id("1356"), False)],
              ("jw", ids.key("c:interchain", "service-1356:chainA:svc1"), "OBS",
               ("raw", ids.key("c:interchain", "index-tx-" + tid), "OBS",
                ("cross", X.CID["interbroker"], ("jw", ids.key("c:interbroker", "InCounter"), "OBS", ("panic",)),
                 ("done",), ("evother", ("fail", False)))))), ("done",)))
    return [
        # promoted Stub.Add by an outsider on the interchain contract: FAILED, yet bitxhub-id is overwritten
        mk([f("u:1", 1)], [[X.op_stub(ids, "u:1", "interchain", "add", "bitxhub-id", 666)]]),
        # promoted journaled writes are reverted
        mk([f("u:1", 1)], [[X.op_store_set(ids, "u:1", "k1", 1)], [X.op_stub(ids, "u:2", "store", "set", "k1", 2), X.op_stub(ids, "u:2", "store", "del", "k1", 0)]]),
        # second transaction of a block writes to an account object loaded by the first one
        mk([f("u:1", 1), f("u:2", 1)], [[X.op_store_set(ids, "u:1", "k3", 4), X.op_stub(ids, "u:2", "store", "setobj", "k4", 5)]]),
        # accepted IBTP whose sender cannot pay the fee: journaled writes reverted, Add writes stay, event harvested
        mk(list(X.SEED2) + [f("u:1", 1)], [[X.op_ibtp_ok(ids, "u:1", 1)]], gas=1),
        # IBTP path does not revert (audit on)
        mk(list(X.SEED2) + [f("u:1", 1)], [[dict(tx={"t": "ibtp", "from": "u:1", "ibtp": X.ibtp(1, to=tob, payload="content:foo")}, frm="u:1",
                                                body=("ibtp", noreb), invalid=False, tag="ibtp_fails_after_writes")]], audit=True),
        # fee checked after the body
        mk([f("u:1", 100000), f("u:2", 1)], [[X.op_transfer("u:1", "u:2", "90000")]], gas=1),
        # bad signature in a non-local block
        mk([f("u:1", 1)], [[X.op_bad_signature(ids, "u:1", "k1", 3), X.op_store_set(ids, "u:2", "k2", 4)]], blk_kw={"local": False}),
        # a FAILED transfer (amount affordable, fee not) to an account the ledger has never seen must not leave an account record
        mk([f("u:1", 100)], [[X.op_transfer("u:1", "u:50", "50")], [X.op_transfer("u:1", "u:51", "100"), X.op_transfer("u:1", "u:52", "0")]], gas=1),
        # a FAILED receipt (rejected proof) must not take the answered request off the timeout list
        mk(list(X.SEED2) + [f("u:0", 10**12)],
           [[X.op_ibtp_ok(ids, "u:0", 1)], [X.op_ibtp_receipt_defect("u:0", 1, "mismatch")], [X.op_ibtp_receipt_defect("u:0", 1, "absent")]]),
        # cold cache: key committed, node restarted, FAILED blind overwrite (fee) after another tx loaded the contract, reads
        mk([f("u:0", 10**12), f("u:1", 1)],
           [[X.op_store_set(ids, "u:0", "k1", 70)], RESTART,
            [X.op_store_set(ids, "u:0", "k2", 71), X.op_store_set(ids, "u:1", "k1", 79), X.op_store_get(ids, "u:0", "k1")],
            [X.op_store_get(ids, "u:0", "k1")], RESTART, [X.op_store_get(ids, "u:0", "k1")]], gas=1),
        # the same with a contract error instead of the fee: InterBroker counter written before the restart
        mk([f("u:0", 10**12)],
           [[X.op_emit_bad_funcs(ids, "u:0")], [X.op_register_interchain(ids, "u:0", "chainZ:svcQ")], RESTART,
            [X.op_get_interchain(ids, "u:0", "chainA:nosuch"), X.op_register_interchain(ids, "u:0", "chainZ:svcQ"), X.op_get_interchain(ids, "u:0", "chainZ:svcQ")]]),
        # an interchain event posted by a CROSS-INVOKED contract: the sender's nonce differs from the position of its
        # transaction and a FAILED transaction sits at the position that equals the nonce (contract error / fee);
        # depth 2, an inner frame that fails, an outer frame that fails after the callee posted
        mk([f("u:0", 10**12), f("u:2", 10**12), f("u:1", 1)],
           [[X.op_store_set(ids, "u:2", "k1", 1), X.op_store_set(ids, "u:2", "k2", 2)],
            [P("u:2", "Relay", "chainB"), P("u:0", "Emit", "chainA"), X.op_store_get_missing("u:0", "k77"), P("u:0", "Relay", "chainA"),
             P("u:1", "Relay", "chainC"), X.op_store_set(ids, "u:2", "k3", 3)],
            [X.op_store_get_missing("u:0", "k78"), P("u:1", "RelayDeep", "chainA"), P("u:2", "RelayDeep", "chainA"), P("u:0", "RelayIgnore", "chainB"),
             P("u:2", "RelayThenFail", "chainC"), X.op_store_get_missing("u:2", "k79"), P("u:0", "RelaySet", "chainC", "k5", 9)]], gas=1),
        mk([f("u:0", 10**12), f("u:1", 1)], [[X.op_store_set(ids, "u:1", "k1", 1), P("u:0", "Relay", "chainA")]], gas=1),
        # a key committed with a ZERO-LENGTH value (as the executor leaves an emptied timeout list): the contract account is
        # loaded by a read, a FAILED transaction (contract error / unaffordable fee) overwrites the key; the key must still
        # be PRESENT for the reads of the same block, of the next block and after a restart
        mk([f("u:0", 10**12), f("u:1", 5)],
           [[X.op_kv(ids, "u:0", "Overwrite", "e1", 1)], [X.op_kv(ids, "u:0", "PutEmpty", "e1")],
            [X.op_kv(ids, "u:0", "Has", "e1"), X.op_kv(ids, "u:0", "SetFail", "e1", 9), X.op_kv(ids, "u:0", "Has", "e1")],
            [X.op_kv(ids, "u:0", "Has", "e1")], RESTART, [X.op_kv(ids, "u:0", "Has", "e1")]], gas=1),
        mk([f("u:0", 10**12), f("u:1", 5)],
           [[X.op_kv(ids, "u:0", "Overwrite", "e2", 1)], [X.op_kv(ids, "u:0", "PutEmpty", "e2")],
            [X.op_kv(ids, "u:0", "Has", "e2"), X.op_kv(ids, "u:1", "Overwrite", "e2", 9), X.op_kv(ids, "u:0", "Has", "e2")],
            [X.op_kv(ids, "u:0", "Has", "e2"), X.op_kv(ids, "u:0", "Overwrite", "e2", 4), X.op_kv(ids, "u:0", "Has", "e2")]], gas=1),
        # deletion marker: a SUCCESSFUL delete of a committed key, then a FAILED write of the same key in the same block, reads
        mk([f("u:0", 10**12), f("u:1", 1)],
           [[X.op_register_interchain(ids, "u:0", "chainZ:svcQ")],
            [X.op_delete_interchain(ids, "u:0", "chainZ:svcQ"), X.op_register_interchain(ids, "u:1", "chainZ:svcQ"), X.op_get_interchain(ids, "u:0", "chainZ:svcQ")],
            [X.op_get_interchain(ids, "u:0", "chainZ:svcQ")], RESTART, [X.op_get_interchain(ids, "u:0", "chainZ:svcQ")]], gas=1),
    ]


def build_rows(g, out, flagsets, ids, ref=None):
    """ref = (g_ref, keep, out_ref): the run of the same history without its FAILED transactions"""
    g = X.revive_ops(g)
    rows, views = [], []
    steps = out.get("steps") or []
    hist = to_history(g)
    run = X.Run(hist, out, ids)
    npre = len(g["pre"]) + 1
    genesis, price = int(g["cfg"]["bal"]), g["cfg"]["gas"]
    tr_o = block_traces(g, out, ids) if ref else None
    tr_r = block_traces(ref[0], ref[2], ids) if ref else None
    warm = None                      # None: no restart so far (every committed key may be cached)
    for si, st in enumerate(hist["steps"]):
        if si >= len(steps):
            rows.append((None, dict(block=si, problem="missing step (crash?)")))
            break
        ob = steps[si]
        if st["op"] == "view":
            views.append((si, ob))
            continue
        if st["op"] == "restart":
            warm = []
            continue
        if st["op"] != "block":
            run.sh.apply_pre(st)
            continue
        if si < npre:
            run.sh.apply_block(ob)
            continue
        bi = si - npre
        ops = g["blocks"][bi]
        if ob.get("hang") or ob.get("receipts") is None:
            rows.append((None, dict(block=si, problem="hang")))
            break
        meta = []
        if ref and bi < len(tr_o) and bi < len(tr_r):
            keep = ref[1][bi]
            so, ro, oko = tr_o[bi]
            sr, rr, okr = tr_r[bi]
            if all(ok or X.body_reads(ops[i]["body"]) for ok, i in zip(okr, keep)):    # comparable only if the kept writers still succeed
                keys = set()
                for o in ops:
                    keys.update(X.body_keys(X.resolve_obs_values(o["body"], ids, ob.get("state"))))
                rev = {ids.key(cs, ks): (cs, ks) for (cs, ks) in list(so.keys()) + list(sr.keys())}
                def mv(v):
                    # values the generator wrote are compared exactly; contract-made records (they may embed the
                    # transaction hash, which changes when other transactions are removed) by presence only
                    return v if (v is None or isinstance(v, int)) else 1
                for k in sorted(keys):
                    if k in rev:
                        meta.append((mv(so.get(rev[k])), mv(sr.get(rev[k]))))
                for j, i in enumerate(keep):
                    # a read that could not pay its fee says nothing about the state (removing FAILED transactions
                    # changes what their senders can afford)
                    if X.body_reads(ops[i]["body"]) and ro.get(i) != "FEE" and rr.get(j) != "FEE":
                        meta.append((mv(ro.get(i)), mv(rr.get(j))))
        xrow, info = run.xcase(ob, ops, flagsets, genesis, price, opaque=False, warm=warm, meta=meta)
        run.sh.apply_block(ob)
        if warm is not None:
            warm = list(dict.fromkeys(warm + info["keys"]))
        fails_after_write = any((not ok) and o["tag"] in ("write_then_fail", "ibtp_fails_after_writes", "ibtp_ok", "store_set", "register_interchain")
                                or ((not ok) and o["tag"].startswith("stub_")) for o, ok in zip(ops, info["recs"]))
        info.update(block=si, tags=[o["tag"] for o in ops], nontrivial=fails_after_write, meta=len(meta), cold=warm is not None)
        info.pop("keys", None)
        rows.append((xrow, info))
    return hist, rows, views


def judge(ctx, items, flagsets, ids, refs=None):
    """items: list of (g, out); refs: optional dict id(g) -> (g_ref, keep, out_ref)"""
    flat, allviews = [], []
    for g, out in items:
        hist, rows, views = build_rows(g, out, flagsets, ids, ref=(refs or {}).get(id(g)))
        for row, info in rows:
            info["g"] = g
            flat.append((hist, out, row, info))
        for si, ob in views:
            allviews.append((hist, g, si, ob))
    rows = [f[2] for f in flat if f[2] is not None]
    vs, msg = vlib.coq_judge_sharded("C07_frame", X.XPRE, "xcase", "judge_frame", rows, shard=60)
    if vs is None:
        ctx.broken("correspondence:judge_frame", msg)
        return None, allviews
    it = iter(vs)
    return [(h, o, info, (next(it) if row is not None else (2, 900))) for h, o, row, info in flat], allviews


def reference_runs(exe, items):
    """run every history again without its FAILED transactions"""
    gs, idx = [], []
    for g, out in items:
        r = without_failed(X.revive_ops(g), out)
        if r is not None:
            gs.append(r)
            idx.append(g)
    outs, _ = X.run_histories(exe, [to_history(gr) for gr, _ in gs]) if gs else ([], "")
    if outs is None:
        return {}
    return {id(g): (gr, keep, o) for g, (gr, keep), o in zip(idx, gs, outs)}


def evaluate(ctx, items, flagsets, open_map, ids, exe=None, refs=None):
    res, views = judge(ctx, items, flagsets, ids, refs)
    for hist, g, si, ob in views:
        ok = ob.get("meta_same") and ob.get("ndiff") == 0 and ob.get("view_ndiff", 0) == 0 and ob.get("nrec") == 1
        ctx.count(case_key=json.dumps(["view", hist["cfg"], hist["steps"][si]], sort_keys=True), nontrivial=True)
        ctx.traces_validated += 1
        if not ok:
            ctx.violation("read-only execution changed ledger state or chain meta",
                          dict(property=PID, kind="frame", history=hist, g=g, block=si, view=ob))
    if res is None:
        return
    for hist, out, info, v in res:
        blk = hist["steps"][info["block"]] if info["block"] < len(hist["steps"]) else None
        ctx.count(case_key=json.dumps([hist["cfg"], blk], sort_keys=True), nontrivial=info.get("nontrivial", False),
                  sample=dict(driver="execframe", cfg=hist["cfg"], block=blk, tags=info.get("tags"), verdict=v))
        ctx.traces_validated += 1
        rep = dict(property=PID, kind="frame", history=hist, g=info.pop("g", None), block=info.get("block"), verdict=v, info=info)
        if out.get("crash") or out.get("killed") or info.get("problem"):
            ctx.violation("node crashed / hung: %s" % (out.get("panic") or info.get("problem")), rep)
            continue
        rep = maybe_shrink(ctx, rep, v, flagsets, open_map, ids, exe)
        kind = X.handle_verdict(ctx, PID, v, flagsets, open_map, "a FAILED transaction left an effect beyond nonce and fee, or was announced", rep,
                                relevant=RELEVANT)
        if kind == "mismatch":
            ctx.broken("correspondence:judge_frame", "first differing block: replay=%s %s" % (X.save_mismatch(ctx, rep), json.dumps(rep)[:600]))
        elif kind == "domain":
            ctx.broken("correspondence:judge_frame(domain)", json.dumps(rep)[:800])



SHRUNK = [0]


def maybe_shrink(ctx, rep, v, flagsets, open_map, ids, exe):
    """minimise the history of an unexplained property violation (at most three per run)"""
    if exe is None or v[0] != 2 or rep.get("g") is None or SHRUNK[0] >= 3:
        return rep
    idx = v[1] % 100
    if 1 <= idx <= len(flagsets) and flagsets[idx - 1] and all(f in open_map for f in flagsets[idx - 1]):
        return rep          # explained by listed findings: nothing to minimise
    SHRUNK[0] += 1
    g0 = rep["g"]
    npre = len(g0["pre"]) + 1
    pred = v[1] // 100

    def still_bad(g2):
        outs, _ = X.run_histories(exe, [to_history(g2)])
        if outs is None:
            return None
        refs = reference_runs(exe, [(g2, outs[0])])
        res = judge(ctx, [(g2, outs[0])], flagsets, ids, refs)
        res = res[0] if isinstance(res, tuple) else res
        for _, _, info, vv in (res or []):
            if vv[0] == 2 and vv[1] // 100 == pred and "block" in info:
                return info["block"] - npre
        return None
    g1, bi = X.shrink_blocks(g0, rep["block"] - npre, still_bad)
    if g1 is not g0:
        rep = dict(rep, g=g1, history=to_history(g1), block=bi + npre, shrunk_from=dict(blocks=len(g0["blocks"]), txs=sum(len(b) for b in g0["blocks"])))
    return rep


def flag_setup():
    open_map = X.open_flags(["C07", "C14", "C08"])
    flagsets = X.subsets([f for f in X.XFLAGS + X.FFLAGS if f in open_map])
    return open_map, flagsets


# ----------------------------------------------------------------------------- Ethereum transactions

def eth_op(frm, to, value, gas, price, data="", tag="eth"):
    return dict(tx={"t": "eth", "from": frm, "to": to or "", "amt": str(value), "gas": gas, "gasprice": str(price), "hex": data}, frm=frm, to=to,
                value=value, price=price, tag=tag)


def eth_histories(r, quick):
    """blocks of Ethereum transactions (alone and between bolt transactions' positions): plain transfers that succeed,
    and transactions the state transition rejects BEFORE the gas is bought (balance below gas*price + value) and AFTER
    it (gas limit below the intrinsic gas of a call / of a creation / of call data; value no longer affordable once the
    gas is bought), to existing and never-seen receivers, by a rich and a nearly empty sender, gas price 0 and > 0"""
    out = []
    f = lambda a, v: {"op": "fund", "acct": a, "amt": str(v)}
    for price in ([1000, 0] if quick else [1000, 0, 1, 7, 10**6]):
        rich, poor = 10**18, 21000 * price + 5
        pre = [f("u:0", rich), f("u:1", poor), f("u:2", 10**15)]

        def menu(frm, bal):
            to = r.choice(["u:2", "u:50", "u:51", "u:1"])
            return [eth_op(frm, to, r.randrange(0, 1000), 21000, price, tag="eth_transfer"),
                    eth_op(frm, to, 0, 20000, price, tag="eth_intrinsic_gas_call"),
                    eth_op(frm, to, 3, 20999, price, tag="eth_intrinsic_gas_call"),
                    eth_op(frm, "", 0, 50000, price, data="6000", tag="eth_intrinsic_gas_create"),
                    eth_op(frm, to, 0, 21010, price, data="ffee", tag="eth_intrinsic_gas_data"),
                    eth_op(frm, to, bal, 21000, price, tag="eth_value_after_gas"),
                    eth_op(frm, to, bal - 21000 * price + 1, 21000, price, tag="eth_value_after_gas"),
                    eth_op(frm, to, 2 * bal, 21000, price, tag="eth_funds_before_gas")]
        blocks = [[o] for o in menu("u:0", rich)] + [[o] for o in menu("u:1", poor)]
        for _ in range(2 if quick else 6):
            blocks.append(r.sample(menu("u:0", rich) + menu("u:2", 10**15), r.randrange(2, 5)))
        out.append(dict(cfg=dict(admins=4, gas=5, audit=False, bal="1000000000000000"), pre=pre, blocks=blocks, views=[]))
    return out


def eth_rows(g, out):
    """per block: the Gallina ethcase (receipt status and gas used are inputs of the model, balances / nonces / everything
    else are compared)"""
    rows = []
    steps = out.get("steps") or []
    npre = len(g["pre"]) + 1
    sh = X.Shadow(g["cfg"]["admins"], g["cfg"]["bal"])
    nonces = {}
    for si, st in enumerate(to_history(g)["steps"]):
        if si >= len(steps):
            rows.append((None, dict(block=si, problem="missing step (crash?)")))
            break
        ob = steps[si]
        if st["op"] != "block":
            sh.apply_pre(st)
            continue
        if si < npre:
            sh.apply_block(ob)
            continue
        ops = g["blocks"][si - npre]
        if ob.get("hang") or ob.get("receipts") is None:
            rows.append((None, dict(block=si, problem="hang")))
            break
        accts = list(dict.fromkeys(["a:0"] + [o["frm"] for o in ops] + [o["to"] for o in ops if o["to"]] + [a[0] for a in ob.get("accts") or []]))
        txs = []
        for o, rc in zip(ops, ob["receipts"]):
            n = nonces.get(o["frm"], 0)
            nonces[o["frm"]] = n + 1
            txs.append("{| eo_from := %s; eo_to := %s; eo_value := %s; eo_price := %s; eo_nonce := %s; eo_ok := %s; eo_gas_used := %s |}" % (
                X.gNn(X.acct_id(o["frm"])), "(Some %s)" % X.gNn(X.acct_id(o["to"])) if o["to"] else "None", X.gZ(o["value"]), X.gZ(o["price"]),
                X.gNn(n), vlib.gbool(rc[0] == 0), X.gZ(int(rc[7]) if len(rc) > 7 else 0)))
        after = sh.copy()
        after.apply_block(ob)
        other = (ob.get("other") or 0) + len(ob.get("state") or [])
        row = "{| ec_coinbase := %s; ec_txs := %s; ec_bals0 := %s; ec_nonces0 := %s; ec_obals := %s; ec_ononces := %s; ec_other := %s |}" % (
            X.gNn(X.acct_id("a:0")), vlib.glist(txs),
            vlib.glist(["(%s, %s)" % (X.gNn(X.acct_id(a)), X.gZ(sh.bal.get(a, 0))) for a in accts]),
            vlib.glist(["(%s, %s)" % (X.gNn(X.acct_id(a)), X.gNn(sh.nonce.get(a, 0))) for a in accts]),
            vlib.glist(["(%s, %s)" % (X.gNn(X.acct_id(a)), X.gZ(after.bal.get(a, 0))) for a in accts]),
            vlib.glist(["(%s, %s)" % (X.gNn(X.acct_id(a)), X.gNn(after.nonce.get(a, 0))) for a in accts]), X.gNn(other))
        sh.apply_block(ob)
        rows.append((row, dict(block=si, tags=[o["tag"] for o in ops], recs=[rc[0] == 0 for rc in ob["receipts"]], errs=[rc[2][:40] for rc in ob["receipts"]],
                               gas=[rc[7] if len(rc) > 7 else None for rc in ob["receipts"]])))
    return rows


def eth_leg(ctx, exe, items=None):
    items = items if items is not None else eth_histories(ctx.rng, ctx.quick)
    outs, e = X.run_histories(exe, [to_history(g) for g in items])
    if outs is None:
        ctx.broken("driver:execframe(eth)", e)
        return None
    flat = []
    for g, out in zip(items, outs):
        for row, info in eth_rows(g, out):
            flat.append((g, out, row, info))
    vs, msg = vlib.coq_judge_sharded("C07_eth", X.XPRE, "ethcase", "judge_eth", [f[2] for f in flat if f[2] is not None], shard=80)
    if vs is None:
        ctx.broken("correspondence:judge_eth", msg)
        return None
    it = iter(vs)
    res = []
    kinds = {}
    for g, out, row, info in flat:
        v = next(it) if row is not None else (2, 900)
        res.append((info.get("block"), v))
        for t, okk in zip(info.get("tags", []), info.get("recs", [])):
            kinds[t + ("/ok" if okk else "/failed")] = kinds.get(t + ("/ok" if okk else "/failed"), 0) + 1
        hist = to_history(g)
        blk = hist["steps"][info["block"]] if info["block"] < len(hist["steps"]) else None
        ctx.count(case_key=json.dumps(["eth", g["cfg"], blk], sort_keys=True), nontrivial=info.get("recs") is not None and not all(info.get("recs") or [True]),
                  sample=dict(driver="execframe", kind="eth", block=blk, tags=info.get("tags"), errs=info.get("errs"), gas=info.get("gas"), verdict=v))
        ctx.traces_validated += 1
        rep = dict(property=PID, kind="eth", g=g, block=info.get("block"), verdict=v, info=info, panic=out.get("panic"))
        if row is None or out.get("crash"):
            ctx.violation("node crashed / hung while executing an Ethereum transaction: %s" % (out.get("panic") or info.get("problem")), rep)
        elif v[0] == 2:
            ctx.violation("a FAILED Ethereum transaction left more than its nonce and the fee gasUsed*gasPrice (paid to the coinbase) behind", rep)
        elif v[0] != 0:
            ctx.broken("correspondence:judge_eth", "first differing block: replay=%s %s" % (X.save_mismatch(ctx, rep), json.dumps(rep)[:500]))
    ctx.extra["eth_distribution"] = kinds
    return res


def run(ctx):
    ctx.proofs(["Proofs/ExecFrameProofs"], model_targets=["Fees", "ExecFrame", "Sites"])
    exe, err = vlib.build_harness("execframe")
    if exe is None:
        ctx.broken("harness-build", err)
        return ctx.finish(rule="-")
    open_map, flagsets = flag_setup()
    ids = X.Ids()
    if ctx.model_ok:
        items = corpus_histories(ids)
        n = 160 if ctx.quick else 2500
        items += [gen_history(ctx.rng, ctx.quick, ids) for _ in range(n)]
        outs, e = X.run_histories(exe, [to_history(g) for g in items])
        if outs is None:
            ctx.broken("driver:execframe", e)
        else:
            pairs = list(zip(items, outs))
            nmeta = len(corpus_histories(X.Ids())) + (60 if ctx.quick else 600)
            refs = reference_runs(exe, pairs[:nmeta])
            ctx.extra["metamorphic_reference_runs"] = len(refs)
            evaluate(ctx, pairs, flagsets, open_map, ids, exe, refs)
            tags = {}
            for g in items:
                for b in g["blocks"]:
                    if b == RESTART:
                        tags["restart"] = tags.get("restart", 0) + 1
                        continue
                    for o in b:
                        tags[o["tag"]] = tags.get(o["tag"], 0) + 1
            ctx.extra["frame_distribution"] = dict(histories=len(items), op_kinds=tags)
        eth_leg(ctx, exe)
    return ctx.finish(rule="blocks of 1-5 transactions at every position: Store.Set, promoted Stub methods by name (Set/SetObject/Delete/Add/AddObject) on three "
                           "contracts, failing calls (missing key, unknown method, wrong arity), real methods that write then fail (InterBroker.EmitInterchain / "
                           "InvokeReceipt), transfers, undecodable payloads, IBTPs with absent / mismatching proof, wrong index, accepted IBTPs, senders at every fee "
                           "level (gas price 0/1), read-only execution of writing calls; full raw state diff (ledger hook) per block; Ethereum transactions (transfers that "
                           "succeed, rejections before and after the gas purchase: funds, intrinsic gas of calls / creations / data, value after gas) judged "
                           "against the fee-and-nonce accounting with the receipt's gas used; "
                           "non-trivial = a block in which a transaction FAILED after having written state, distinct by (config, block)")


def replay(ctx, path):
    obj = json.load(open(path))
    exe, err = vlib.build_harness("execframe")
    open_map, flagsets = flag_setup()
    ids = X.Ids()
    if obj.get("kind") == "eth":
        res = eth_leg(ctx, exe, [obj["g"]])
        print(json.dumps(dict(verdicts=res)))
        return 1 if res is None or any(v[0] != 0 for _, v in res) else 0
    g = X.revive_ops(obj["g"])
    outs, e = X.run_histories(exe, [to_history(g)])
    if outs is None:
        print(e)
        return 1
    refs = reference_runs(exe, [(g, outs[0])])
    res, views = judge(ctx, [(g, outs[0])], flagsets, ids, refs)
    vs = [(i.get("block"), v) for _, _, i, v in (res or [])]
    print(json.dumps(dict(impl=outs[0], verdicts=vs, flagsets=[sorted(f) for f in flagsets])))
    return 1 if res is None or any(v[0] != 0 for _, v in vs) else 0
