"""Common machinery for every ./check run.

One run =  (1) regenerate coq/gen/*.v from /repo's working tree (tools/extract)
           (2) build the Coq targets this property needs (full .vo, flock'ed, under timeout)
           (3) build the Go harness against /repo's working tree (-tags verif) and run a driver
           (4) write a cases file, evaluate the model's judge inside Coq (vm_compute)
           (5) decide: ok / KNOWN-FINDING / VIOLATION (+ replay file), write evidence/<id>.json
"""
import fcntl
import hashlib
import json
import os
import random
import re
import shutil
import subprocess
import sys
import time

VERIF = os.path.dirname(os.path.dirname(os.path.abspath(__file__)))
REPO = os.path.realpath(os.environ.get("VERIF_REPO", "/repo"))
ALT = REPO != "/repo"
# Running against a scratch worktree (VERIF_REPO=/tmp/wt ./check Cnn) must not disturb the
# shared build tree: everything generated goes under build/alt_<hash>/ and the Coq tree is
# mirrored there (with its .vo files, so only what the regenerated tables change is rebuilt).
ALT_TAG = hashlib.sha1(REPO.encode()).hexdigest()[:10] if ALT else ""
BUILD = os.path.join(VERIF, "build", "alt_" + ALT_TAG) if ALT else os.path.join(VERIF, "build")
COQ = os.path.join(BUILD, "coq") if ALT else os.path.join(VERIF, "coq")
COQ_SRC = os.path.join(VERIF, "coq")
CASES = os.path.join(BUILD, "cases")
EVID = os.path.join(BUILD, "evidence") if ALT else os.path.join(VERIF, "evidence")
CORPUS = os.path.join(VERIF, "corpus")
REPLAYS = os.path.join(BUILD, "replays") if ALT else os.path.join(VERIF, "replays")
HARNESS_SRC = os.path.join(VERIF, "harness")
EXTRACT_SRC = os.path.join(VERIF, "tools", "extract")


def mirror_coq():
    """ALT mode only: copy /verif/coq (sources and compiled files, timestamps kept) into the alt build dir"""
    if not ALT:
        return
    os.makedirs(COQ, exist_ok=True)
    with Lock("coqsrc"):
        subprocess.run(["rsync", "-a", "--exclude", "gen/", "--exclude", "Makefile.coq*", "--exclude", ".filelist",
                        "--exclude", ".Makefile.coq.d", COQ_SRC + "/", COQ + "/"], check=True)


GOENV = dict(os.environ, GOFLAGS="-mod=mod", GOPROXY="off", GOSUMDB="off", GOTOOLCHAIN="local",
             CGO_ENABLED=os.environ.get("CGO_ENABLED", "1"))

FORBIDDEN = re.compile(r"\b(Admitted|admit|Axiom|Axioms|Parameter|Parameters|Conjecture|Conjectures|"
                       r"Unset Guard Checking|Unset Positivity Checking|Unset Universe Checking|"
                       r"bypass_check|Admit Obligations|type-in-type|impredicative-set)\b")


def log(*a):
    print(*a, file=sys.stderr, flush=True)


class Lock:
    def __init__(self, name):
        os.makedirs(BUILD, exist_ok=True)
        base = os.path.join(VERIF, "build") if name in ("coqsrc", "gosum") else BUILD
        self.path = os.path.join(base, name + ".lock")

    def __enter__(self):
        self.f = open(self.path, "w")
        fcntl.flock(self.f, fcntl.LOCK_EX)
        return self

    def __exit__(self, *a):
        fcntl.flock(self.f, fcntl.LOCK_UN)
        self.f.close()


def sh(cmd, cwd=None, timeout=600, env=None, inp=None):
    """run; return (rc, stdout, stderr); rc=124 on timeout"""
    try:
        p = subprocess.run(cmd, cwd=cwd, env=env, input=inp, capture_output=True, text=True,
                           timeout=timeout, shell=isinstance(cmd, str))
        return p.returncode, p.stdout, p.stderr
    except subprocess.TimeoutExpired as e:
        out = e.stdout.decode() if isinstance(e.stdout, bytes) else (e.stdout or "")
        err = e.stderr.decode() if isinstance(e.stderr, bytes) else (e.stderr or "")
        return 124, out, err + "\nTIMEOUT"


# ----------------------------------------------------------------------------- translator

def build_extractor():
    with Lock("extract"):
        out = os.path.join(BUILD, "extract")
        srcs = [os.path.join(EXTRACT_SRC, f) for f in os.listdir(EXTRACT_SRC) if f.endswith(".go")]
        if os.path.exists(out) and all(os.path.getmtime(s) <= os.path.getmtime(out) for s in srcs):
            return out
        rc, o, e = sh(["go", "build", "-o", out, "."], cwd=EXTRACT_SRC, env=dict(GOENV, GOFLAGS=""), timeout=300)
        if rc != 0:
            if os.path.exists(out):
                # several people edit tools/extract at once during development: fall back to the last
                # binary that built (its tables may be stale; the final tree must build cleanly, which
                # ./check --setup verifies)
                log("WARNING: extractor build failed, using previous binary:\n" + (o + e)[-600:])
                os.utime(out, None)
                return out
            raise RuntimeError("extractor build failed:\n" + o + e)
        return out


def run_extractor():
    """Regenerate coq/gen/*.v from the current source. Returns (ok, message).
    Files are rewritten only when their content changes so make stays incremental."""
    exe = build_extractor()
    mirror_coq()
    with Lock("coq"):
        gen = os.path.join(COQ, "gen")
        os.makedirs(gen, exist_ok=True)
        tmp = os.path.join(BUILD, "gen.tmp.%d" % os.getpid())
        shutil.rmtree(tmp, ignore_errors=True)
        os.makedirs(tmp)
        rc, o, e = sh([exe, "-repo", REPO, "-out", tmp], env=GOENV, cwd=REPO, timeout=300)
        msg = (o + e).strip()
        if rc == 0:
            for f in os.listdir(tmp):
                src, dst = os.path.join(tmp, f), os.path.join(gen, f)
                new = open(src).read()
                if not os.path.exists(dst) or open(dst).read() != new:
                    open(dst, "w").write(new)
        shutil.rmtree(tmp, ignore_errors=True)
        return rc == 0, msg


# ----------------------------------------------------------------------------- Coq

def coq_vfiles():
    fs = []
    for root in ("theories", "gen"):
        for d, _, names in os.walk(os.path.join(COQ, root)):
            for n in sorted(names):
                if n.endswith(".v"):
                    fs.append(os.path.relpath(os.path.join(d, n), COQ))
    return sorted(fs)


def coq_makefile():
    """(re)generate Makefile.coq when the file list changed"""
    files = coq_vfiles()
    listing = "\n".join(files)
    stamp = os.path.join(COQ, ".filelist")
    mk = os.path.join(COQ, "Makefile.coq")
    if not os.path.exists(mk) or not os.path.exists(stamp) or open(stamp).read() != listing:
        rc, o, e = sh(["coq_makefile", "-f", "_CoqProject", "-o", "Makefile.coq"] + files, cwd=COQ)
        if rc != 0:
            raise RuntimeError("coq_makefile failed: " + o + e)
        open(stamp, "w").write(listing)


def coq_build(targets=None, timeout=3000):
    """full .vo build of the given targets (paths relative to coq/, .vo) or of everything.
    Returns (ok, failing_file, message)."""
    with Lock("coq"):
        coq_makefile()
        cmd = ["make", "-f", "Makefile.coq", "-j16", "-k"] + (targets or [])
        rc, o, e = sh(cmd, cwd=COQ, timeout=timeout)
        if rc == 0:
            return True, None, ""
        txt = o + "\n" + e
        m = re.search(r'File "\./([^"]+)", line (\d+), characters [^\n]*\n(?:Error:|Error)(.*?)(?:\n\n|\nmake|\Z)', txt, re.S)
        if m:
            return False, m.group(1), ("line %s: %s" % (m.group(2), m.group(3).strip()))[:2000]
        return False, None, txt[-2000:]


def coq_closure(roots):
    """transitive closure of `From BX/BXGen Require ...` starting from files given relative to coq/"""
    seen, todo = set(), list(roots)
    while todo:
        f = todo.pop()
        if f in seen or not os.path.exists(os.path.join(COQ, f)):
            continue
        seen.add(f)
        txt = open(os.path.join(COQ, f)).read()
        for m in re.finditer(r"From\s+(BX|BXGen)\s+Require\s+(?:Import\s+|Export\s+)?(.+?)\.(?:\s|$)", txt, re.S):
            root = "theories" if m.group(1) == "BX" else "gen"
            for mod in m.group(2).split():
                todo.append(os.path.join(root, mod.replace(".", "/") + ".v"))
    return sorted(seen)


def forbidden_scan(files=None):
    """no Admitted / admit / Axiom / Parameter / guard switches in the given files (default: whole development)"""
    hits = []
    for f in (files if files is not None else coq_vfiles()):
        txt = open(os.path.join(COQ, f)).read()
        txt_nc = re.sub(r"\(\*.*?\*\)", lambda m: " " * len(m.group(0)), txt, flags=re.S)
        for i, line in enumerate(txt_nc.splitlines(), 1):
            if FORBIDDEN.search(line):
                hits.append("%s:%d: %s" % (f, i, line.strip()))
    return hits


def property_obligations(pid):
    """compile Properties/<pid>.v once more on its own to capture Print Assumptions output.
    Returns dict(theorems=[...], assumptions={thm: text}, axioms=[...])"""
    vf = os.path.join("theories", "Properties", pid + ".v")
    src = open(os.path.join(COQ, vf)).read()
    thms = re.findall(r"^\s*(?:Theorem|Lemma|Example|Corollary)\s+([A-Za-z0-9_']+)", src, re.M)
    pa = os.path.join(BUILD, "pa_%s_%d" % (pid, os.getpid()))
    shutil.rmtree(pa, ignore_errors=True)
    os.makedirs(pa)
    shutil.copy(os.path.join(COQ, vf), os.path.join(pa, pid + ".v"))
    rc, o, e = sh(["coqc", "-Q", os.path.join(COQ, "theories"), "BX", "-Q", os.path.join(COQ, "gen"), "BXGen",
                   "-Q", pa, "BXPA", os.path.join(pa, pid + ".v")], cwd=pa, timeout=900)
    shutil.rmtree(pa, ignore_errors=True)
    if rc != 0:
        return None, (o + e)[-2000:]
    chunks = re.split(r"\n(?=Closed under the global context|Axioms:|Section Variables:)", "\n" + o)
    assum = [c.strip() for c in chunks if c.strip()]
    axioms = []
    for c in assum:
        if c.startswith("Axioms:") or c.startswith("Section Variables:"):
            for m in re.finditer(r"^([A-Za-z0-9_.']+)\s*:", c, re.M):
                if m.group(1) not in ("Axioms", "Section Variables"):
                    axioms.append(m.group(1))
    return dict(theorems=thms, prints=assum, axioms=sorted(set(axioms))), ""


def coq_eval(name, vsrc, timeout=900):
    """evaluate a generated cases file; returns (rc, stdout+stderr)"""
    os.makedirs(CASES, exist_ok=True)
    path = os.path.join(CASES, name + ".v")
    open(path, "w").write(vsrc)
    rc, o, e = sh(["coqc", "-Q", os.path.join(COQ, "theories"), "BX", "-Q", os.path.join(COQ, "gen"), "BXGen",
                   "-Q", CASES, "BXCases", path], cwd=CASES, timeout=timeout)
    for ext in (".vo", ".vok", ".vos", ".glob"):
        try:
            os.remove(os.path.join(CASES, name + ext))
        except OSError:
            pass
    try:
        os.remove(os.path.join(CASES, "." + name + ".aux"))
    except OSError:
        pass
    return rc, o + e


def coq_judge_sharded(name, preamble, case_type, judge_fn, rows, shard=600, timeout=900, jobs=8):
    """Evaluate `map judge_fn rows` inside Coq in shards of at most `shard` cases (a single huge
    list literal overflows coqc's stack) and return the concatenated verdict list, or (None, msg)."""
    from concurrent.futures import ThreadPoolExecutor
    chunks = [rows[i:i + shard] for i in range(0, len(rows), shard)] or [[]]

    def one(ic):
        i, chunk = ic
        src = ("%s\nDefinition cases : list (%s) :=\n %s.\n"
               "Definition M := Eval vm_compute in map %s cases.\nPrint M.\n") % (preamble, case_type, glist(chunk), judge_fn)
        rc, out = coq_eval("%s_%d_%d" % (name, os.getpid(), i), src, timeout=timeout)
        vs = parse_verdicts(out)
        if rc != 0 or vs is None or len(vs) != len(chunk):
            return None, out[-1500:]
        return vs, ""
    res = []
    with ThreadPoolExecutor(max_workers=jobs) as ex:
        for vs, msg in ex.map(one, enumerate(chunks)):
            if vs is None:
                return None, msg
            res += vs
    return res, ""


def parse_verdicts(txt):
    """the judge prints a list of (code, detail) pairs of N"""
    txt = txt.replace("\n", " ")
    m = re.search(r"=\s*\[(.*?)\]\s*:\s*list", txt)
    if not m:
        if re.search(r"=\s*\[\s*\]", txt):
            return []
        return None
    return [(int(a), int(b)) for a, b in re.findall(r"\(\s*(\d+)(?:%N)?\s*,\s*(\d+)(?:%N)?\s*\)", m.group(1))]


# Gallina literal writers -------------------------------------------------------

def gN(x):
    return "%d" % x


def glist(xs, f=str):
    return "[" + "; ".join(f(x) for x in xs) + "]"


def gopt(x, f=str):
    return "None" if x is None else "(Some %s)" % f(x)


def gbool(b):
    return "true" if b else "false"


def gstr(s):
    return '"' + s.replace('"', '""') + '"'


# ----------------------------------------------------------------------------- Go harness

def build_harness(pkg="ranges"):
    """build driver package harness/<pkg> against REPO's working tree with hooks on"""
    with Lock("harness_" + pkg):
        out = os.path.join(BUILD, "h_" + pkg)
        modargs = []
        with Lock("gosum"):
            src = open(os.path.join(REPO, "go.sum")).read()
            if ALT:
                mod = open(os.path.join(HARNESS_SRC, "go.mod")).read().replace("=> /repo\n", "=> %s\n" % REPO)
                mf = os.path.join(BUILD, "go.alt.mod")
                open(mf, "w").write(mod)
                open(os.path.join(BUILD, "go.alt.sum"), "w").write(src)
                modargs = ["-modfile=" + mf]
            else:
                dst = os.path.join(HARNESS_SRC, "go.sum")
                if not os.path.exists(dst) or open(dst).read() != src:
                    open(dst, "w").write(src)
        rc, o, e = sh(["go", "build"] + modargs + ["-tags", "verif", "-ldflags=-checklinkname=0", "-o", out, "./" + pkg],
                      cwd=HARNESS_SRC, env=GOENV, timeout=1500)
        if rc != 0:
            return None, (o + e)[-4000:]
        return out, ""


def run_driver(exe, name, lines, args=(), timeout=900):
    """feed JSON lines on stdin, get JSON lines on stdout"""
    inp = "\n".join(json.dumps(l, separators=(",", ":")) for l in lines) + "\n"
    tmp = os.path.join("/tmp", "verif-drv-%d" % os.getpid())
    os.makedirs(tmp, exist_ok=True)
    try:
        rc, o, e = sh([exe, name] + list(args), inp=inp, timeout=timeout, env=dict(os.environ, TMPDIR=tmp))
    finally:
        shutil.rmtree(tmp, ignore_errors=True)
    outs = []
    for l in o.splitlines():
        l = l.strip()
        if l.startswith("{") or l.startswith("["):
            try:
                outs.append(json.loads(l))
            except ValueError:
                pass
    return rc, outs, e


# ----------------------------------------------------------------------------- findings, evidence, verdicts

def known_findings():
    p = os.path.join(VERIF, "known_findings.json")
    if not os.path.exists(p):
        return []
    return json.load(open(p)).get("findings", [])


class Ctx:
    def __init__(self, pid, tier, seed):
        self.pid, self.tier, self.seed = pid, tier, seed
        self.rng = random.Random(seed * 1000003 + int(hashlib.sha1(pid.encode()).hexdigest()[:8], 16))
        self.t0 = time.time()
        self.evaluations = 0
        self.nontrivial = set()
        self.samples = []
        self.violations = []      # (replay_path, text)
        self.known_hits = []      # text
        self.obligations = 0
        self.discharged = 0
        self.trusted = []
        self.extra = {}
        self.assumptions = []
        self.notes = []
        self.traces_validated = 0
        self.quick = tier == "quick"

    # -- proofs -------------------------------------------------------------
    def proofs(self, targets, model_targets=()):
        """Regenerate tables, build model + property theorems.  Returns True when all
        obligations are discharged; otherwise records the broken obligation (the caller goes
        on to search for a failing input with the model files that still build)."""
        ok, msg = run_extractor()
        self.extract_ok = ok
        if not ok:
            self.broken("translator", msg)
        roots = ["theories/Properties/%s.v" % self.pid] + ["theories/%s.v" % t for t in targets] + ["theories/Model/%s.v" % m for m in model_targets]
        hits = forbidden_scan(coq_closure(roots))
        if hits:
            self.broken("forbidden-construct", "\n".join(hits[:10]))
        mt = ["theories/Model/%s.vo" % m for m in model_targets]
        if mt:
            okm, f, m = coq_build(mt)
            if not okm:
                self.broken("model:" + str(f), m)
                self.model_ok = False
                return False
        self.model_ok = True
        pt = ["theories/Properties/%s.vo" % self.pid] + ["theories/%s.vo" % t for t in targets]
        okp, f, m = coq_build(pt)
        if not okp:
            self.broken("proof:" + str(f), m)
            return False
        info, err = property_obligations(self.pid)
        if info is None:
            self.broken("proof:Properties/%s.v" % self.pid, err)
            return False
        self.obligations = len(info["theorems"])
        self.discharged = len(info["theorems"])
        self.extra["theorems"] = info["theorems"]
        self.extra["print_assumptions"] = info["prints"][:60]
        self.trusted = ["Coq 8.16.1 kernel + vm_compute (no native_compute)",
                        "axioms reported by Print Assumptions: " + (", ".join(info["axioms"]) or "none (all closed under the global context)"),
                        "tools/extract (Go AST -> Gallina tables)", "Go harness driver + projection to observables",
                        "cases_*.v writer (lib/vlib.py, checks/*.py)"]
        if self.tier == "thorough":
            self.coqchk()
        return not self.broken_list

    def coqchk(self):
        """thorough tier: re-check the compiled property file and everything it depends on with the
        independent checker and record the axiom summary it prints"""
        # coqchk takes minutes: run it on a private snapshot of the compiled tree so that the shared
        # build lock is held only while copying
        snap = os.path.join(BUILD, "chk_%s_%d" % (self.pid, os.getpid()))
        shutil.rmtree(snap, ignore_errors=True)
        os.makedirs(snap)
        with Lock("coq"):
            subprocess.run(["rsync", "-a", "--include", "*/", "--include", "*.vo", "--exclude", "*",
                            os.path.join(COQ, "theories"), os.path.join(COQ, "gen"), snap + "/"], check=True)
        rc, o, e = sh(["coqchk", "-silent", "-o", "-Q", "theories", "BX", "-Q", "gen", "BXGen",
                       "BX.Properties." + self.pid], cwd=snap, timeout=6 * 3600)
        shutil.rmtree(snap, ignore_errors=True)
        txt = o + e
        m = re.search(r"CONTEXT SUMMARY.*", txt, re.S)
        summary = re.sub(r"\s+", " ", m.group(0)) if m else txt[-800:]
        self.extra["coqchk"] = dict(rc=rc, summary=summary[:3000])
        if rc != 0:
            self.broken("coqchk:Properties/%s" % self.pid, txt[-1500:])
        else:
            self.trusted.append("coqchk -o (independent checker) summary: " + summary[:600])

    broken_list = None

    def broken(self, what, msg):
        if self.broken_list is None:
            self.broken_list = []
        if any(w == what for w, _ in self.broken_list):
            return
        self.broken_list.append((what, msg))
        log("BROKEN obligation/tie:", what, "::", msg[:600])

    # -- bookkeeping ----------------------------------------------------------
    def count(self, case_key=None, nontrivial=False, sample=None):
        self.evaluations += 1
        if nontrivial and case_key is not None:
            self.nontrivial.add(case_key)
        if sample is not None and len(self.samples) < 5:
            self.samples.append(sample)

    def violation(self, what, replay_obj, suffix=""):
        os.makedirs(REPLAYS, exist_ok=True)
        body = json.dumps(replay_obj, sort_keys=True, indent=1)
        h = hashlib.sha1(body.encode()).hexdigest()[:12]
        path = os.path.join(REPLAYS, "%s_%s.json" % (self.pid, h))
        open(path, "w").write(body)
        self.violations.append((path, what, suffix))

    def known(self, finding_id, what):
        if (finding_id, what) not in self.known_hits:
            self.known_hits.append((finding_id, what))

    def finish(self, level="proof", rule="", checker_cmd="", explanation=""):
        # a broken obligation / tie with no concrete failing input is still a violation
        if self.broken_list and not self.violations:
            for what, msg in self.broken_list:
                self.violation("broken: " + what, {"property": self.pid, "broken": what, "message": msg,
                                                   "note": "no concrete failing input found by the search"},
                               suffix=" no-failing-input-found")
        wall = time.time() - self.t0
        cov = dict(obligations=max(self.obligations, 0), discharged=self.discharged if not self.broken_list else 0,
                   checker_cmd=checker_cmd or "make -f Makefile.coq theories/Properties/%s.vo (full .vo) + coqc Print Assumptions" % self.pid,
                   trusted_base=self.trusted,
                   evaluations=self.evaluations, distinct_nontrivial=len(self.nontrivial),
                   rule=rule, samples=self.samples[:5] or ["(none)"],
                   traces_validated_against_impl=self.traces_validated,
                   explanation=explanation)
        cov.update(self.extra)
        ev = dict(property_id=self.pid, tier=self.tier, seed=self.seed, level=level, coverage=cov,
                  assumptions=self.assumptions, wall_s=round(wall, 2), violations=len(self.violations),
                  known_findings=[k for k, _ in self.known_hits])
        os.makedirs(EVID, exist_ok=True)
        open(os.path.join(EVID, self.pid + ".json"), "w").write(json.dumps(ev, indent=1, sort_keys=True))
        for fid, what in self.known_hits:
            print("KNOWN-FINDING: property=%s %s" % (self.pid, what))
        for path, what, suffix in self.violations:
            log("violation:", what)
            print("VIOLATION property=%s replay=%s%s" % (self.pid, path, suffix))
        sys.stdout.flush()
        return 1 if self.violations else 0
