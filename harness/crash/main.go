// Driver "crash" (C11): on the REAL ledger (leveldb x2 + blockfile in a temp dir) commit n blocks
// cleanly, let the process "die" inside the commit of block n+1 after exactly a chosen set of
// durable write units, restart (leveldb.New x2 + NewBlockFile + ledger.New), observe, execute the
// remaining blocks, observe; and run the same blocks on a node that never crashes.
//
// Units (bit i of "units"): 0 StateBatch, 1 PruneBatch, 2 IndexBatch, 3..7 the blockfile tables
// hashes, bodies, transactions, receipts, interchain.  Batches are dropped by storage.Storage /
// Batch wrappers handed to ledger.New; blockfile tables that did not land are restored from a
// copy of the blockfile directory taken before the commit.  No source hook is needed for the
// injection; the running state root is read through the read-only hook VerifJournalRange.
//
// input : {"blocks":[{"txs":[..],"ic":[[k,[..]]..],"tag":t,"w":delta}...], "n":n, "units":u}
// output: {"entries":[...], "uh","ut", tables, "refs":[lobs at n, n+1, N], "rec":code,
//
//	"obs1":lobs|null, "cont":code, "obs2":lobs|null}
package main

import (
	"crypto/sha256"
	"encoding/json"
	"fmt"
	"math/big"
	"os"
	"path/filepath"
	"strings"

	"github.com/meshplus/bitxhub-kit/storage"
	"github.com/meshplus/bitxhub-kit/types"
	"github.com/meshplus/bitxhub/internal/ledger"
	"github.com/meshplus/bitxhub/verifharness/clx"
	"github.com/meshplus/bitxhub/verifharness/hx"
)

type blockIn struct {
	Txs []int         `json:"txs"`
	IC  []clx.ICEntry `json:"ic"`
	Tag uint64        `json:"tag"`
	W   int           `json:"w"`
	Big int           `json:"big"` // additionally change this many state keys of one contract (a LARGE block)
}
type caseIn struct {
	LDB    string    `json:"ldb"` // leveldb_type of both stores: "normal" (default) or "multi"
	Blocks []blockIn `json:"blocks"`
	N      int       `json:"n"`
	Units  int       `json:"units"`
	SKeep  *int      `json:"skeep"` // if set: exactly the first skeep state-store batch commits of the crash block are durable (overrides the State/Prune bits)
}
type lobs struct {
	Chain   clx.Obs  `json:"chain"`
	Version uint64   `json:"version"`
	Root    uint64   `json:"root"`
	Data    []uint64 `json:"data"`
}
type caseOut struct {
	Entries      []clx.Entry      `json:"entries"`
	UH           []uint64         `json:"uh"`
	UT           []uint64         `json:"ut"`
	HashTbl      [][2]interface{} `json:"hash_tbl"`
	RootTbl      [][2]interface{} `json:"root_tbl"`
	SrootTbl     [][3]uint64      `json:"sroot_tbl"`
	Refs         []*lobs          `json:"refs"`
	StateCommits int              `json:"state_commits"` // batch commits the state store saw while the crash block was committed
	ChainCommits int              `json:"chain_commits"`
	Rec          int              `json:"rec"`
	Obs1         *lobs            `json:"obs1"`
	Cont         int              `json:"cont"`
	Obs2         *lobs            `json:"obs2"`
	RecErr       string           `json:"rec_err,omitempty"`
}

// ---------------------------------------------------------------- dropping batches

type dropCtl struct {
	active bool
	count  int
	drop   map[int]bool // batch number (in commit order while active) -> dropped
	keep   int          // >= 0: exactly the first keep batches are durable (overrides drop)
}
type dropStore struct {
	storage.Storage
	ctl *dropCtl
}
type dropBatch struct {
	storage.Batch
	ctl *dropCtl
}

func (d *dropStore) NewBatch() storage.Batch {
	return &dropBatch{Batch: d.Storage.NewBatch(), ctl: d.ctl}
}
func (b *dropBatch) Commit() {
	if b.ctl.active {
		k := b.ctl.count
		b.ctl.count++
		if (b.ctl.keep >= 0 && k >= b.ctl.keep) || (b.ctl.keep < 0 && b.ctl.drop[k]) {
			return // the process died before this batch reached the disk
		}
	}
	b.Batch.Commit()
}

// ---------------------------------------------------------------- executing blocks

var bigAcct = types.NewAddress([]byte("verif-crash-acct-big"))

var accts = []*types.Address{
	types.NewAddress([]byte("verif-crash-acct-000")), types.NewAddress([]byte("verif-crash-acct-001")),
	types.NewAddress([]byte("verif-crash-acct-002")), types.NewAddress([]byte("verif-crash-acct-hhh")),
}

func simple(s *clx.Stores) *ledger.SimpleLedger { return s.Ledger.StateLedger.(*ledger.SimpleLedger) }

// the writes of the block whose delta id is w
func applyDelta(s *clx.Stores, w, nbig int) {
	for i := 0; i < nbig; i++ {
		s.Ledger.SetState(bigAcct, []byte(fmt.Sprintf("b%05d", i)), []byte(fmt.Sprintf("w%d-%d", w, i)), nil)
	}
	a := accts[w%3]
	s.Ledger.SetBalance(a, big.NewInt(int64(1000+w)))
	s.Ledger.SetState(a, []byte(fmt.Sprintf("k%d", w%2)), []byte(fmt.Sprintf("v%d", w)), nil)
	s.Ledger.SetState(accts[3], []byte("h"), []byte(fmt.Sprintf("%d", w)), nil)
	// a key that alternates between the EMPTY value (present-and-empty, as the executor leaves an
	// emptied list) and a non-empty one: every odd block from 3 on overwrites a non-empty value with
	// the empty one, every even block from 4 on overwrites an existing empty value (journal prev = "").
	// (Block 1 writes a non-empty value: CREATING a key with the empty value is not written to disk by
	// Commit -- bytes.Equal(nil, []byte{}) -- while the account cache says it exists; that belongs to C13.)
	if w%2 == 1 && w >= 3 {
		s.Ledger.SetState(accts[3], []byte("e"), []byte{}, nil)
	} else {
		s.Ledger.SetState(accts[3], []byte("e"), []byte(fmt.Sprintf("e%d", w)), nil)
	}
	// the EVM pattern on an EXISTING account: a nonce bump first (the account gets its dirty copy),
	// then balance arithmetic through AddBalance / SubBalance in the same block
	if w >= 3 {
		b := accts[(w+1)%3]
		s.Ledger.SetNonce(b, s.Ledger.GetNonce(b)+1)
		simple(s).AddBalance(b, big.NewInt(int64(10*w)))
		simple(s).SubBalance(b, big.NewInt(3))
	}
	// storage-only addresses: block w gives address stor(w+1) two state keys and NO account record
	// (SetState alone never writes account-<addr>); block w+1 then gives it its first balance and nonce
	// while it overwrites one of the existing keys and deletes the other
	nx := storAddr(w + 1)
	s.Ledger.SetState(nx, []byte("s0"), []byte(fmt.Sprintf("s0-%d", w)), nil)
	s.Ledger.SetState(nx, []byte("s1"), []byte(fmt.Sprintf("s1-%d", w)), nil)
	if w >= 2 {
		cur := storAddr(w)
		s.Ledger.SetBalance(cur, big.NewInt(int64(500+w)))
		s.Ledger.SetNonce(cur, 1)
		s.Ledger.SetState(cur, []byte("s0"), []byte(fmt.Sprintf("s0-%d-again", w)), nil)
		s.Ledger.SetState(cur, []byte("s1"), nil, nil)
	}
}

func storAddr(j int) *types.Address {
	return types.NewAddress([]byte(fmt.Sprintf("verif-crash-stor-%03d", j)))
}

// dump of everything any delta can touch (maxBig: the largest "big" of any block)
func dump(s *clx.Stores, maxBig, nblocks int) string {
	var sb strings.Builder
	for j := 1; j <= nblocks+1; j++ {
		a := storAddr(j)
		sb.WriteString(fmt.Sprintf("stor%d:%s/%d", j, s.Ledger.GetBalance(a).String(), s.Ledger.GetNonce(a)))
		for _, k := range []string{"s0", "s1"} {
			ok, v := s.Ledger.GetState(a, []byte(k))
			sb.WriteString(fmt.Sprintf("|%v:%q", ok, v))
		}
		sb.WriteString(";")
	}
	if maxBig > 0 {
		hs := sha256.New()
		for i := 0; i < maxBig; i++ {
			ok, v := s.Ledger.GetState(bigAcct, []byte(fmt.Sprintf("b%05d", i)))
			fmt.Fprintf(hs, "%v:%q;", ok, v)
		}
		sb.WriteString(fmt.Sprintf("big:%x;", hs.Sum(nil)))
	}
	for _, a := range accts {
		sb.WriteString(fmt.Sprintf("%s/%d", s.Ledger.GetBalance(a).String(), s.Ledger.GetNonce(a)))
		for _, k := range []string{"k0", "k1", "h", "e"} {
			// existence flag and value: present-and-empty differs from absent
			ok, v := s.Ledger.GetState(a, []byte(k))
			sb.WriteString(fmt.Sprintf("|%v:%q", ok, v))
		}
		sb.WriteString(";")
	}
	s.Ledger.Clear() // drop the account objects loaded by the reads
	return sb.String()
}

type world struct {
	t       *clx.Tables
	sroot   map[[2]uint64]uint64
	blocks  []blockIn
	entries map[int]clx.Entry // by height, from the uncrashed run
	dumps   []string          // state dump of the uncrashed node at height h
	maxBig  int
}

// execute block h (1-based) on the ledger as it is: seal against its chain meta and state root
func (w *world) execute(s *clx.Stores, h int, record bool) {
	b := w.blocks[h-1]
	meta := s.CL.GetChainMeta()
	_, _, prev := simple(s).VerifJournalRange()
	applyDelta(s, b.W, b.Big)
	accounts, root := s.Ledger.FlushDirtyData()
	w.sroot[[2]uint64{w.t.In.Hash(prev), uint64(b.W)}] = w.t.In.Hash(root)
	blk, rcs, im, e := clx.Seal(w.t, h, meta.Height+1, meta.BlockHash, root, b.Txs, -1, b.IC, b.Tag, 0)
	if record {
		w.entries[h] = e
	}
	s.Ledger.PersistBlockData(&ledger.BlockData{Block: blk, Receipts: rcs, Accounts: accounts, InterchainMeta: im})
}

func (w *world) observe(s *clx.Stores, kh int, uh, ut []*types.Hash) *lobs {
	o := &lobs{Chain: clx.Observe(s, w.t, kh, uh, ut)}
	o.Version = s.Ledger.Version()
	_, _, prev := simple(s).VerifJournalRange()
	o.Root = w.t.In.Hash(prev)
	d := dump(s, w.maxBig, len(w.blocks))
	o.Data = []uint64{999999}
	for k := len(w.dumps) - 1; k >= 0; k-- {
		if w.dumps[k] == d {
			o.Data = []uint64{}
			for j := k; j >= 1; j-- {
				o.Data = append(o.Data, uint64(w.blocks[j-1].W))
			}
			break
		}
	}
	return o
}

var tableOf = map[int]string{3: "hashes", 4: "bodies", 5: "transactions", 6: "receipts", 7: "interchain"}

func classify(err error) int {
	msg := err.Error()
	switch {
	case strings.Contains(msg, "rollback to higher blockchain height"):
		return 1
	case strings.Contains(msg, "rollback too much block"):
		return 2
	case strings.Contains(msg, "without journal"):
		return 3
	case strings.Contains(msg, "get empty block journal"):
		return 4
	}
	return 5
}

func runCase(line []byte) (interface{}, error) {
	var c caseIn
	if err := json.Unmarshal(line, &c); err != nil {
		return nil, err
	}
	N := len(c.Blocks)
	if c.N < 0 || c.N >= N {
		return nil, fmt.Errorf("need 0 <= n < number of blocks")
	}
	w := &world{t: clx.NewTables(), sroot: map[[2]uint64]uint64{}, blocks: c.Blocks, entries: map[int]clx.Entry{}}
	for _, b := range c.Blocks {
		if b.Big > w.maxBig {
			w.maxBig = b.Big
		}
	}
	kh := N + 1
	// universe of transaction hashes
	var ut []*types.Hash
	seen := map[int]bool{}
	for _, b := range c.Blocks {
		for _, i := range b.Txs {
			if !seen[i] {
				seen[i] = true
				ut = append(ut, clx.Tx(i).GetHash())
			}
		}
	}
	ut = append(ut, clx.Tx(999999).GetHash())

	// ---- the node that never crashes: pass 1 learns block hashes and state dumps, pass 2 observes
	var uh []*types.Hash
	refs := map[int]*lobs{}
	for pass := 1; pass <= 2; pass++ {
		dir, err := os.MkdirTemp("", "crashref")
		if err != nil {
			return nil, err
		}
		s, err := clx.OpenFull(dir, c.LDB, nil, nil)
		if err != nil {
			os.RemoveAll(dir)
			return nil, err
		}
		if pass == 1 {
			w.dumps = []string{dump(s, w.maxBig, len(w.blocks))}
		}
		for h := 1; h <= N; h++ {
			w.execute(s, h, pass == 1)
			if pass == 1 {
				uh = append(uh, s.CL.GetChainMeta().BlockHash)
				w.dumps = append(w.dumps, dump(s, w.maxBig, len(w.blocks)))
			} else if h == c.N || h == c.N+1 || h == N {
				refs[h] = w.observe(s, kh, uh, ut)
			}
		}
		if pass == 1 {
			uh = append(uh, clx.FakeRoot("no-such-block", 0))
		}
		s.Close()
		os.RemoveAll(dir)
	}
	if c.N == 0 {
		dir, _ := os.MkdirTemp("", "crashref0")
		s, err := clx.OpenFull(dir, c.LDB, nil, nil)
		if err != nil {
			return nil, err
		}
		refs[0] = w.observe(s, kh, uh, ut)
		s.Close()
		os.RemoveAll(dir)
	}

	out := caseOut{Cont: 7}
	out.Refs = []*lobs{refs[c.N], refs[c.N+1], refs[N]}

	// ---- the node that dies in the commit of block n+1
	dir, err := os.MkdirTemp("", "crash")
	if err != nil {
		return nil, err
	}
	defer os.RemoveAll(dir)
	cctl, sctl := &dropCtl{drop: map[int]bool{}, keep: -1}, &dropCtl{drop: map[int]bool{}, keep: -1}
	if c.SKeep != nil {
		sctl.keep = *c.SKeep
	}
	has := func(bit int) bool { return c.Units&(1<<uint(bit)) != 0 }
	sctl.drop[0] = !has(0) // StateBatch
	sctl.drop[1] = !has(1) // PruneBatch (the second state-store batch, at pruning heights only)
	cctl.drop[0] = !has(2) // IndexBatch
	s, err := clx.OpenFull(dir, c.LDB, func(st storage.Storage) storage.Storage { return &dropStore{Storage: st, ctl: cctl} },
		func(st storage.Storage) storage.Storage { return &dropStore{Storage: st, ctl: sctl} })
	if err != nil {
		return nil, err
	}
	for h := 1; h <= c.N; h++ {
		w.execute(s, h, false)
	}
	bfDir := filepath.Join(dir, "storage", "blockfile")
	snap := filepath.Join(dir, "bf-before")
	if err := clx.CopyDir(bfDir, snap); err != nil {
		return nil, err
	}
	cctl.active, sctl.active = true, true
	w.execute(s, c.N+1, false)
	// process death: nothing else reaches the disk
	out.StateCommits, out.ChainCommits = sctl.count, cctl.count
	s.Close()
	for bit, name := range tableOf {
		if has(bit) {
			continue
		}
		cur, _ := filepath.Glob(filepath.Join(bfDir, name+".*"))
		for _, f := range cur {
			os.Remove(f)
		}
		old, _ := filepath.Glob(filepath.Join(snap, name+".*"))
		for _, f := range old {
			data, err := os.ReadFile(f)
			if err != nil {
				return nil, err
			}
			if err := os.WriteFile(filepath.Join(bfDir, filepath.Base(f)), data, 0644); err != nil {
				return nil, err
			}
		}
	}
	os.RemoveAll(snap)

	// ---- restart: the real start-up sequence (ledger.New, then the read-only view ledger on the
	// same state store, as app.GenerateBitXHubWithoutOrder does), performed TWICE in a row (the
	// node is stopped again before it executes anything), then execution continues
	startup := func() (*clx.Stores, int, string) {
		st, err := clx.OpenFull(dir, c.LDB, nil, nil)
		if err != nil {
			return nil, classify(err), err.Error()
		}
		if err := st.OpenView(); err != nil {
			st.Close()
			return nil, 6, "view ledger: " + err.Error()
		}
		return st, 0, ""
	}
	s2, code, msg := startup()
	if code == 0 {
		s2.Close()
		s2, code, msg = startup()
		if code != 0 {
			code += 20
		}
	}
	if code != 0 {
		out.Rec = code
		out.RecErr = msg
	} else {
		out.Obs1 = w.observe(s2, kh, uh, ut)
		out.Cont = 0
		for h := int(s2.CL.GetChainMeta().Height) + 1; h <= N; h++ {
			blocks, _ := s2.BF.Blocks()
			if blocks != s2.CL.GetChainMeta().Height {
				out.Cont = 9 // AppendBlock would answer "out-order" and the panic would kill the process
				break
			}
			w.execute(s2, h, false)
		}
		if out.Cont == 0 {
			out.Obs2 = w.observe(s2, kh, uh, ut)
		}
		s2.Close()
	}

	for h := 1; h <= N; h++ {
		out.Entries = append(out.Entries, w.entries[h])
	}
	for _, x := range uh {
		out.UH = append(out.UH, w.t.In.Hash(x))
	}
	for _, x := range ut {
		out.UT = append(out.UT, w.t.In.Hash(x))
	}
	out.HashTbl, out.RootTbl = w.t.HashTable(), w.t.RootTable()
	for k, v := range w.sroot {
		out.SrootTbl = append(out.SrootTbl, [3]uint64{k[0], k[1], v})
	}
	sortTriples(out.SrootTbl)
	return out, nil
}

func sortTriples(t [][3]uint64) {
	for i := 1; i < len(t); i++ {
		for j := i; j > 0 && (t[j][0] < t[j-1][0] || (t[j][0] == t[j-1][0] && t[j][1] < t[j-1][1])); j-- {
			t[j], t[j-1] = t[j-1], t[j]
		}
	}
}

func main() {
	hx.Main(map[string]func(args []string) error{
		"crash": func(args []string) error { return hx.Lines(runCase) },
	})
}
