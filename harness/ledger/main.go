// Driver "ledger": runs the REAL SimpleLedger (internal/ledger) on leveldb in a temp dir on
// abstract histories and prints canonicalised observables, one JSON line per history.
//
// sub-commands
//
//	ledger   stdin: one JSON history per line
//	           {"addrs":[hex20,...],"keys":[hex,...],"codes":[hex,...],"ops":[{"o":...},...]}
//	         stdout: {"strs":[addr strings],"kec":[[codehex,hashhex],...],"obs":[...one per op...]}
//	merkle   stdin: {"leaves":[hex32,...]}   stdout: {"root":hex,"err":bool}
//	sha      stdin: {"m":hex}                stdout: {"h":hex}   (self-test of the Gallina SHA-256)
package main

import (
	"crypto/sha256"
	"encoding/hex"
	"encoding/json"
	"errors"
	"fmt"
	"math/big"
	"os"
	"path/filepath"
	"sort"
	"strconv"
	"strings"
	"time"

	"github.com/ethereum/go-ethereum/crypto"
	"github.com/meshplus/bitxhub-kit/log"
	"github.com/meshplus/bitxhub-kit/storage"
	"github.com/meshplus/bitxhub-kit/storage/leveldb"
	"github.com/meshplus/bitxhub-kit/types"
	"github.com/meshplus/bitxhub/internal/executor"
	"github.com/meshplus/bitxhub/internal/ledger"
	"github.com/meshplus/bitxhub/internal/repo"
	ethledger "github.com/meshplus/eth-kit/ledger"
	"github.com/meshplus/bitxhub/verifharness/clx"
	"github.com/meshplus/bitxhub/verifharness/hx"
)

type op struct {
	O string  `json:"o"`
	A int     `json:"a"`
	K *string `json:"k"` // hex; state key / query prefix
	V *string `json:"v"` // hex or null (nil)
	Z string  `json:"z"` // decimal balance
	N uint64  `json:"n"` // nonce / height / revision id / layer
}

type history struct {
	// full=true: the whole ledger.Ledger (state ledger + chain ledger + blockfile, opened by ledger.New);
	// "commit" seals a block on the current chain head and calls PersistBlockData, "rollback" calls
	// Ledger.Rollback, "reopen" closes all three stores and runs ledger.New again; every step additionally
	// reports the chain half ("chain": head height, persisted head height, blocks in the blockfile, head hash,
	// persisted head hash, then per height 1..16 the hash of GetBlock or 0), hashes interned per history
	Full  bool     `json:"full"`
	Addrs []string `json:"addrs"`
	Keys  []string `json:"keys"`
	Codes []string `json:"codes"`
	Ops   []op     `json:"ops"`
}

type obs map[string]interface{}

func unhex(s string) []byte {
	b, err := hex.DecodeString(s)
	if err != nil {
		panic(err)
	}
	if b == nil {
		b = []byte{}
	}
	return b
}

func optBytes(p *string) []byte {
	if p == nil {
		return nil
	}
	return unhex(*p)
}

func hexOrNil(b []byte) interface{} {
	if b == nil {
		return nil
	}
	return hex.EncodeToString(b)
}

type world struct {
	dir    string
	ldb    storage.Storage
	lg     *ledger.SimpleLedger
	addrs  []*types.Address
	keys   [][]byte
	lastAc map[string]ethledger.IAccount
	lastRt *types.Hash
	full   bool
	st     *clx.Stores
	tbl    *clx.Tables
	hid    map[string]uint64
	stepNo int
	dead   bool
}

const fullKH = 16

func (w *world) close() {
	if w.dead {
		return
	}
	if w.full {
		if w.st != nil {
			w.st.Close()
		}
		return
	}
	w.ldb.Close()
}

func (w *world) hashID(h *types.Hash) uint64 {
	if h == nil || h.RawHash == ([types.HashLength]byte{}) {
		return 0 // no block: nil in memory after a rollback to 0, the zero hash when read back
	}
	k := h.String()
	if id, ok := w.hid[k]; ok {
		return id
	}
	id := uint64(len(w.hid) + 1)
	w.hid[k] = id
	return id
}

// chainObs: what the chain half of the ledger answers right now
func (w *world) chainObs() (res []uint64) {
	defer func() {
		if recover() != nil {
			res = []uint64{^uint64(0) >> 12}
		}
	}()
	cl := w.st.CL
	m := cl.GetChainMeta()
	sm := cl.LoadChainMeta()
	blocks, _ := w.st.BF.Blocks()
	res = []uint64{m.Height, sm.Height, blocks, w.hashID(m.BlockHash), w.hashID(sm.BlockHash)}
	for h := uint64(1); h <= fullKH; h++ {
		b, err := cl.GetBlock(h, false)
		if err != nil || b == nil {
			res = append(res, 0)
		} else {
			res = append(res, w.hashID(b.BlockHash))
		}
	}
	return res
}

func fullErrEnum(err error) string {
	switch {
	case err == nil:
		return "ok"
	case errors.Is(err, ledger.ErrorRollbackToHigherNumber):
		return "higher"
	case errors.Is(err, ledger.ErrorRollbackTooMuch):
		return "toomuch"
	case errors.Is(err, ledger.ErrorRollbackWithoutJournal):
		return "nojournal"
	case strings.Contains(err.Error(), "cannot get block journal"):
		return "nojournal"
	}
	return "err"
}

func (w *world) open() error {
	if w.full {
		st, err := clx.OpenFull(w.dir, "", nil, nil)
		if err != nil {
			return err
		}
		sl, ok := st.Ledger.StateLedger.(*ledger.SimpleLedger)
		if !ok {
			st.Close()
			return fmt.Errorf("state ledger is not a SimpleLedger")
		}
		w.st, w.ldb, w.lg = st, st.State, sl
		return nil
	}
	ldb, err := leveldb.New(filepath.Join(w.dir, "ledger"))
	if err != nil {
		return err
	}
	sl, err := ledger.NewSimpleLedger(&repo.Repo{}, ldb, nil, log.NewWithModule("verif"))
	if err != nil {
		ldb.Close()
		return err
	}
	w.ldb = ldb
	w.lg = sl.(*ledger.SimpleLedger)
	return nil
}

func errEnum(err error) string {
	switch {
	case err == nil:
		return "ok"
	case err == ledger.ErrorRollbackToHigherNumber:
		return "higher"
	case err == ledger.ErrorRollbackTooMuch:
		return "toomuch"
	case err == ledger.ErrorRollbackWithoutJournal:
		return "nojournal"
	case strings.Contains(err.Error(), "cannot get block journal"):
		return "nojournal"
	}
	return "err"
}

func acctJSON(a *ethledger.InnerAccount) interface{} {
	if a == nil {
		return nil
	}
	bal := "nil"
	if a.Balance != nil {
		bal = a.Balance.String()
	}
	return []interface{}{a.Nonce, bal, hexOrNil(a.CodeHash)}
}

// canonical journal: entries sorted by address index
type jEntry struct {
	Address        *types.Address
	PrevAccount    *ethledger.InnerAccount
	AccountChanged bool
	PrevStates     map[string][]byte
	PrevCode       []byte
	CodeChanged    bool
}
type jBlock struct {
	Journals    []*jEntry
	ChangedHash *types.Hash
}

func (w *world) addrIndex(raw []byte) int {
	for i, a := range w.addrs {
		if string(a.Bytes()) == string(raw) {
			return i
		}
	}
	return -1
}

func (w *world) dbdump() obs {
	it := w.ldb.Iterator(nil, nil)
	var accts, codes, sts, jnls [][]interface{}
	other := 0
	var minH, maxH uint64
	strIdx := map[string]int{}
	for i, a := range w.addrs {
		strIdx[a.String()] = i
	}
	for it.Next() {
		k := append([]byte{}, it.Key()...)
		v := append([]byte{}, it.Value()...)
		ks := string(k)
		switch {
		case strings.HasPrefix(ks, "account-"):
			ia := &ethledger.InnerAccount{Balance: big.NewInt(0)}
			if err := ia.Unmarshal(v); err != nil {
				other++
				continue
			}
			idx, ok := strIdx[ks[len("account-"):]]
			if !ok {
				other++
				continue
			}
			// raw bytes as well: the model renders the stored JSON byte-exactly
			accts = append(accts, []interface{}{idx, acctJSON(ia), hex.EncodeToString(v)})
		case strings.HasPrefix(ks, "code-"):
			idx, ok := strIdx[ks[len("code-"):]]
			if !ok {
				other++
				continue
			}
			codes = append(codes, []interface{}{idx, hex.EncodeToString(v)})
		case ks == "journal-minHeight":
			minH, _ = strconv.ParseUint(string(v), 10, 64)
		case ks == "journal-maxHeight":
			maxH, _ = strconv.ParseUint(string(v), 10, 64)
		case strings.HasPrefix(ks, "journal-"):
			h, err := strconv.ParseUint(ks[len("journal-"):], 10, 64)
			if err != nil {
				other++
				continue
			}
			jb := &jBlock{}
			if err := json.Unmarshal(v, jb); err != nil {
				other++
				continue
			}
			var es [][]interface{}
			for _, e := range jb.Journals {
				var ps [][]interface{}
				for pk, pv := range e.PrevStates {
					ps = append(ps, []interface{}{hex.EncodeToString([]byte(pk)), hexOrNil(pv)})
				}
				sort.Slice(ps, func(i, j int) bool { return ps[i][0].(string) < ps[j][0].(string) })
				es = append(es, []interface{}{w.addrIndex(e.Address.Bytes()), e.AccountChanged, acctJSON(e.PrevAccount), ps, e.CodeChanged, hexOrNil(e.PrevCode)})
			}
			sort.Slice(es, func(i, j int) bool { return es[i][0].(int) < es[j][0].(int) })
			jnls = append(jnls, []interface{}{h, es, hex.EncodeToString(jb.ChangedHash.Bytes())})
		default:
			if len(k) >= 20 {
				if idx := w.addrIndex(k[:20]); idx >= 0 {
					sts = append(sts, []interface{}{idx, hex.EncodeToString(k[20:]), hex.EncodeToString(v)})
					continue
				}
			}
			other++
		}
	}
	sort.Slice(accts, func(i, j int) bool { return accts[i][0].(int) < accts[j][0].(int) })
	sort.Slice(codes, func(i, j int) bool { return codes[i][0].(int) < codes[j][0].(int) })
	sort.Slice(sts, func(i, j int) bool {
		if sts[i][0].(int) != sts[j][0].(int) {
			return sts[i][0].(int) < sts[j][0].(int)
		}
		return sts[i][1].(string) < sts[j][1].(string)
	})
	sort.Slice(jnls, func(i, j int) bool { return jnls[i][0].(uint64) < jnls[j][0].(uint64) })
	mmin, mmax, prev := w.lg.VerifJournalRange()
	return obs{"acct": accts, "code": codes, "st": sts, "jnl": jnls, "min": minH, "max": maxH, "other": other,
		"mmin": mmin, "mmax": mmax, "prev": hex.EncodeToString(prev.Bytes())}
}

func (w *world) getter(o op) obs {
	a := w.addrs[o.A]
	switch o.O {
	case "getbal":
		return obs{"z": w.lg.GetBalance(a).String()}
	case "getnonce":
		return obs{"n": w.lg.GetNonce(a)}
	case "getcode":
		return obs{"b": hexOrNil(w.lg.GetCode(a))}
	case "get":
		ok, v := w.lg.GetState(a, optBytes(o.K))
		return obs{"e": ok, "b": hexOrNil(v)}
	case "getcommitted":
		return obs{"b": hexOrNil(w.lg.GetCommittedState(a, optBytes(o.K)))}
	}
	return nil
}

func (w *world) step(o op) (out obs) {
	defer func() {
		if r := recover(); r != nil {
			out = obs{"r": "panic"}
		}
	}()
	if g := w.getter(o); g != nil {
		return g
	}
	var a *types.Address
	if o.A >= 0 && o.A < len(w.addrs) {
		a = w.addrs[o.A]
	}
	switch o.O {
	case "query":
		ok, vs := w.lg.QueryByPrefix(a, string(optBytes(o.K)))
		// canonicalise only what Go leaves unordered: nil before empty among Compare-equal values
		sort.SliceStable(vs, func(i, j int) bool {
			c := strings.Compare(string(vs[i]), string(vs[j]))
			if c != 0 {
				return c < 0
			}
			return vs[i] == nil && vs[j] != nil
		})
		l := make([]interface{}, 0, len(vs))
		for _, v := range vs {
			l = append(l, hexOrNil(v))
		}
		return obs{"e": ok, "l": l}
	case "setbal":
		z, ok := new(big.Int).SetString(o.Z, 10)
		if !ok {
			panic("bad balance")
		}
		w.lg.SetBalance(a, z)
	case "suicide":
		// EVM SELFDESTRUCT as the EVM state accessor issues it (SuisideEVM -> Suiside).  Suiside dereferences the
		// account without creating it; for an address the ledger does not know (no SELFDESTRUCT can come from
		// there) the driver performs the only effect Suiside has as coded, SetBalance(0)
		if w.lg.GetAccount(a) == nil {
			w.lg.SetBalance(a, new(big.Int))
		} else {
			w.lg.Suiside(a)
		}
	case "addbal":
		z, ok := new(big.Int).SetString(o.Z, 10)
		if !ok {
			panic("bad amount")
		}
		w.lg.AddBalance(a, z)
	case "setnonce":
		w.lg.SetNonce(a, o.N)
	case "setcode":
		w.lg.SetCode(a, optBytes(o.V))
	case "set":
		w.lg.SetState(a, optBytes(o.K), optBytes(o.V), nil)
	case "add":
		w.lg.AddState(a, optBytes(o.K), optBytes(o.V))
	case "snap":
		return obs{"n": w.lg.Snapshot()}
	case "revert":
		w.lg.RevertToSnapshot(int(o.N))
		return obs{"r": "ok"}
	case "finalise":
		w.lg.Finalise(true)
	case "clear":
		w.lg.Clear()
	case "flush":
		acs, root := w.lg.FlushDirtyData()
		w.lastAc, w.lastRt = acs, root
		var dirty []int
		for _, ac := range acs {
			dirty = append(dirty, w.addrIndex(ac.GetAddress().Bytes()))
		}
		sort.Ints(dirty)
		if dirty == nil {
			dirty = []int{}
		}
		return obs{"root": hex.EncodeToString(root.Bytes()), "dirty": dirty}
	case "commit":
		if w.lastRt == nil {
			// nothing was ever flushed: Commit would dereference a nil root
			return obs{"r": "nojournal"}
		}
		if w.full {
			meta := w.st.CL.GetChainMeta()
			blocks, _ := w.st.BF.Blocks()
			if o.N != meta.Height+1 || blocks != meta.Height {
				// PersistBlockData panics in its goroutines on an out-of-order block: not attempted
				return obs{"r": "err"}
			}
			blk, rcs, im, _ := clx.Seal(w.tbl, w.stepNo, o.N, meta.BlockHash, w.lastRt, []int{w.stepNo}, -1, nil, 0, 0)
			w.st.Ledger.PersistBlockData(&ledger.BlockData{Block: blk, Receipts: rcs, Accounts: w.lastAc, InterchainMeta: im})
			return obs{"r": "ok"}
		}
		err := w.lg.Commit(o.N, w.lastAc, w.lastRt)
		return obs{"r": errEnum(err)}
	case "rollback":
		if w.full {
			return obs{"r": fullErrEnum(w.st.Ledger.Rollback(o.N))}
		}
		err := w.lg.RollbackState(o.N)
		return obs{"r": errEnum(err)}
	case "version":
		return obs{"n": w.lg.Version()}
	case "reopen":
		w.close()
		w.lastAc, w.lastRt = nil, nil
		if err := w.open(); err != nil {
			return obs{"r": "err"}
		}
		return obs{"r": "ok"}
	case "evict":
		w.lg.VerifEvict(a, int(o.N), string(optBytes(o.K)))
	case "dbdump":
		return w.dbdump()
	case "dump":
		// every getter over the universe, then Clear (the getters load account objects)
		var l []interface{}
		for i := range w.addrs {
			l = append(l, w.getter(op{O: "getbal", A: i}), w.getter(op{O: "getnonce", A: i}), w.getter(op{O: "getcode", A: i}))
			for _, k := range w.keys {
				ks := hex.EncodeToString(k)
				l = append(l, w.getter(op{O: "get", A: i, K: &ks}))
			}
		}
		w.lg.Clear()
		return obs{"l": l}
	default:
		return obs{"r": "badop"}
	}
	return obs{}
}

// nopCloser replaces the store handle of an abandoned (hung) ledger instance.
type nopCloser struct{ storage.Storage }

func (nopCloser) Close() error { return nil }

func runHistory(h history) (interface{}, error) {
	dir, err := os.MkdirTemp("", "verif-ledger-")
	if err != nil {
		return nil, err
	}
	defer os.RemoveAll(dir)
	w := &world{dir: dir, full: h.Full, tbl: clx.NewTables(), hid: map[string]uint64{}}
	for _, s := range h.Addrs {
		w.addrs = append(w.addrs, types.NewAddress(unhex(s)))
	}
	for _, s := range h.Keys {
		w.keys = append(w.keys, unhex(s))
	}
	if err := w.open(); err != nil {
		return nil, err
	}
	defer func() { w.close() }()
	strs := make([]string, 0, len(w.addrs))
	for _, a := range w.addrs {
		strs = append(strs, hex.EncodeToString([]byte(a.String())))
	}
	kec := [][]string{}
	for _, c := range h.Codes {
		kec = append(kec, []string{c, hex.EncodeToString(crypto.Keccak256Hash(unhex(c)).Bytes())})
	}
	out := make([]obs, 0, len(h.Ops))
	var chain0 []uint64
	if w.full {
		chain0 = w.chainObs()
	}
	hung := false
	for _, o := range h.Ops {
		if hung {
			out = append(out, obs{"r": "dead"})
			continue
		}
		// a revert that has to re-create an account object deadlocks on the changer's lock:
		// every step runs under a watchdog; after a hang the ledger instance is abandoned
		done := make(chan obs, 1)
		w.stepNo++
		go func(o op) {
			r := w.step(o)
			if w.full && r["r"] != "badop" {
				r["chain"] = w.chainObs()
			}
			done <- r
		}(o)
		select {
		case r := <-done:
			out = append(out, r)
			if o.O == "reopen" && r["r"] == "err" {
				hung = true // no usable ledger instance any more
			}
		case <-time.After(5 * time.Second):
			out = append(out, obs{"r": "hang"})
			hung = true
		}
	}
	if hung {
		w.ldb = nopCloser{}
		w.dead = true
	}
	if w.full {
		return obs{"strs": strs, "kec": kec, "obs": out, "chain0": chain0}, nil
	}
	return obs{"strs": strs, "kec": kec, "obs": out}, nil
}

// safeRun turns a malformed header (bad hex in the universe) into a rejected line
func safeRun(h history) (res interface{}, err error) {
	defer func() {
		if r := recover(); r != nil {
			res, err = obs{"bad": true}, nil
		}
	}()
	return runHistory(h)
}

func main() {
	cmds := map[string]func(args []string) error{}
	cmds["ledger"] = func(args []string) error {
		return hx.Lines(func(line []byte) (interface{}, error) {
			var h history
			if err := json.Unmarshal(line, &h); err != nil {
				return obs{"bad": true}, nil
			}
			return safeRun(h)
		})
	}
	cmds["merkle"] = func(args []string) error {
		return hx.Lines(func(line []byte) (interface{}, error) {
			var in struct {
				Leaves []string `json:"leaves"`
			}
			if err := json.Unmarshal(line, &in); err != nil {
				return obs{"bad": true}, nil
			}
			ls := make([]*types.Hash, 0, len(in.Leaves))
			for _, s := range in.Leaves {
				b := unhex(s)
				if len(b) != 32 {
					return obs{"bad": true}, nil
				}
				ls = append(ls, types.NewHash(b))
			}
			r, err := executor.VerifCalcMerkleRoot(ls)
			if err != nil {
				return obs{"err": true}, nil
			}
			return obs{"err": false, "root": hex.EncodeToString(r.Bytes())}, nil
		})
	}
	cmds["sha"] = func(args []string) error {
		return hx.Lines(func(line []byte) (interface{}, error) {
			var in struct {
				M string `json:"m"`
			}
			if err := json.Unmarshal(line, &in); err != nil {
				return obs{"bad": true}, nil
			}
			s := sha256.Sum256(unhex(in.M))
			return obs{"h": hex.EncodeToString(s[:])}, nil
		})
	}
	_ = fmt.Sprint
	hx.Main(cmds)
}
