// Driver "lifecycle" (property C16): governed histories on the real relay-chain stack, and
// the exhaustive differential test of the object state machines against the real library.
//
//	lifecycle   stdin: one history per line {"ops":[[code,args...],...]}
//	            stdout: one line per history {"steps":[{"ok":..,"out":..,"chains":..,"svcs":..,"rules":..,"roles":..,"props":..,"cache":..}, ...]}
//	fsm         no input; prints the result of every (kind, status, event, lastStatus) through the real
//	            ChangeStatus / Manage code and every (kind, event, status) through GovernancePre
//
// Op codes (integers only): 0 regchain c | 1 chainop ev c | 2 regsvc c i [black] | 3 svcop ev i [black] |
// 4 svcblack i [black] | 5 rulereg c r | 6 rulelogout c r | 7 ruleupdate c r | 8 rolereg r | 9 roleop ev r |
// 10 conclude k approve (k-th newest proposed proposal) | 11 withdraw k (k-th newest proposed/paused) | 12 ibtp src dst | 13 restart ; ev: 0 update 1 freeze 2 activate 3 logout.
// Appchain c is "chain<c>" (admin Key(100+c), type Fabric V1.4.3 so that three default rules exist), service i
// belongs to chain i/10 and is "chain<c>:svc<i>", rule 0/1/2 = happy/fabric/simfabric rule, rule r>=3 a custom
// rule address whose code is seeded, role r = governance admin account Key(200+r).  Every object is created
// through the real register -> proposal -> vote -> Manage flow; "conclude" lets the three genesis super
// admins vote until the proposal is closed.
package main

import (
	"crypto/sha256"
	"encoding/json"
	"fmt"
	"os"
	"sort"
	"strconv"
	"strings"
	"time"

	appchainmgr "github.com/meshplus/bitxhub-core/appchain-mgr"
	"github.com/meshplus/bitxhub-core/boltvm"
	"github.com/meshplus/bitxhub-core/governance"
	nodemgr "github.com/meshplus/bitxhub-core/node-mgr"
	rulemgr "github.com/meshplus/bitxhub-core/rule-mgr"
	servicemgr "github.com/meshplus/bitxhub-core/service-mgr"
	"github.com/meshplus/bitxhub-core/validator"
	"github.com/meshplus/bitxhub-kit/crypto"
	"github.com/meshplus/bitxhub-kit/types"
	"github.com/meshplus/bitxhub-model/constant"
	"github.com/meshplus/bitxhub-model/pb"
	"github.com/meshplus/bitxhub/internal/executor/contracts"
	"github.com/meshplus/bitxhub/internal/repo"
	"github.com/meshplus/bitxhub/verifharness/hx"
	"github.com/sirupsen/logrus"
)

type histIn struct {
	Ops   [][]json.RawMessage `json:"ops"`
	Audit bool                `json:"audit"`
}

type stepOut struct {
	Ok     bool            `json:"ok"`
	Out    int             `json:"out"`
	Err    string          `json:"err,omitempty"`
	Chains [][]interface{} `json:"chains"` // [c, status]
	Svcs   [][]interface{} `json:"svcs"`   // [i, chain, status, [black], reg]
	Rules  [][]interface{} `json:"rules"`  // [c, [[r, status, master], ...]]
	Roles  [][]interface{} `json:"roles"`  // [r, status]
	Props  []int           `json:"props"`  // status code per proposal in creation order
	Cache  [][]interface{} `json:"cache"`  // [i, chain, status, [black]]
}

type world struct {
	c        *hx.Chain
	nonce    map[string]uint64
	keys     map[string]crypto.PrivateKey
	props    []string // proposal ids in creation order
	propFrom []string // who submitted
	ibtpCnt  map[string]uint64
	chainsOf map[int]bool
	svcsOf   map[int]bool
	rolesOf  map[int]bool
	ver      int
	bxh      string
	batching   bool
	batch      []pb.Transaction
	batchLocal []bool
	queued     chan bool
	release    chan bool
}

func ruleAddr(r int) string {
	switch r {
	case 0:
		return validator.HappyRuleAddr
	case 1:
		return validator.FabricRuleAddr
	case 2:
		return validator.SimFabricRuleAddr
	}
	return "0x" + strings.Repeat("0", 37) + fmt.Sprintf("c%02d", r)
}

func ruleID(addr string) int {
	for r := 0; r < 10; r++ {
		if strings.EqualFold(ruleAddr(r), addr) {
			return r
		}
	}
	return 99
}

func (w *world) key(name string) crypto.PrivateKey {
	if k, ok := w.keys[name]; ok {
		return k
	}
	var k crypto.PrivateKey
	switch {
	case strings.HasPrefix(name, "gov"):
		n, _ := strconv.Atoi(name[3:])
		k = w.c.Admins[n]
	case strings.HasPrefix(name, "adm"):
		n, _ := strconv.Atoi(name[3:])
		k = hx.Key(100 + n)
	case strings.HasPrefix(name, "role"):
		n, _ := strconv.Atoi(name[4:])
		k = hx.Key(200 + n)
	default:
		k = hx.Key(1)
	}
	w.keys[name] = k
	return k
}

func (w *world) addr(name string) string { return hx.Addr(w.key(name)).String() }

// submit executes one transaction in a block of its own - or, while a packed block is being assembled
// (w.batching), hands it to the assembler and waits until the whole block has been executed.  Every
// operation runs in its own goroutine then; only one of them is ever runnable.
func (w *world) submit(tx pb.Transaction, local bool) *pb.Receipt {
	if w.batching {
		w.batch = append(w.batch, tx)
		w.batchLocal = append(w.batchLocal, local)
		rel := w.release
		w.queued <- true // tell the assembler this operation has queued its transaction
		<-rel            // ... and wait for the block (every operation has a release channel of its own)
	} else {
		block := w.c.ExecBlock([]pb.Transaction{tx}, local, 20*time.Second)
		if block == nil {
			return nil
		}
	}
	r, err := w.c.Ledger.GetReceipt(tx.GetHash())
	if err != nil {
		return nil
	}
	return r
}

func (w *world) exec(from string, to *types.Address, method string, args ...*pb.Arg) *pb.Receipt {
	n := w.nonce[from]
	w.nonce[from] = n + 1
	tx := hx.BvmTx(w.key(from), n, to, method, args...)
	return w.submit(tx, true)
}

type govRet struct {
	ProposalID string `json:"proposal_id"`
	Extra      []byte `json:"extra"`
}

// submitted records the proposal created by a successful governance call.
func (w *world) submitted(from string, r *pb.Receipt) bool {
	if r == nil || r.Status != pb.Receipt_SUCCESS {
		return false
	}
	var g govRet
	if err := json.Unmarshal(r.Ret, &g); err == nil && g.ProposalID != "" {
		w.props = append(w.props, g.ProposalID)
		w.propFrom = append(w.propFrom, from)
	}
	return true
}

func chainName(c int) string { return fmt.Sprintf("chain%d", c) }

// service ids: "svc<i>" - except the ids 10c+8 and 10c+9, which are one contract-address-like id in its checksum
// spelling and in lower case: two DIFFERENT services whose ids differ only in the case of their letters
const caseID = "0xAbCdEf0123456789aBcDeF0123456789AbCdEf01"

func sid(i int) string {
	switch i % 10 {
	case 8:
		return caseID
	case 9:
		return strings.ToLower(caseID)
	}
	return fmt.Sprintf("svc%d", i)
}

// sidNum is the inverse of sid for a service of chain "chain<c>" (exact spelling; -1 = not one of ours)
func sidNum(chain, s string) int {
	if strings.HasPrefix(s, "svc") {
		n, err := strconv.Atoi(s[3:])
		if err != nil {
			return -1
		}
		return n
	}
	if !strings.HasPrefix(chain, "chain") {
		return -1
	}
	c, err := strconv.Atoi(chain[5:])
	if err != nil {
		return -1
	}
	if s == caseID {
		return c*10 + 8
	}
	if s == strings.ToLower(caseID) {
		return c*10 + 9
	}
	return -1
}
func svcName(i int) string { return fmt.Sprintf("chain%d:%s", i/10, sid(i)) }
func (w *world) full(i int) string {
	return w.bxh + ":" + svcName(i)
}

func ints(raw json.RawMessage) []int {
	var xs []int
	_ = json.Unmarshal(raw, &xs)
	return xs
}

func num(raw json.RawMessage) int {
	var x int
	_ = json.Unmarshal(raw, &x)
	return x
}

func (w *world) permits(black []int) string {
	var ps []string
	for _, b := range black {
		ps = append(ps, w.full(b))
	}
	return strings.Join(ps, ",")
}

var evName = []string{"update", "freeze", "activate", "logout"}

func (w *world) proposalStatus(id string) (contracts.ProposalStatus, bool) {
	ok, ret := w.c.View(constant.GovernanceContractAddr.Address(), "GetProposal", pb.String(id))
	if !ok {
		return "", false
	}
	var p contracts.Proposal
	if json.Unmarshal(ret, &p) != nil {
		return "", false
	}
	return p.Status, true
}

func (w *world) serviceInfo(i int) *servicemgr.Service {
	ok, ret := w.c.View(constant.ServiceMgrContractAddr.Address(), "GetServiceInfo", pb.String(svcName(i)))
	if !ok {
		return nil
	}
	s := &servicemgr.Service{}
	if json.Unmarshal(ret, s) != nil {
		return nil
	}
	return s
}

func (w *world) doOp(op []json.RawMessage) (ok bool, out int, errText string) {
	out = 9
	code := num(op[0])
	am := constant.AppchainMgrContractAddr.Address()
	sm := constant.ServiceMgrContractAddr.Address()
	rm := constant.RuleManagerContractAddr.Address()
	ro := constant.RoleContractAddr.Address()
	gv := constant.GovernanceContractAddr.Address()
	fin := func(from string, r *pb.Receipt) (bool, int, string) {
		if r == nil {
			return false, 9, "no receipt"
		}
		if w.submitted(from, r) {
			return true, 9, ""
		}
		return false, 9, string(r.Ret)
	}
	switch code {
	case 0: // regchain c
		c := num(op[1])
		w.chainsOf[c] = true
		adm := fmt.Sprintf("adm%d", c)
		broker := `{"channel_id":"ch","chaincode_id":"cc","broker_version":"1"}`
		r := w.exec(adm, am, "RegisterAppchain", pb.String(chainName(c)), pb.String("name-"+chainName(c)), pb.Bytes([]byte("pk")),
			pb.String(appchainmgr.ChainTypeFabric1_4_3), pb.Bytes([]byte("trustroot")), pb.String(broker), pb.String("desc"),
			pb.String(validator.HappyRuleAddr), pb.String(""), pb.String(w.addr(adm)), pb.String("reason"))
		return fin(adm, r)
	case 1: // chainop ev c
		ev, c := num(op[1]), num(op[2])
		w.chainsOf[c] = true
		adm := fmt.Sprintf("adm%d", c)
		switch ev {
		case 0:
			w.ver++
			r := w.exec(adm, am, "UpdateAppchain", pb.String(chainName(c)), pb.String(fmt.Sprintf("name-%s-v%d", chainName(c), w.ver)), pb.String("desc"),
				pb.Bytes([]byte("trustroot")), pb.String(w.addr(adm)), pb.String("reason"))
			return fin(adm, r)
		case 1:
			return fin("gov0", w.exec("gov0", am, "FreezeAppchain", pb.String(chainName(c)), pb.String("reason")))
		case 2:
			return fin(adm, w.exec(adm, am, "ActivateAppchain", pb.String(chainName(c)), pb.String("reason")))
		default:
			return fin(adm, w.exec(adm, am, "LogoutAppchain", pb.String(chainName(c)), pb.String("reason")))
		}
	case 2: // regsvc c i black
		c, i, black := num(op[1]), num(op[2]), ints(op[3])
		w.svcsOf[i] = true
		adm := fmt.Sprintf("adm%d", c)
		r := w.exec(adm, sm, "RegisterService", pb.String(chainName(c)), pb.String(sid(i)), pb.String(fmt.Sprintf("name-svc%d", i)),
			pb.String("CallContract"), pb.String("intro"), pb.Uint64(1), pb.String(w.permits(black)), pb.String("details"), pb.String("reason"))
		return fin(adm, r)
	case 3: // svcop ev i black
		ev, i, black := num(op[1]), num(op[2]), ints(op[3])
		w.svcsOf[i] = true
		adm := fmt.Sprintf("adm%d", i/10)
		switch ev {
		case 0:
			w.ver++
			details := "details"
			if s := w.serviceInfo(i); s != nil {
				details = s.Details
			}
			r := w.exec(adm, sm, "UpdateService", pb.String(svcName(i)), pb.String(fmt.Sprintf("name-svc%d-v%d", i, w.ver)), pb.String("intro"),
				pb.String(w.permits(black)), pb.String(details), pb.String("reason"))
			return fin(adm, r)
		case 1:
			return fin("gov0", w.exec("gov0", sm, "FreezeService", pb.String(svcName(i)), pb.String("reason")))
		case 2:
			return fin(adm, w.exec(adm, sm, "ActivateService", pb.String(svcName(i)), pb.String("reason")))
		default:
			return fin(adm, w.exec(adm, sm, "LogoutService", pb.String(svcName(i)), pb.String("reason")))
		}
	case 4: // svcblack i black : permission-only update, no proposal
		i, black := num(op[1]), ints(op[2])
		w.svcsOf[i] = true
		adm := fmt.Sprintf("adm%d", i/10)
		name, details := fmt.Sprintf("name-svc%d", i), "details"
		if s := w.serviceInfo(i); s != nil {
			name, details = s.Name, s.Details
		}
		r := w.exec(adm, sm, "UpdateService", pb.String(svcName(i)), pb.String(name), pb.String("intro"), pb.String(w.permits(black)), pb.String(details), pb.String("reason"))
		return fin(adm, r)
	case 5, 6, 7: // rule ops
		c, rr := num(op[1]), num(op[2])
		w.chainsOf[c] = true
		adm := fmt.Sprintf("adm%d", c)
		switch code {
		case 5:
			return fin(adm, w.exec(adm, rm, "RegisterRule", pb.String(chainName(c)), pb.String(ruleAddr(rr)), pb.String("http://rule")))
		case 6:
			return fin(adm, w.exec(adm, rm, "LogoutRule", pb.String(chainName(c)), pb.String(ruleAddr(rr))))
		default:
			return fin(adm, w.exec(adm, rm, "UpdateMasterRule", pb.String(chainName(c)), pb.String(ruleAddr(rr)), pb.String("reason")))
		}
	case 8: // rolereg r
		r := num(op[1])
		w.rolesOf[r] = true
		return fin("gov0", w.exec("gov0", ro, "RegisterRole", pb.String(w.addr(fmt.Sprintf("role%d", r))), pb.String("governanceAdmin"), pb.String(""), pb.String("reason")))
	case 9: // roleop ev r
		ev, r := num(op[1]), num(op[2])
		w.rolesOf[r] = true
		m := map[int]string{1: "FreezeRole", 2: "ActivateRole", 3: "LogoutRole"}[ev]
		if m == "" {
			return false, 9, "bad role event"
		}
		return fin("gov0", w.exec("gov0", ro, m, pb.String(w.addr(fmt.Sprintf("role%d", r))), pb.String("reason")))
	case 15: // rolevote r k approve : the account of role r casts ONE ballot on the k-th newest open proposal - sent only
		// while the LIVE role record does not say "available governance admin" (a former / suspended admin, or an account
		// that never was one); such a ballot must be refused
		r, k := num(op[1]), num(op[2])
		var approve bool
		_ = json.Unmarshal(op[3], &approve)
		w.rolesOf[r] = true
		name := fmt.Sprintf("role%d", r)
		if ok, ret := w.c.View(ro, "GetRoleInfoById", pb.String(w.addr(name))); ok {
			role := &contracts.Role{}
			_ = json.Unmarshal(ret, role)
			if role.Status == governance.GovernanceAvailable || role.Status == governance.GovernanceFreezing {
				return false, 9, "role is available: ballot not sent"
			}
		}
		pid := w.nthOpen(k, false)
		if pid < 0 {
			return false, 9, "no such proposal"
		}
		ballot := "reject"
		if approve {
			ballot = "approve"
		}
		rc := w.exec(name, gv, "Vote", pb.String(w.props[pid]), pb.String(ballot), pb.String("r"))
		if rc == nil {
			return false, 9, "no receipt"
		}
		if rc.Status == pb.Receipt_SUCCESS {
			return true, 9, "ballot of an unavailable admin accepted"
		}
		return false, 9, string(rc.Ret)
	case 10: // conclude pid approve
		var approve bool
		_ = json.Unmarshal(op[2], &approve)
		pid := w.nthOpen(num(op[1]), false)
		if pid < 0 {
			return false, 9, "no such proposal"
		}
		id := w.props[pid]
		ballot := "reject"
		if approve {
			ballot = "approve"
		}
		st, okp := w.proposalStatus(id)
		if !okp || st != contracts.PROPOSED {
			// one vote, to observe the refusal
			r := w.exec("gov0", gv, "Vote", pb.String(id), pb.String(ballot), pb.String("r"))
			if r != nil && r.Status == pb.Receipt_SUCCESS {
				return true, 9, "vote on a closed proposal succeeded"
			}
			return false, 9, "proposal not open"
		}
		last := ""
		for g := 0; g < len(w.c.Admins); g++ {
			final := w.voteIsFinal(id, fmt.Sprintf("gov%d", g), approve)
			var r *pb.Receipt
			if w.batching && !final {
				// only the deciding vote belongs to the packed block
				w.batching = false
				r = w.exec(fmt.Sprintf("gov%d", g), gv, "Vote", pb.String(id), pb.String(ballot), pb.String("r"))
				w.batching = true
			} else {
				r = w.exec(fmt.Sprintf("gov%d", g), gv, "Vote", pb.String(id), pb.String(ballot), pb.String("r"))
			}
			if r == nil {
				return false, 9, "no receipt"
			}
			if r.Status != pb.Receipt_SUCCESS {
				last = string(r.Ret)
				if strings.Contains(last, "has voted") {
					continue // ballot recorded by an earlier attempt whose final vote failed
				}
				return false, 9, last
			}
			if st, _ := w.proposalStatus(id); st != contracts.PROPOSED {
				want := contracts.REJECTED
				if approve {
					want = contracts.APPROVED
				}
				if st != want {
					return true, 8, "closed with the opposite result" // ballots of an earlier failed attempt: reported as out=8
				}
				return true, 9, ""
			}
		}
		return false, 9, "not decided: " + last
	case 11: // withdraw pid
		pid := w.nthOpen(num(op[1]), true)
		if pid < 0 {
			return false, 9, "no such proposal"
		}
		r := w.exec(w.propFrom[pid], gv, "WithdrawProposal", pb.String(w.props[pid]), pb.String("reason"))
		if r == nil {
			return false, 9, "no receipt"
		}
		return r.Status == pb.Receipt_SUCCESS, 9, string(r.Ret)
	case 12: // ibtp src dst
		src, dst := num(op[1]), num(op[2])
		w.svcsOf[src], w.svcsOf[dst] = true, true
		k := fmt.Sprintf("%d-%d", src, dst)
		idx := w.ibtpCnt[k] + 1
		proof := []byte(fmt.Sprintf("proof-%s-%d", k, idx))
		ph := sha256.Sum256(proof)
		ib := &pb.IBTP{From: w.full(src), To: w.full(dst), Index: idx, Type: pb.IBTP_INTERCHAIN, TimeoutHeight: 100000, Proof: ph[:]}
		n := w.nonce["out"]
		w.nonce["out"] = n + 1
		tx := hx.IBTPTx(w.key("out"), n, ib, proof)
		r := w.submit(tx, false)
		if r == nil {
			return false, 4, "no receipt"
		}
		ret := string(r.Ret)
		if r.Status == pb.Receipt_SUCCESS {
			w.ibtpCnt[k] = idx
			st := w.txStatus(fmt.Sprintf("%s-%s-%d", ib.From, ib.To, idx))
			switch {
			case r.TxStatus == pb.TransactionStatus_BEGIN_FAILURE && st == 1:
				return true, 1, ""
			case r.TxStatus == pb.TransactionStatus_BEGIN && st == 0:
				return true, 0, ""
			}
			return true, 4, fmt.Sprintf("receipt txstatus %v, stored status %d, ret %s", r.TxStatus, st, ret)
		}
		low := strings.ToLower(ret)
		switch {
		case strings.Contains(low, "proof"), strings.Contains(low, "cannot get registered appchain"), strings.Contains(low, "bind rule"):
			return true, 3, ""
		case strings.Contains(low, "source service") && strings.Contains(low, "not available"):
			return true, 2, ""
		}
		return true, 4, ret
	case 13:
		if err := w.c.Restart(); err != nil {
			return false, 9, err.Error()
		}
		return true, 9, ""
	}
	return false, 9, "unknown op"
}

// voteIsFinal predicts whether the ballot of this admin closes the proposal (repo.MakeStrategyDecision on the
// proposal as stored plus this ballot); an admin who voted already does not count.
func (w *world) voteIsFinal(id, who string, approve bool) bool {
	ok, ret := w.c.View(constant.GovernanceContractAddr.Address(), "GetProposal", pb.String(id))
	if !ok {
		return true
	}
	var p contracts.Proposal
	if json.Unmarshal(ret, &p) != nil {
		return true
	}
	if _, voted := p.BallotMap[w.addr(who)]; voted {
		return false
	}
	a, r := p.ApproveNum, p.AgainstNum
	if approve {
		a++
	} else {
		r++
	}
	end, _, err := repo.MakeStrategyDecision(p.StrategyExpression, a, r, p.InitialElectorateNum, p.AvailableElectorateNum)
	return err != nil || end
}

// nthOpen: index of the k-th newest proposal that is proposed (or proposed/paused), -1 if none
func (w *world) nthOpen(k int, pausedToo bool) int {
	for i := len(w.props) - 1; i >= 0; i-- {
		st, ok := w.proposalStatus(w.props[i])
		if ok && (st == contracts.PROPOSED || (pausedToo && st == contracts.PAUSED)) {
			if k == 0 {
				return i
			}
			k--
		}
	}
	return -1
}

func (w *world) txStatus(id string) int {
	ok, ret := w.c.View(constant.TransactionMgrContractAddr.Address(), "GetStatus", pb.String(id))
	if !ok {
		return -1
	}
	n, err := strconv.Atoi(string(ret))
	if err != nil {
		return -1
	}
	return n
}

func (w *world) blackIDs(perm map[string]struct{}) []int {
	out := []int{}
	for p := range perm {
		parts := strings.Split(p, ":")
		if len(parts) == 3 && sidNum(parts[1], parts[2]) >= 0 {
			out = append(out, sidNum(parts[1], parts[2]))
		} else {
			out = append(out, -1)
		}
	}
	sort.Ints(out)
	return out
}

type cacheReader interface{ VerifServiceCache() map[string][]byte }

func sortedKeys(m map[int]bool) []int {
	ks := make([]int, 0, len(m))
	for k := range m {
		ks = append(ks, k)
	}
	sort.Ints(ks)
	return ks
}

var pstatusCode = map[contracts.ProposalStatus]int{contracts.PROPOSED: 0, contracts.PAUSED: 1, contracts.APPROVED: 2, contracts.REJECTED: 3}

func (w *world) observe(o *stepOut) {
	o.Chains, o.Svcs, o.Rules, o.Roles, o.Cache = [][]interface{}{}, [][]interface{}{}, [][]interface{}{}, [][]interface{}{}, [][]interface{}{}
	o.Props = []int{}
	for _, c := range sortedKeys(w.chainsOf) {
		ok, ret := w.c.View(constant.AppchainMgrContractAddr.Address(), "GetAppchain", pb.String(chainName(c)))
		if ok {
			a := &appchainmgr.Appchain{}
			_ = json.Unmarshal(ret, a)
			o.Chains = append(o.Chains, []interface{}{c, string(a.Status)})
		}
		ok, ret = w.c.View(constant.RuleManagerContractAddr.Address(), "Rules", pb.String(chainName(c)))
		if ok {
			var rs []*rulemgr.Rule
			_ = json.Unmarshal(ret, &rs)
			if len(rs) > 0 {
				lst := [][]interface{}{}
				for _, r := range rs {
					lst = append(lst, []interface{}{ruleID(r.Address), string(r.Status), r.Master})
				}
				o.Rules = append(o.Rules, []interface{}{c, lst})
			}
		}
	}
	regs := map[int]bool{}
	for _, c := range sortedKeys(w.chainsOf) {
		ok, ret := w.c.View(constant.ServiceMgrContractAddr.Address(), "GetServicesByAppchainID", pb.String(chainName(c)))
		if ok {
			var ss []*servicemgr.Service
			_ = json.Unmarshal(ret, &ss)
			for _, s := range ss {
				if n := sidNum(chainName(c), s.ServiceID); n >= 0 {
					regs[n] = true
				}
			}
		}
	}
	for _, i := range sortedKeys(w.svcsOf) {
		if s := w.serviceInfo(i); s != nil {
			c := -1
			if strings.HasPrefix(s.ChainID, "chain") {
				c, _ = strconv.Atoi(s.ChainID[5:])
			}
			o.Svcs = append(o.Svcs, []interface{}{i, c, string(s.Status), w.blackIDs(s.Permission), regs[i]})
		}
	}
	for _, r := range sortedKeys(w.rolesOf) {
		ok, ret := w.c.View(constant.RoleContractAddr.Address(), "GetRoleInfoById", pb.String(w.addr(fmt.Sprintf("role%d", r))))
		if ok {
			role := &contracts.Role{}
			_ = json.Unmarshal(ret, role)
			o.Roles = append(o.Roles, []interface{}{r, string(role.Status)})
		}
	}
	for _, id := range w.props {
		st, ok := w.proposalStatus(id)
		code, known := pstatusCode[st]
		if !ok || !known {
			code = 9
		}
		o.Props = append(o.Props, code)
	}
	if cr, ok := interface{}(w.c.Exec).(cacheReader); ok {
		m := cr.VerifServiceCache()
		ids := []int{}
		recs := map[int]*servicemgr.Service{}
		for k, v := range m {
			s := &servicemgr.Service{}
			if json.Unmarshal(v, s) != nil {
				continue
			}
			parts := strings.Split(k, ":")
			n := -1
			if len(parts) == 2 {
				n = sidNum(parts[0], parts[1]) // the KEY as the executor spells it, not the id inside the record
			}
			ids = append(ids, n)
			recs[n] = s
		}
		sort.Ints(ids)
		for _, n := range ids {
			s := recs[n]
			c := -1
			if strings.HasPrefix(s.ChainID, "chain") {
				c, _ = strconv.Atoi(s.ChainID[5:])
			}
			o.Cache = append(o.Cache, []interface{}{n, c, string(s.Status), w.blackIDs(s.Permission)})
		}
	} else {
		o.Cache = append(o.Cache, []interface{}{-1, -1, "nohook", []int{}})
	}
}

func runHistory(line []byte) (interface{}, error) {
	var in histIn
	if err := json.Unmarshal(line, &in); err != nil {
		return nil, err
	}
	c, err := hx.NewChain(hx.ChainOpts{NumAdmins: 3, EnableAudit: in.Audit, Quiet: true})
	if err != nil {
		return map[string]interface{}{"setup": err.Error()}, nil
	}
	defer c.Close()
	w := &world{c: c, nonce: map[string]uint64{}, keys: map[string]crypto.PrivateKey{}, ibtpCnt: map[string]uint64{},
		chainsOf: map[int]bool{}, svcsOf: map[int]bool{}, rolesOf: map[int]bool{}, bxh: strconv.FormatUint(c.Opts.ChainID, 10)}
	// seed code for the custom rule addresses (RegisterRule requires a deployed contract)
	for r := 3; r < 6; r++ {
		c.Ledger.SetCode(types.NewAddressByStr(ruleAddr(r)), []byte{0x60, 0x00, 0x60, 0x00, byte(r)})
	}
	c.ExecBlock(nil, true, 20*time.Second)
	steps := []stepOut{}
	runOne := func(op []json.RawMessage) (o stepOut) {
		defer func() {
			if e := recover(); e != nil {
				o.Ok, o.Out, o.Err = false, 7, fmt.Sprintf("driver panic: %v", e)
			}
		}()
		o.Ok, o.Out, o.Err = w.doOp(op)
		return
	}
	for i := 0; i < len(in.Ops); i++ {
		op := in.Ops[i]
		if num(op[0]) != 14 {
			o := runOne(op)
			if len(o.Err) > 160 {
				o.Err = o.Err[:160]
			}
			w.observe(&o)
			steps = append(steps, o)
			continue
		}
		// [14, n]: the next n operations share one block.  Each runs in its own goroutine up to the point where it
		// submits its transaction; then the block is executed and the operations finish in order.
		n := num(op[1])
		if i+n >= len(in.Ops) {
			n = len(in.Ops) - 1 - i
		}
		ops := in.Ops[i+1 : i+1+n]
		i += n
		w.batching, w.batch, w.batchLocal = true, nil, nil
		w.queued = make(chan bool)
		rels := make([]chan bool, len(ops))
		results := make([]chan stepOut, len(ops))
		waiting := 0
		outs := make([]*stepOut, len(ops))
		for k, p := range ops {
			results[k] = make(chan stepOut, 1)
			rels[k] = make(chan bool, 1)
			w.release = rels[k]
			go func(k int, p []json.RawMessage) { results[k] <- runOne(p) }(k, p)
			select {
			case <-w.queued:
				waiting++
			case o := <-results[k]: // finished without submitting anything (refused before any transaction)
				outs[k] = &o
			}
		}
		if len(w.batch) > 0 {
			h := w.c.Height() + 1
			_ = h
			allLocal := true
			for _, l := range w.batchLocal {
				allLocal = allLocal && l
			}
			w.c.ExecBlock(w.batch, allLocal, 30*time.Second)
		}
		w.batching = false
		for k := range ops {
			if outs[k] == nil {
				rels[k] <- true
				o := <-results[k]
				outs[k] = &o
			}
		}
		var last stepOut
		w.observe(&last)
		for k := range ops {
			o := *outs[k]
			if len(o.Err) > 160 {
				o.Err = o.Err[:160]
			}
			o.Chains, o.Svcs, o.Rules, o.Roles, o.Props, o.Cache = last.Chains, last.Svcs, last.Rules, last.Roles, last.Props, last.Cache
			steps = append(steps, o)
		}
	}
	return map[string]interface{}{"setup": "ok", "steps": steps}, nil
}

// ----------------------------------------------------------------------------------------
// exhaustive FSM differential test

type memStore struct {
	m map[string][]byte
}

func (s *memStore) Caller() string              { return "" }
func (s *memStore) Logger() logrus.FieldLogger  { l := logrus.New(); l.SetOutput(nullWriter{}); return l }
func (s *memStore) Has(key string) bool         { _, ok := s.m[key]; return ok }
func (s *memStore) Get(key string) (bool, []byte) { v, ok := s.m[key]; return ok, v }
func (s *memStore) GetObject(key string, ret interface{}) bool {
	v, ok := s.m[key]
	if !ok {
		return false
	}
	return json.Unmarshal(v, ret) == nil
}
func (s *memStore) Set(key string, value []byte) { s.m[key] = value }
func (s *memStore) SetObject(key string, value interface{}) {
	b, err := json.Marshal(value)
	if err != nil {
		panic(err)
	}
	s.m[key] = b
}
func (s *memStore) Delete(key string)                     { delete(s.m, key) }
func (s *memStore) Query(prefix string) (bool, [][]byte)  { return false, nil }
func (s *memStore) GetAccount(address string) interface{} { return nil }

type nullWriter struct{}

func (nullWriter) Write(p []byte) (int, error) { return len(p), nil }

// roleStub implements boltvm.Stub for RoleManager.Manage with CurrentCaller = governance contract.
type roleStub struct{ memStore }

func (s *roleStub) Callee() string                                            { return constant.RoleContractAddr.Address().String() }
func (s *roleStub) CurrentCaller() string                                     { return constant.GovernanceContractAddr.Address().String() }
func (s *roleStub) GetTxHash() *types.Hash                                    { return &types.Hash{} }
func (s *roleStub) GetTxTimeStamp() int64                                     { return 0 }
func (s *roleStub) GetTxIndex() uint64                                        { return 0 }
func (s *roleStub) GetCurrentHeight() uint64                                  { return 1 }
func (s *roleStub) Add(key string, value []byte)                              { s.m[key] = value }
func (s *roleStub) AddObject(key string, value interface{})                   { s.SetObject(key, value) }
func (s *roleStub) PostEvent(pb.Event_EventType, interface{})                 {}
func (s *roleStub) PostInterchainEvent(interface{})                           {}
func (s *roleStub) ValidationEngine() validator.Engine                        { return nil }
func (s *roleStub) CrossInvoke(a, m string, args ...*pb.Arg) *boltvm.Response { return boltvm.Success(nil) }
func (s *roleStub) CrossInvokeEVM(a string, in []byte) *boltvm.Response       { return boltvm.Success(nil) }
func (s *roleStub) EnableAudit() bool                                         { return false }

func fsmTest(args []string) error {
	quick := len(args) > 0 && args[0] == "quick"
	var statuses = []string{"registering", "available", "unavailable", "updating", "freezing", "activating", "frozen", "logouting", "binding",
		"unbinding", "bindable", "binded", "forbidden", "transferring", "pause", "transferred", ""}
	var events = []string{"register", "update", "freeze", "activate", "logout", "approve", "reject", "bind", "unbind", "transfer", "pause", "unpause", "clear", "nosuch"}
	type row struct {
		Kind string      `json:"k"`
		St   string      `json:"s"`
		Ev   string      `json:"e"`
		Last string      `json:"l"`
		Res  interface{} `json:"r"` // new status or null
		Flag []bool      `json:"f,omitempty"`
	}
	type prow struct {
		Kind string `json:"k"`
		Ev   string `json:"e"`
		St   string `json:"s"`
		Ok   bool   `json:"ok"`
	}
	enc := json.NewEncoder(os.Stdout)
	var rows []row
	var prows []prow
	one := func(kind, st, ev, last string, f func(ms *memStore) (bool, string, []bool)) {
		ms := &memStore{m: map[string][]byte{}}
		var res interface{}
		var flags []bool
		func() {
			defer func() {
				if e := recover(); e != nil {
					res = "panic"
				}
			}()
			ok, ns, fl := f(ms)
			flags = fl
			if ok {
				res = ns
			}
		}()
		rows = append(rows, row{kind, st, ev, last, res, flags})
	}
	// lastStatus only matters for the entries whose destination is lastStatus; the quick tier takes a
	// representative subset of its values (every status and every event are always covered)
	lasts := statuses
	if quick {
		lasts = []string{"", "available", "frozen", "pause", "forbidden", "bindable"}
	}
	for _, st := range statuses {
		for _, ev := range events {
			for _, last := range lasts {
				st, ev, last := st, ev, last
				one("appchain", st, ev, last, func(ms *memStore) (bool, string, []bool) {
					ms.SetObject(appchainmgr.AppchainKey("x"), &appchainmgr.Appchain{ID: "x", Status: governance.GovernanceStatus(st)})
					ok, _ := appchainmgr.New(ms).ChangeStatus("x", ev, last, nil)
					a := &appchainmgr.Appchain{}
					ms.GetObject(appchainmgr.AppchainKey("x"), a)
					return ok, string(a.Status), nil
				})
				one("service", st, ev, last, func(ms *memStore) (bool, string, []bool) {
					ms.SetObject(servicemgr.ServiceKey("c:s"), &servicemgr.Service{ChainID: "c", ServiceID: "s", Status: governance.GovernanceStatus(st)})
					ok, _ := servicemgr.New(ms).ChangeStatus("c:s", ev, last, nil)
					a := &servicemgr.Service{}
					ms.GetObject(servicemgr.ServiceKey("c:s"), a)
					return ok, string(a.Status), nil
				})
				one("node", st, ev, last, func(ms *memStore) (bool, string, []bool) {
					ms.SetObject(nodemgr.NodeKey("n"), &nodemgr.Node{Account: "n", NodeType: nodemgr.VPNode, Status: governance.GovernanceStatus(st)})
					ok, _ := nodemgr.New(ms).ChangeStatus("n", ev, last, nil)
					a := &nodemgr.Node{}
					ms.GetObject(nodemgr.NodeKey("n"), a)
					return ok, string(a.Status), nil
				})
				for _, def := range []bool{false, true} {
					for _, master := range []bool{false, true} {
						def, master := def, master
						one("rule", st, ev, last, func(ms *memStore) (bool, string, []bool) {
							ms.SetObject(rulemgr.RuleKey("c"), []*rulemgr.Rule{{Address: "r", ChainID: "c", Master: master, Default: def, Status: governance.GovernanceStatus(st)}})
							ok, _ := rulemgr.New(ms).ChangeStatus("r", ev, last, []byte("c"))
							var rs []*rulemgr.Rule
							ms.GetObject(rulemgr.RuleKey("c"), &rs)
							return ok, string(rs[0].Status), []bool{def, master, rs[0].Master}
						})
					}
				}
				one("role", st, ev, last, func(ms *memStore) (bool, string, []bool) {
					rs := &roleStub{memStore{m: ms.m}}
					rs.SetObject(contracts.RoleKey("x"), &contracts.Role{ID: "x", Status: governance.GovernanceStatus(st)})
					rmgr := &contracts.RoleManager{Stub: rs}
					res := rmgr.Manage("freeze", ev, last, "x", nil)
					a := &contracts.Role{}
					rs.GetObject(contracts.RoleKey("x"), a)
					return res.Ok, string(a.Status), nil
				})
			}
		}
	}
	for _, ev := range events {
		for _, st := range statuses {
			ms := &memStore{m: map[string][]byte{}}
			ms.SetObject(appchainmgr.AppchainKey("x"), &appchainmgr.Appchain{ID: "x", Status: governance.GovernanceStatus(st)})
			_, be := appchainmgr.New(ms).GovernancePre("x", governance.EventType(ev), nil)
			prows = append(prows, prow{"appchain", ev, st, be == nil})
			ms = &memStore{m: map[string][]byte{}}
			ms.SetObject(servicemgr.ServiceKey("c:s"), &servicemgr.Service{ChainID: "c", ServiceID: "s", Status: governance.GovernanceStatus(st)})
			_, be = servicemgr.New(ms).GovernancePre("c:s", governance.EventType(ev), nil)
			prows = append(prows, prow{"service", ev, st, be == nil})
			ms = &memStore{m: map[string][]byte{}}
			ms.SetObject(nodemgr.NodeKey("n"), &nodemgr.Node{Account: "n", Status: governance.GovernanceStatus(st)})
			_, be = nodemgr.New(ms).GovernancePre("n", governance.EventType(ev), nil)
			prows = append(prows, prow{"node", ev, st, be == nil})
			ms = &memStore{m: map[string][]byte{}}
			ms.SetObject(rulemgr.RuleKey("c"), []*rulemgr.Rule{{Address: "r", ChainID: "c", Status: governance.GovernanceStatus(st)}})
			_, be = rulemgr.New(ms).GovernancePre("r", governance.EventType(ev), []byte("c"))
			prows = append(prows, prow{"rule", ev, st, be == nil})
		}
	}
	return enc.Encode(map[string]interface{}{"fire": rows, "pre": prows})
}

func main() {
	hx.Main(map[string]func(args []string) error{
		"lifecycle": func(_ []string) error { return hx.Lines(runHistory) },
		"fsm":       fsmTest,
	})
}
