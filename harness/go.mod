module github.com/meshplus/bitxhub/verifharness

go 1.14

require (
	github.com/cbergoon/merkletree v0.2.0
	github.com/coreos/etcd v3.3.18+incompatible
	github.com/ethereum/go-ethereum v1.10.8
	github.com/iancoleman/orderedmap v0.2.0
	github.com/libp2p/go-libp2p-core v0.5.6
	github.com/meshplus/bitxhub v0.0.0
	github.com/meshplus/bitxhub-core v1.28.1-0.20230411032641-11245b4adfc5
	github.com/meshplus/bitxhub-kit v1.28.0
	github.com/meshplus/bitxhub-model v1.28.1-0.20230411032618-24ca54eec606
	github.com/meshplus/eth-kit v1.28.0
	github.com/sirupsen/logrus v1.8.1
)

replace github.com/meshplus/bitxhub => /repo

replace google.golang.org/genproto => google.golang.org/genproto v0.0.0-20200218151345-dad8c97a84f5

replace google.golang.org/grpc => google.golang.org/grpc v1.33.0

replace github.com/hyperledger/fabric => github.com/hyperledger/fabric v2.0.1+incompatible

replace golang.org/x/net => golang.org/x/net v0.0.0-20200520004742-59133d7f0dd7

replace github.com/binance-chain/tss-lib => github.com/dawn-to-dusk/tss-lib v1.3.2-0.20220422023240-5ddc16a330ed

replace github.com/agl/ed25519 => github.com/binance-chain/edwards25519 v0.0.0-20200305024217-f36fc4b53d43

replace github.com/gogo/protobuf => github.com/regen-network/protobuf v1.3.2-alpha.regen.4

replace github.com/golang/protobuf => github.com/golang/protobuf v1.3.2

replace github.com/karalabe/usb => github.com/karalabe/usb v0.0.2
