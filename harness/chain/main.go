// Driver "chain" (C09): abstract histories of persist / rollback / reopen against the REAL
// chain ledger (leveldb + blockfile in a temp dir); after every step every lookup over the
// universe of heights, block hashes and transaction hashes ever used, canonicalised.
//
// input  (one JSON object per line):
//
//	{"full":bool,"kh":int,"ops":[{"op":"p","num":0,"txs":[..],"nrc":-1,"ic":[[k,[i..]]..],"tag":0,"par":-1,"bad":0},
//	                             {"op":"r","t":2},{"op":"o"}]}
//	full=true : ledger.New + PersistBlockData + Ledger.Rollback;  false: NewChainLedgerImpl +
//	PersistExecutionResult + RollbackBlockChain.   num 0 = head+1;  par -1 = current head hash,
//	-2 = zero hash, k>=0 = hash of the block made by op k;  bad: 1 hash, 2 tx root, 4 receipt root.
//
// output (one JSON object per line): entries (interned), universe, hash/root oracle tables, steps.
package main

import (
	"crypto/sha256"
	"encoding/json"
	"fmt"
	"math/big"
	"os"
	"reflect"
	"strings"
	"time"
	"unsafe"

	"github.com/meshplus/bitxhub-core/governance"
	"github.com/meshplus/bitxhub-kit/types"
	"github.com/meshplus/bitxhub-model/pb"
	"github.com/meshplus/bitxhub/internal/ledger"
	"github.com/meshplus/bitxhub/internal/model/events"
	"github.com/meshplus/bitxhub/verifharness/clx"
	"github.com/meshplus/bitxhub/verifharness/hx"
)

type opIn struct {
	Op  string        `json:"op"`
	Num uint64        `json:"num"`
	Txs []int         `json:"txs"`
	Nrc *int          `json:"nrc"`
	IC  []clx.ICEntry `json:"ic"`
	Tag uint64        `json:"tag"`
	Par *int          `json:"par"`
	Bad int           `json:"bad"`
	T   uint64        `json:"t"`
}
type histIn struct {
	LDB  string `json:"ldb"` // leveldb_type: "normal" (default) or "multi"
	Full bool   `json:"full"`
	KH   int    `json:"kh"`
	Ops  []opIn `json:"ops"`
}
type stepOut struct {
	Code int     `json:"code"`
	Obs  clx.Obs `json:"obs"`
}
type histOut struct {
	Entries []clx.Entry      `json:"entries"`
	UH      []uint64         `json:"uh"`
	UT      []uint64         `json:"ut"`
	HashTbl [][2]interface{} `json:"hash_tbl"`
	RootTbl [][2]interface{} `json:"root_tbl"`
	Steps   []stepOut        `json:"steps"`
	Err     string           `json:"err,omitempty"`
}

var acct = types.NewAddress([]byte("verif-state-account-"))

func open(dir, kind string, full bool) (*clx.Stores, error) {
	if full {
		return clx.OpenFull(dir, kind, nil, nil)
	}
	return clx.OpenChain(dir, kind)
}

// one pass over the history; observe=false only learns the block hashes
func pass(h histIn, t *clx.Tables, observe bool, uh, ut []*types.Hash) (out histOut, made []*types.Hash, err error) {
	dir, err := os.MkdirTemp("", "chain")
	if err != nil {
		return out, nil, err
	}
	defer os.RemoveAll(dir)
	s, err := open(dir, h.LDB, h.Full)
	if err != nil {
		return out, nil, err
	}
	defer func() { s.Close() }()
	byOp := map[int]*types.Hash{}
	for i, o := range h.Ops {
		code := 0
		switch o.Op {
		case "p":
			meta := s.CL.GetChainMeta()
			blocks, _ := s.BF.Blocks()
			if blocks != meta.Height {
				// AppendBlock would fail "out-order" and the goroutine's panic would kill the process
				code = 9
				break
			}
			num := o.Num
			if num == 0 {
				num = meta.Height + 1
			}
			var parent *types.Hash
			switch {
			case o.Par == nil || *o.Par == -1:
				parent = meta.BlockHash
			case *o.Par >= 0:
				parent = byOp[*o.Par]
			}
			nrc := -1
			if o.Nrc != nil {
				nrc = *o.Nrc
			}
			var stateRoot *types.Hash
			var bd *ledger.BlockData
			if h.Full {
				s.Ledger.SetBalance(acct, big.NewInt(int64(i+1)))
				accounts, root := s.Ledger.FlushDirtyData()
				stateRoot = root
				bd = &ledger.BlockData{Accounts: accounts}
			} else {
				stateRoot = clx.FakeRoot("state", i)
			}
			blk, rcs, im, e := clx.Seal(t, i, num, parent, stateRoot, o.Txs, nrc, o.IC, o.Tag, o.Bad)
			byOp[i] = blk.BlockHash
			made = append(made, blk.BlockHash)
			out.Entries = append(out.Entries, e)
			if h.Full {
				bd.Block, bd.Receipts, bd.InterchainMeta = blk, rcs, im
				s.Ledger.PersistBlockData(bd)
			} else if err := s.CL.PersistExecutionResult(blk, rcs, im); err != nil {
				code = 8
			}
		case "r":
			var err error
			if h.Full {
				err = s.Ledger.Rollback(o.T)
			} else {
				err = s.CL.RollbackBlockChain(o.T)
			}
			switch {
			case err == nil:
				code = 0
			case strings.Contains(err.Error(), "rollback to higher blockchain height"):
				code = 1
			case strings.Contains(err.Error(), "rollback too much block"):
				code = 2
			default:
				code = 3
			}
		case "o":
			s.Close()
			s2, err := open(dir, h.LDB, h.Full)
			if err != nil {
				// cannot continue this history: report and stop
				out.Err = "reopen failed"
				s, _ = clx.OpenChain(dir, h.LDB)
				if s == nil {
					return out, made, fmt.Errorf("reopen failed twice: %v", err)
				}
				code = 7
			} else {
				s = s2
			}
		default:
			return out, made, fmt.Errorf("unknown op %q", o.Op)
		}
		st := stepOut{Code: code}
		if observe {
			st.Obs = clx.Observe(s, t, h.KH, uh, ut)
		}
		out.Steps = append(out.Steps, st)
	}
	return out, made, nil
}

func runHistory(line []byte) (interface{}, error) {
	var h histIn
	if err := json.Unmarshal(line, &h); err != nil {
		return nil, err
	}
	t := clx.NewTables()
	// universe of transaction hashes: every index used, plus one never used
	seen := map[int]bool{}
	var ut []*types.Hash
	for _, o := range h.Ops {
		for _, i := range o.Txs {
			if !seen[i] {
				seen[i] = true
				ut = append(ut, clx.Tx(i).GetHash())
			}
		}
	}
	ut = append(ut, clx.Tx(999999).GetHash())
	// pass 1: learn the block hashes
	_, made, err := pass(h, t, false, nil, nil)
	if err != nil {
		return nil, err
	}
	seenH := map[string]bool{}
	var uh []*types.Hash
	for _, x := range made {
		if !seenH[x.String()] {
			seenH[x.String()] = true
			uh = append(uh, x)
		}
	}
	uh = append(uh, clx.FakeRoot("no-such-block", 0))
	// pass 2: the observed run
	out, _, err := pass(h, t, true, uh, ut)
	if err != nil {
		return nil, err
	}
	for _, x := range uh {
		out.UH = append(out.UH, t.In.Hash(x))
	}
	for _, x := range ut {
		out.UT = append(out.UT, t.In.Hash(x))
	}
	out.HashTbl, out.RootTbl = t.HashTable(), t.RootTable()
	return out, nil
}

// ---------------------------------------------------------------- executor-level leg
//
// input : {"ops":[{"op":"x","n":3,"bad":1},{"op":"y","k":3,"n":2},{"op":"o"}], "kh":k}
// The bootstrap executes genesis (block 1) and block 2 (seeded appchains chainA/chainB with a service
// each, funding of the interchain user).  x = the REAL executor executes a block at head+1 with n
// native transfers (bad of them with a wrong nonce: they fail) and m IBTP requests chainA:svc1 ->
// chainB:svc1 with the next indices (mbad of them with a wrong index: rejected, deliver nothing); y = consensus RE-DELIVERS a different block for the already
// executed height k (3 <= k <= head): the executor's own rollbackBlocks path (block.Number !=
// currentHeight+1 -> ledger.Rollback(k-1) -> execute on top of block k-1); o = restart.
// The blocks are sealed by executor.processExecuteEvent; the entries reported are what the
// executor handed to the ledger (header, hash, transactions from the executed event; receipts
// and interchain meta read back).  Output has the shape of the chain driver's.

type execIn struct {
	KH  int `json:"kh"`
	Ops []struct {
		Op     string `json:"op"`
		N      int    `json:"n"`
		Bad    int    `json:"bad"`
		K      uint64 `json:"k"`
		PTx    int    `json:"ptx"` // what the DELIVERED header already carries: 0 absent, 1 garbage, 2 the head block's value, 3 the right value
		PRc    int    `json:"prc"`
		PSt    int    `json:"pst"`
		PPar   int    `json:"ppar"`
		PBloom int    `json:"pbloom"`
		M      int    `json:"m"`    // interchain (IBTP) transactions in the block
		MBad   int    `json:"mbad"` // of them: with a wrong index (rejected)
	} `json:"ops"`
}

// deliver hands a block to the REAL executor exactly as the ordering layer does (ExecuteBlock with a
// CommitEvent) and waits for the executed event.  hx.Chain.ExecBlock always builds an empty header
// numbered head+1; here the caller decides the number (re-delivery) and what the delivered header
// already carries (pre-filled roots / parent / bloom, as for blocks fetched by the state syncer).
// The executed event is read from hx.Chain's own subscription channel (unexported field, so through
// its address): every event must be taken out of it or the executor's feed blocks.
func blockCh(c *hx.Chain) chan events.ExecutedEvent {
	f := reflect.ValueOf(c).Elem().FieldByName("blockCh")
	return reflect.NewAt(f.Type(), unsafe.Pointer(f.UnsafeAddr())).Elem().Interface().(chan events.ExecutedEvent)
}

// pre: what the delivered header carries besides version/number/timestamp.  Per field: 0 absent,
// 1 garbage, 2 the value of the current head block, 3 the RIGHT value (tx root, parent hash only)
type prefill struct {
	Tx, Rc, St, Par, Bloom int
}

func deliver(c *hx.Chain, number uint64, txs []pb.Transaction, pf prefill, salt int) *events.ExecutedEvent {
	c.NextTime += 1_000_000_000
	hdr := &pb.BlockHeader{Version: []byte("1.0.0"), Number: number, Timestamp: c.NextTime}
	var head *pb.BlockHeader
	if b, err := c.Ledger.GetBlock(c.Ledger.GetChainMeta().Height, false); err == nil {
		head = b.BlockHeader
	}
	pick := func(mode int, tag string, ofHead func(*pb.BlockHeader) *types.Hash, right *types.Hash) *types.Hash {
		switch mode {
		case 1:
			return clx.FakeRoot("garbage-"+tag, salt)
		case 2:
			if head != nil {
				return ofHead(head)
			}
			return clx.FakeRoot("garbage-"+tag, salt)
		case 3:
			return right
		}
		return nil
	}
	var txh []*types.Hash
	for _, tx := range txs {
		txh = append(txh, tx.GetHash())
	}
	var parent *types.Hash
	if b, err := c.Ledger.GetBlock(number-1, false); err == nil {
		parent = b.BlockHash
	}
	hdr.TxRoot = pick(pf.Tx, "tx", func(h *pb.BlockHeader) *types.Hash { return h.TxRoot }, clx.MerkleRoot(txh))
	hdr.ReceiptRoot = pick(pf.Rc, "rc", func(h *pb.BlockHeader) *types.Hash { return h.ReceiptRoot }, nil)
	hdr.StateRoot = pick(pf.St, "st", func(h *pb.BlockHeader) *types.Hash { return h.StateRoot }, nil)
	hdr.ParentHash = pick(pf.Par, "par", func(h *pb.BlockHeader) *types.Hash { return h.ParentHash }, parent)
	if pf.Bloom != 0 {
		bl := types.Bloom{}
		bl[salt%len(bl)] = 0xff
		hdr.Bloom = &bl
	}
	// a re-delivered block whose header hash equals the stored block's is "the same block" for the executor
	// (rollbackBlocks: "does not need to be repeated") and is ignored without an event; the histories
	// are about DIFFERENT blocks, so such a pre-filled header gets another state root
	if old, err := c.Ledger.GetBlock(number, false); err == nil && old.BlockHash.String() == hdr.Hash().String() {
		hdr.StateRoot = clx.FakeRoot("not-the-same-block", salt)
	}
	block := &pb.Block{BlockHeader: hdr, Transactions: &pb.Transactions{Transactions: txs}}
	local := make([]bool, len(txs))
	for i := range local {
		local[i] = true
	}
	ch := blockCh(c)
	c.Exec.ExecuteBlock(&pb.CommitEvent{Block: block, LocalList: local})
	select {
	case ev := <-ch:
		return &ev
	case <-time.After(20 * time.Second):
		return nil
	}
}

func execPass(h execIn, t *clx.Tables, observe bool, uh, ut []*types.Hash) (out histOut, madeB, madeT []*types.Hash, err error) {
	c, err := hx.NewChain(hx.ChainOpts{NumAdmins: 4, Quiet: true})
	if err != nil {
		return out, nil, nil, err
	}
	defer c.Close()
	view := func() *clx.Stores {
		return &clx.Stores{Dir: c.Dir, Ledger: c.Ledger, CL: c.Ledger.ChainLedger.(*ledger.ChainLedgerImpl), Repo: c.Repo}
	}
	// per-height snapshots of everything the transaction builder depends on (for re-delivery):
	// admin nonces, the interchain user's nonce, the next IBTP index of the service pair
	type gen struct {
		nonces [4]uint64
		unonce uint64
		index  uint64
	}
	var g gen
	g.index = 1
	genAt := map[uint64]gen{}
	user := hx.Key(1)
	const from, to = "1356:chainA:svc1", "1356:chainB:svc1"
	mkTxs := func(i, n, bad, m, mbad, salt int) []pb.Transaction {
		var txs []pb.Transaction
		for j := 0; j < n+m; j++ {
			// interleave: the interchain transactions come after the first transfer
			if j >= 1 && j <= m {
				idx := g.index
				k := j - 1
				if k < mbad {
					idx += 5 // wrong index: rejected, delivers nothing
				} else {
					g.index++
				}
				proof := []byte(fmt.Sprintf("proof-%d-%d", salt, j))
				ph := sha256.Sum256(proof)
				ibtp := &pb.IBTP{From: from, To: to, Index: idx, Type: pb.IBTP_INTERCHAIN, TimeoutHeight: 50, Proof: ph[:]}
				txs = append(txs, hx.IBTPTx(user, g.unonce, ibtp, proof))
				g.unonce++
				continue
			}
			if m > 0 && n == 0 {
				// only interchain transactions in this block
				idx := g.index
				if j < mbad {
					idx += 5
				} else {
					g.index++
				}
				proof := []byte(fmt.Sprintf("proof-%d-%d", salt, j))
				ph := sha256.Sum256(proof)
				ibtp := &pb.IBTP{From: from, To: to, Index: idx, Type: pb.IBTP_INTERCHAIN, TimeoutHeight: 50, Proof: ph[:]}
				txs = append(txs, hx.IBTPTx(user, g.unonce, ibtp, proof))
				g.unonce++
				continue
			}
			a := (i + j) % 4
			rcv := hx.Addr(hx.Key(5000 + j + 100*salt))
			nonce := g.nonces[a]
			if j < bad {
				nonce += 7 // wrong nonce: the transaction fails, its receipt is still stored
			} else {
				g.nonces[a]++
			}
			txs = append(txs, hx.TransferTx(c.Admins[a], nonce, rcv, "1"))
		}
		return txs
	}
	// the entry of a block = what the executor SEALED and handed to PersistBlockData: header, hash and
	// transactions of the block it announced (blk; nil for the two bootstrap blocks, which are read
	// back), the receipts stored for exactly those transactions, and the interchain meta recomputed
	// from those receipts' interchain events (not read back from the stored meta)
	entryOf := func(opIdx int, blk *pb.Block) (clx.Entry, *types.Hash, []*types.Hash, int) {
		s := view()
		code := 0
		if blk == nil {
			b, err := s.CL.GetBlock(c.Height(), true)
			if err != nil {
				return clx.Entry{Op: opIdx, IC: []clx.ICEntry{}}, &types.Hash{}, nil, 5
			}
			blk = b
		}
		var txh, rch []*types.Hash
		var rcs []*pb.Receipt
		for _, tx := range blk.Transactions.Transactions {
			txh = append(txh, tx.GetHash())
			r, err := func() (r *pb.Receipt, err error) {
				defer func() {
					if recover() != nil {
						err = fmt.Errorf("panic")
					}
				}()
				return s.CL.GetReceipt(tx.GetHash())
			}()
			if err != nil {
				code = 5 // a receipt of an executed transaction cannot be read: reported, the judge decides
				continue
			}
			rch = append(rch, r.Hash())
			rcs = append(rcs, r)
		}
		e := clx.Entry{Op: opIdx, Hdr: t.Header(blk.BlockHeader), Hash: t.In.Hash(blk.BlockHash), Txs: t.Root(txh), Rcpts: t.Root(rch),
			IC: clx.ExecutedIC(rcs), Tag: 0}
		return e, blk.BlockHash, txh, code
	}
	record := func(opIdx int, code int, blk *pb.Block) error {
		if opIdx < 0 || code == 0 || code == 6 {
			e, bh, txh, c2 := entryOf(opIdx, blk)
			if code == 0 {
				code = c2
			}
			out.Entries = append(out.Entries, e)
			madeB, madeT = append(madeB, bh), append(madeT, txh...)
		}
		st := stepOut{Code: code}
		if observe {
			st.Obs = clx.Observe(view(), t, h.KH, uh, ut)
		}
		out.Steps = append(out.Steps, st)
		return nil
	}
	// step -2: genesis (block 1) was executed by NewChain
	if err := record(-2, 0, nil); err != nil {
		return out, nil, nil, err
	}
	// step -1: block 2 carries the seeded appchains / services and funds the interchain user
	c.SeedAppchain("chainA", "", "", governance.GovernanceAvailable)
	c.SeedAppchain("chainB", "", "", governance.GovernanceAvailable)
	c.SeedService("chainA", "svc1", true, governance.GovernanceAvailable, nil)
	c.SeedService("chainB", "svc1", true, governance.GovernanceAvailable, nil)
	if ev := c.ExecBlock([]pb.Transaction{hx.TransferTx(c.Admins[0], 0, hx.Addr(user), "1000")}, true, 20*time.Second); ev == nil {
		return out, nil, nil, fmt.Errorf("seed block not executed")
	}
	g.nonces[0] = 1
	genAt[2] = g
	if err := record(-1, 0, nil); err != nil {
		return out, nil, nil, err
	}
	for i, o := range h.Ops {
		code := 0
		var sealed *pb.Block
		switch o.Op {
		case "x", "y":
			before := c.Height()
			target := before + 1
			if o.Op == "y" {
				if o.K < 3 {
					return out, nil, nil, fmt.Errorf("re-delivery needs 3 <= k (block 2 carries the seeds)")
				}
				if o.K > before {
					code = 9 // nothing to replace: earlier steps were refused, the head is lower than planned
					break
				}
				target = o.K
				g = genAt[target-1] // the state is rolled back to block k-1
			}
			// PersistExecutionResult appends at file position = chain height; if something is still stored
			// above the head the append is refused ("out-order") and the goroutine's panic kills the
			// process: not executed, reported as code 9
			if o.Op == "x" {
				if _, err := view().CL.GetBlock(before+1, true); err == nil {
					code = 9
					break
				}
			}
			txs := mkTxs(i, o.N, o.Bad, o.M, o.MBad, i+1) // receivers / proofs depend on the op: a re-delivered block differs
			ev := deliver(c, target, txs, prefill{o.PTx, o.PRc, o.PSt, o.PPar, o.PBloom}, i+1)
			if ev == nil || c.Height() != target {
				code = 8
				break
			}
			genAt[target] = g
			sealed = ev.Block
		case "o":
			if err := c.Restart(); err != nil {
				return out, nil, nil, fmt.Errorf("restart: %w", err)
			}
		default:
			return out, nil, nil, fmt.Errorf("unknown op %q", o.Op)
		}
		opIdx := i
		if o.Op == "o" {
			opIdx = 1 << 30 // no entry
		}
		if o.Op == "o" {
			st := stepOut{Code: code}
			if observe {
				st.Obs = clx.Observe(view(), t, h.KH, uh, ut)
			}
			out.Steps = append(out.Steps, st)
			continue
		}
		if err := record(opIdx, code, sealed); err != nil {
			return out, nil, nil, err
		}
	}
	return out, madeB, madeT, nil
}

func runExec(line []byte) (interface{}, error) {
	var h execIn
	if err := json.Unmarshal(line, &h); err != nil {
		return nil, err
	}
	t := clx.NewTables()
	_, b1, t1, err := execPass(h, t, false, nil, nil)
	if err != nil {
		return nil, err
	}
	uh := append(append([]*types.Hash{}, b1...), clx.FakeRoot("no-such-block", 0))
	ut := append(append([]*types.Hash{}, t1...), clx.Tx(999999).GetHash())
	out, b2, _, err := execPass(h, t, true, uh, ut)
	if err != nil {
		return nil, err
	}
	if len(b1) != len(b2) {
		return nil, fmt.Errorf("executor run not reproducible: %d vs %d blocks", len(b1), len(b2))
	}
	for i := range b1 {
		if b1[i].String() != b2[i].String() {
			return nil, fmt.Errorf("executor run not reproducible at block %d", i+1)
		}
	}
	for _, x := range uh {
		out.UH = append(out.UH, t.In.Hash(x))
	}
	for _, x := range ut {
		out.UT = append(out.UT, t.In.Hash(x))
	}
	out.HashTbl, out.RootTbl = t.HashTable(), t.RootTable()
	return out, nil
}

func main() {
	hx.Main(map[string]func(args []string) error{
		"chain": func(args []string) error { return hx.Lines(runHistory) },
		"exec":  func(args []string) error { return hx.Lines(runExec) },
	})
}
