// Driver "replicas" (property C01): executes one abstract history on k independent in-process
// replicas of the REAL relay-chain stack (hx.Chain: leveldb x2 + blockfile + ledger + genesis +
// executor), each with its own stop/reopen placements, and compares the replicas with each
// other bit-for-bit on everything a block result contains.
//
// stdin : one JSON history per line (see type history)
// stdout: one JSON line per history (see type output)
//
// Go randomises map iteration per range statement, so k replicas exercise different orders of
// every map-range in the executor; Restart drops every in-memory component.
package main

import (
	"crypto/sha256"
	"encoding/hex"
	"encoding/json"
	"fmt"
	"os"
	"path/filepath"
	"reflect"
	"sort"
	"strconv"
	"strings"
	"sync"
	"time"
	"unsafe"

	coreboltvm "github.com/meshplus/bitxhub-core/boltvm"
	"github.com/meshplus/bitxhub-core/governance"
	servicemgr "github.com/meshplus/bitxhub-core/service-mgr"
	"github.com/meshplus/bitxhub-core/validator"
	"github.com/meshplus/bitxhub-kit/crypto"
	"github.com/meshplus/bitxhub-kit/types"
	"github.com/meshplus/bitxhub-model/constant"
	"github.com/meshplus/bitxhub-model/pb"
	"github.com/meshplus/bitxhub/internal/model/events"
	"github.com/meshplus/bitxhub/verifharness/hx"
)

const bxhID = "1356"

// ---------------------------------------------------------------------------------------
// input

type setup struct {
	Chains   []int      `json:"chains"`   // seeded appchains (ids 0..15) -> "chain<i>", HappyRule master rule
	Services [][4]int   `json:"services"` // [chain, svc, ordered(0/1), status(0 available,1 frozen,2 absent-but-chain-exists)]
	Gas      int64      `json:"gas"`      // bvm gas price (0 = no fees)
	Balance  string     `json:"balance"`  // genesis balance of every admin (default 10^18)
	Fund     [][2]int64 `json:"fund"`     // [user, amount] transfers from admin 0 executed in the first block (before the history's txs)
}

type blockIn struct {
	Txs     [][]int64 `json:"txs"`
	Restart []int     `json:"restart"` // per replica: 1 = stop/reopen the node BEFORE this block
	Pipe    []int     `json:"pipe"`    // per replica (never replica 0): 1 = hand this block AND the next one to the executor back to back, without waiting for the first executed event
}

type history struct {
	ID      string     `json:"id"`
	K       int        `json:"k"`
	Genesis string     `json:"genesis"` // "own" (every replica runs genesis.Initialize itself) | "clone" (copy replica 0's post-genesis directory)
	Setup   setup      `json:"setup"`
	Groups  [][][3]int `json:"groups"` // one-to-many groups: list of [dstChain, dstSvc, index]
	Blocks  []blockIn  `json:"blocks"`
	Debug   bool       `json:"debug"` // include raw receipt texts (never judged)
}

// ---------------------------------------------------------------------------------------
// output

type divergence struct {
	Block  int      `json:"block"` // index into Blocks (-1 = genesis block)
	Field  string   `json:"field"`
	Values []string `json:"values"` // canonical value per replica (hex / canonical string, truncated)
}

type txObs struct {
	Status   int     `json:"status"`    // 0 success 1 failed
	TxStatus int     `json:"tx_status"` // receipt.TxStatus
	Ret      string  `json:"ret"`       // class of receipt.Ret (small enum)
	SvcEv    [][]int `json:"svc_ev"`    // SERVICE events carried by the receipt: [chain, svc, available, ordered, then (chain, svc) of every blacklisted source]
	Amt      int64   `json:"amt"`       // transfers: the amount actually used (resolves amount code -2)
	Raw      string  `json:"raw,omitempty"`
}

type blockObs struct {
	Height   uint64               `json:"height"`
	Txs      []txObs              `json:"txs"`
	Counter  map[string][][2]int  `json:"counter"`   // chain -> [[index, valid]]
	Timeout  map[string][][]int64 `json:"timeout"`   // chain -> ids ([sc,ss,dc,ds,idx])
	MultiTx  map[string][][]int64 `json:"multitx"`   // chain -> ids
	L2Roots  int                  `json:"l2roots"`   // number of timeout L2 roots
	SvcState [][4]int             `json:"svc_state"` // ledger service records after the block: [chain, svc, available, ordered]
}

type output struct {
	ID      string              `json:"id"`
	K       int                 `json:"k"`
	Err     string              `json:"err,omitempty"`
	Agree   bool                `json:"agree"`
	Div     *divergence         `json:"div,omitempty"`     // first divergence
	AllDiv  []divergence        `json:"all_div,omitempty"` // first divergence per field (bounded)
	Fields  []string            `json:"fields"`
	Digests [][][]string        `json:"digests"`           // [block][field][replica] sha256 hex of the canonical bytes; block 0 = genesis block
	Obs     []blockObs          `json:"obs"`               // replica 0, one per history block
	ObsAll  [][]blockObs        `json:"obs_all,omitempty"` // every replica (only when replicas disagree)
	Genesis map[string][]string `json:"genesis_info"`      // non-result facts about block 1 per replica (header timestamp equality etc.)
	Millis  int64               `json:"millis"`
}

var fieldNames = []string{"block_hash", "parent_hash", "state_root", "tx_root", "receipt_root", "timeout_root",
	"receipts", "counter", "timeout_counter", "timeout_l2roots", "multitx_counter", "meta_bytes", "state_dump", "balances", "sig_refused"}

// ---------------------------------------------------------------------------------------
// naming

func chainName(i int64) string { return fmt.Sprintf("chain%d", i) }
func svcName(i int64) string   { return fmt.Sprintf("svc%d", i) }
func fullSvc(c, s int64) string {
	return fmt.Sprintf("%s:%s:%s", bxhID, chainName(c), svcName(s))
}

func parseNum(s, prefix string) int64 {
	if !strings.HasPrefix(s, prefix) {
		return -1
	}
	n, err := strconv.ParseInt(s[len(prefix):], 10, 64)
	if err != nil {
		return -1
	}
	return n
}

// "1356:chain0:svc1-1356:chain2:svc0-3" -> [0,1,2,0,3]; anything else -> [-1,...]
func parseID(id string) []int64 {
	bad := []int64{-1, -1, -1, -1, -1}
	p := strings.Split(id, "-")
	if len(p) != 3 {
		return bad
	}
	a, b := strings.Split(p[0], ":"), strings.Split(p[1], ":")
	if len(a) != 3 || len(b) != 3 {
		return bad
	}
	idx, err := strconv.ParseInt(p[2], 10, 64)
	if err != nil {
		return bad
	}
	return []int64{parseNum(a[1], "chain"), parseNum(a[2], "svc"), parseNum(b[1], "chain"), parseNum(b[2], "svc"), idx}
}

func acctKey(id int64) crypto.PrivateKey {
	if id >= 100 {
		return hx.Key(hx.AdminKeyID(int(id - 100)))
	}
	return hx.Key(int(id) + 1)
}

// ---------------------------------------------------------------------------------------
// replica

type replica struct {
	c         *hx.Chain
	nonce     map[string]uint64
	proposals []string // proposal ids in creation order (from receipts)
	lastAmt   int64
	pending   *blockOut // result of the second block of a pair that was delivered back to back
	extraDirs []string
}

func (r *replica) nextNonce(k crypto.PrivateKey) uint64 {
	a := hx.Addr(k).String()
	n := r.nonce[a]
	r.nonce[a] = n + 1
	return n
}

func copyDir(src, dst string) error {
	return filepath.Walk(src, func(p string, info os.FileInfo, err error) error {
		if err != nil {
			return err
		}
		rel, _ := filepath.Rel(src, p)
		t := filepath.Join(dst, rel)
		if info.IsDir() {
			return os.MkdirAll(t, 0o755)
		}
		if info.Name() == "LOCK" {
			return os.WriteFile(t, nil, 0o644)
		}
		b, err := os.ReadFile(p)
		if err != nil {
			return err
		}
		return os.WriteFile(t, b, info.Mode())
	})
}

// cloneFrom points this replica at a copy of src's directory (taken while src is stopped) and
// reopens it.  Own helper instead of a change to hx: hx.Chain.Dir is exported and Restart()
// reopens whatever Dir names.
func (r *replica) cloneFrom(srcDir string) error {
	dst, err := os.MkdirTemp("", "verif-clone-")
	if err != nil {
		return err
	}
	if err := copyDir(srcDir, dst); err != nil {
		return err
	}
	r.extraDirs = append(r.extraDirs, r.c.Dir)
	r.c.Dir = dst
	return r.c.Restart()
}

func (r *replica) close() {
	r.c.Close()
	for _, d := range r.extraDirs {
		_ = os.RemoveAll(d)
	}
}

// seedService writes a service record the way ServiceManager.PackageServiceInfo + Register build
// it (all maps initialised; hx.SeedService leaves the record maps nil, which makes
// RecordInvokeService panic on receipts -- a harness artefact, not a property of the code).
func seedService(c *hx.Chain, chainID, serviceID string, ordered bool, status governance.GovernanceStatus) {
	svc := &servicemgr.Service{ChainID: chainID, ServiceID: serviceID, Name: "svc-" + chainID + "-" + serviceID, Type: servicemgr.ServiceCallContract,
		Intro: "seeded", Ordered: ordered, Permission: map[string]struct{}{}, Details: "seeded", CreateTime: 1,
		EvaluationRecords: map[string]*governance.EvaluationRecord{}, InvokeRecords: map[string]*governance.InvokeRecord{}, Status: status}
	data, _ := json.Marshal(svc)
	c.Ledger.SetState(constant.ServiceMgrContractAddr.Address(), []byte(servicemgr.ServiceKey(chainID+":"+serviceID)), data, nil)
}

// ---------------------------------------------------------------------------------------
// transactions

var managerAddrs = []constant.BoltContractAddress{
	constant.AppchainMgrContractAddr, constant.ServiceMgrContractAddr, constant.RuleManagerContractAddr,
	constant.NodeManagerContractAddr, constant.RoleContractAddr, constant.DappMgrContractAddr,
}

var responseType = reflect.TypeOf((*coreboltvm.Response)(nil))

// queryCall picks, by reflection over the REGISTERED contract object, the ordinal-th (sorted by
// name, modulo their number) exported method that returns a single *boltvm.Response, looks like a
// query (Get*/Is*/Count*/Check*/Has*/All*/Appchains/Query*) and takes only string / integer / bool /
// bytes / float parameters, and builds plain arguments for it.  New methods are picked up
// automatically.
func (r *replica) queryCall(contract, ordinal int) (*types.Address, string, []*pb.Arg) {
	a := managerAddrs[((contract%len(managerAddrs))+len(managerAddrs))%len(managerAddrs)]
	obj := r.c.Exec.GetBoltContracts()[a.Address().String()]
	t := reflect.TypeOf(obj)
	var names []string
	for i := 0; i < t.NumMethod(); i++ {
		m := t.Method(i)
		n := m.Name
		q := false
		for _, p := range []string{"Get", "Is", "Count", "Check", "Has", "All", "Appchains", "Query"} {
			if strings.HasPrefix(n, p) {
				q = true
			}
		}
		if !q || m.Type.NumOut() != 1 || m.Type.Out(0) != responseType {
			continue
		}
		ok := true
		for j := 1; j < m.Type.NumIn(); j++ {
			switch m.Type.In(j).Kind() {
			case reflect.String, reflect.Uint64, reflect.Int64, reflect.Int32, reflect.Bool, reflect.Float64:
			case reflect.Slice:
				if m.Type.In(j).Elem().Kind() != reflect.Uint8 {
					ok = false
				}
			default:
				ok = false
			}
		}
		if ok {
			names = append(names, n)
		}
	}
	sort.Strings(names)
	if len(names) == 0 {
		return a.Address(), "NoSuchMethod", nil
	}
	name := names[((ordinal%len(names))+len(names))%len(names)]
	m, _ := t.MethodByName(name)
	var args []*pb.Arg
	for j := 1; j < m.Type.NumIn(); j++ {
		switch m.Type.In(j).Kind() {
		case reflect.String:
			v := "chain0"
			if contract%len(managerAddrs) == 1 {
				v = "chain0:svc0"
			}
			args = append(args, pb.String(v))
		case reflect.Uint64:
			args = append(args, pb.Uint64(1))
		case reflect.Int64:
			args = append(args, pb.Int64(1))
		case reflect.Int32:
			args = append(args, pb.Int32(1))
		case reflect.Bool:
			args = append(args, pb.Bool(true))
		case reflect.Float64:
			args = append(args, pb.Float64(1))
		default:
			args = append(args, pb.Bytes(nil))
		}
	}
	return a.Address(), name, args
}

func ibtpOf(h *history, op []int64) *pb.IBTP {
	sc, ss, dc, ds, idx, typ, timeout, gid := op[2], op[3], op[4], op[5], op[6], op[7], op[8], op[9]
	ib := &pb.IBTP{From: fullSvc(sc, ss), To: fullSvc(dc, ds), Index: uint64(idx), TimeoutHeight: timeout}
	if len(op) > 10 && op[10]&4 != 0 { // destination on another BitXHub: reaches checkBitXHubAvailability
		ib.To = fmt.Sprintf("2000:%s:%s", chainName(dc), svcName(ds))
	}
	switch typ {
	case 0:
		ib.Type = pb.IBTP_INTERCHAIN
	case 1:
		ib.Type = pb.IBTP_RECEIPT_SUCCESS
	case 2:
		ib.Type = pb.IBTP_RECEIPT_FAILURE
	case 3:
		ib.Type = pb.IBTP_RECEIPT_ROLLBACK
	default:
		ib.Type = pb.IBTP_Type(typ)
	}
	if gid > 0 && int(gid) <= len(h.Groups) {
		g := &pb.StringUint64Map{}
		for _, m := range h.Groups[gid-1] {
			g.Keys = append(g.Keys, fullSvc(int64(m[0]), int64(m[1])))
			g.Vals = append(g.Vals, uint64(m[2]))
		}
		ib.Group = g
	}
	return ib
}

func (r *replica) buildTx(h *history, op []int64) (pb.Transaction, string) {
	switch op[0] {
	case 1: // transfer [1, from, to, amount]; amount -1 = malformed string, -2 = whole balance minus this tx's fee
		k := acctKey(op[1])
		amt := strconv.FormatInt(op[3], 10)
		if op[3] == -2 {
			bal := r.c.ViewLdg.GetBalance(hx.Addr(k))
			r.c.ViewLdg.Clear()
			v := bal.Int64() - 21000*h.Setup.Gas
			if !bal.IsInt64() || v < 0 {
				v = 0
			}
			amt = strconv.FormatInt(v, 10)
			r.lastAmt = v
			return hx.TransferTx(k, r.nextNonce(k), hx.Addr(acctKey(op[2])), amt), "amt"
		} else if op[3] < 0 {
			amt = "abc"
		}
		return hx.TransferTx(k, r.nextNonce(k), hx.Addr(acctKey(op[2])), amt), ""
	case 2: // ibtp [2, sender, sc, ss, dc, ds, idx, typ, timeout, gid, flags]
		k := acctKey(op[1])
		ib := ibtpOf(h, op)
		proof := []byte(fmt.Sprintf("proof-%s-%s-%d-%d", ib.From, ib.To, ib.Index, ib.Type))
		ph := sha256.Sum256(proof)
		ib.Proof = ph[:]
		flags := int64(0)
		if len(op) > 10 {
			flags = op[10]
		}
		if flags&1 != 0 {
			ib.Proof = []byte("not-the-hash")
		}
		tx := hx.IBTPTx(k, r.nextNonce(k), ib, proof)
		if flags&2 != 0 {
			tx.Signature = append([]byte{}, tx.Signature...)
			tx.Signature[len(tx.Signature)/2] ^= 0x5a
		}
		return tx, ""
	case 3: // malformed [3, sender, variant]
		k := acctKey(op[1])
		n := r.nextNonce(k)
		switch op[2] {
		case 0: // empty payload
			return hx.RawPayloadTx(k, n, constant.StoreContractAddr.Address(), nil), ""
		case 1: // garbage payload
			return hx.RawPayloadTx(k, n, constant.StoreContractAddr.Address(), []byte{0xff, 0x01, 0x02, 0x03, 0x80}), ""
		case 2: // unknown method
			return hx.BvmTx(k, n, constant.StoreContractAddr.Address(), "NoSuchMethod", pb.String("x")), ""
		case 3: // unknown contract address
			return hx.BvmTx(k, n, hx.Addr(hx.Key(77777)), "Get", pb.String("x")), ""
		case 4: // wrong argument kinds
			return hx.BvmTx(k, n, constant.StoreContractAddr.Address(), "Set", pb.Uint64(1)), ""
		case 5: // bad signature on a transfer
			tx := hx.TransferTx(k, n, hx.Addr(acctKey(0)), "1")
			tx.Signature = append([]byte{}, tx.Signature...)
			tx.Signature[3] ^= 0x11
			return tx, ""
		case 7: // zero-amount transfer (always succeeds when executed) with a bad signature
			tx := hx.TransferTx(k, n, hx.Addr(acctKey(1)), "0")
			tx.Signature = append([]byte{}, tx.Signature...)
			tx.Signature[5] ^= 0x24
			return tx, ""
		default: // wrong vm type
			td := &pb.TransactionData{Type: pb.TransactionData_INVOKE, VmType: pb.TransactionData_VMType(7), Payload: []byte("x")}
			b, _ := td.Marshal()
			return hx.RawPayloadTx(k, n, constant.StoreContractAddr.Address(), b), ""
		}
	case 4: // governance [4, actor, action, chain, svc, extra]
		k := acctKey(op[1])
		n := r.nextNonce(k)
		c, s, extra := op[3], op[4], op[5]
		csid := chainName(c) + ":" + svcName(s)
		switch op[2] {
		case 1: // RegisterAppchain by actor (becomes appchain admin)
			return hx.BvmTx(k, n, constant.AppchainMgrContractAddr.Address(), "RegisterAppchain",
				pb.String(chainName(c)), pb.String("name-"+chainName(c)), pb.Bytes(nil), pb.String("ETH"), pb.Bytes(nil),
				pb.String("0x857133c5C69e6Ce66F7AD46F200B9B3573e77582"), pb.String("desc"), pb.String(validator.HappyRuleAddr), pb.String("url"),
				pb.String(hx.Addr(k).String()), pb.String("reason")), "proposal"
		case 2: // Vote approve on proposal #extra (0-based ordinal in creation order)
			pid := "no-such-proposal"
			if int(extra) < len(r.proposals) {
				pid = r.proposals[extra]
			}
			return hx.BvmTx(k, n, constant.GovernanceContractAddr.Address(), "Vote", pb.String(pid), pb.String("approve"), pb.String("r")), ""
		case 3: // RegisterService; extra bit0 = ordered, bit1 = two illegal permission entries
			permits := ""
			if extra&2 != 0 {
				permits = "bad-permit-a,bad-permit-b"
			}
			return hx.BvmTx(k, n, constant.ServiceMgrContractAddr.Address(), "RegisterService",
				pb.String(chainName(c)), pb.String(svcName(s)), pb.String("name-"+csid), pb.String("CallContract"), pb.String("intro"),
				pb.Uint64(uint64(extra&1)), pb.String(permits), pb.String("details"), pb.String("reason")), "proposal"
		case 4:
			return hx.BvmTx(k, n, constant.ServiceMgrContractAddr.Address(), "FreezeService", pb.String(csid), pb.String("r")), "proposal"
		case 5:
			return hx.BvmTx(k, n, constant.ServiceMgrContractAddr.Address(), "ActivateService", pb.String(csid), pb.String("r")), "proposal"
		case 6:
			return hx.BvmTx(k, n, constant.ServiceMgrContractAddr.Address(), "EvaluateService", pb.String(csid), pb.String("d"), pb.Float64(float64(extra%6))), ""
		case 7:
			return hx.BvmTx(k, n, constant.ServiceMgrContractAddr.Address(), "LogoutService", pb.String(csid), pb.String("r")), "proposal"
		case 8:
			return hx.BvmTx(k, n, constant.AppchainMgrContractAddr.Address(), "FreezeAppchain", pb.String(chainName(c)), pb.String("r")), "proposal"
		case 9:
			return hx.BvmTx(k, n, constant.AppchainMgrContractAddr.Address(), "ActivateAppchain", pb.String(chainName(c)), pb.String("r")), "proposal"
		case 12: // UpdateService: same name and details, new intro, blacklist = source service extra (chain*16+svc); no proposal
			return hx.BvmTx(k, n, constant.ServiceMgrContractAddr.Address(), "UpdateService", pb.String(csid), pb.String("name-"+csid),
				pb.String(fmt.Sprintf("intro-%d", extra)), pb.String(fullSvc(extra/16, extra%16)), pb.String("details"), pb.String("r")), ""
		case 11: // UpdateAppchain by its admin with two illegal new admin addresses
			return hx.BvmTx(k, n, constant.AppchainMgrContractAddr.Address(), "UpdateAppchain", pb.String(chainName(c)), pb.String("name-"+chainName(c)),
				pb.String("desc"), pb.Bytes(nil), pb.String(hx.Addr(k).String()+",zz-bad-admin-a,zz-bad-admin-b"), pb.String("r")), "proposal"
		default: // vote reject
			pid := "no-such-proposal"
			if int(extra) < len(r.proposals) {
				pid = r.proposals[extra]
			}
			return hx.BvmTx(k, n, constant.GovernanceContractAddr.Address(), "Vote", pb.String(pid), pb.String("reject"), pb.String("r")), ""
		}
	case 5: // [5, user]: BVM InitServiceCache on the registered interchain contract object
		k := acctKey(op[1])
		return hx.BvmTx(k, r.nextNonce(k), constant.InterchainContractAddr.Address(), "InitServiceCache"), ""
	case 7: // [7, user, contract, variant]: a method PROMOTED from the embedded bitxhub-core manager, called as a transaction
		k := acctKey(op[1])
		addr := constant.ServiceMgrContractAddr.Address()
		switch op[2] {
		case 0:
			addr = constant.AppchainMgrContractAddr.Address()
		case 2:
			addr = constant.RuleManagerContractAddr.Address()
		case 3:
			addr = constant.NodeManagerContractAddr.Address()
		}
		if len(op) > 3 && op[3] == 1 {
			return hx.BvmTx(k, r.nextNonce(k), addr, "QueryById", pb.String("chain0:svc0"), pb.Bytes(nil)), ""
		}
		return hx.BvmTx(k, r.nextNonce(k), addr, "CountAll", pb.Bytes(nil)), ""
	case 8: // [8, user, contract, ordinal]: the ordinal-th query-like exported *Response method of a manager contract
		k := acctKey(op[1])
		addr, method, args := r.queryCall(int(op[2]), int(op[3]))
		return hx.BvmTx(k, r.nextNonce(k), addr, method, args...), ""
	case 6: // [6, user, sc, ss, dc, ds, idx, typ, timeout, gid]: plain BVM HandleIBTPData(bytes), no proof
		k := acctKey(op[1])
		ib := ibtpOf(h, op)
		b, _ := ib.Marshal()
		return hx.BvmTx(k, r.nextNonce(k), constant.InterchainContractAddr.Address(), "HandleIBTPData", pb.Bytes(b)), ""
	}
	k := acctKey(0)
	return hx.RawPayloadTx(k, r.nextNonce(k), constant.StoreContractAddr.Address(), nil), ""
}

// ---------------------------------------------------------------------------------------
// observation

func hexOf(b []byte) string { h := sha256.Sum256(b); return hex.EncodeToString(h[:]) }

func canonStringSliceMap(m map[string]*pb.StringSlice) string {
	ks := make([]string, 0, len(m))
	for k := range m {
		ks = append(ks, k)
	}
	sort.Strings(ks)
	var sb strings.Builder
	for _, k := range ks {
		sb.WriteString(k + "=[" + strings.Join(m[k].Slice, ",") + "];")
	}
	return sb.String()
}

func canonCounter(m map[string]*pb.VerifiedIndexSlice) string {
	ks := make([]string, 0, len(m))
	for k := range m {
		ks = append(ks, k)
	}
	sort.Strings(ks)
	var sb strings.Builder
	for _, k := range ks {
		sb.WriteString(k + "=[")
		for _, v := range m[k].Slice {
			sb.WriteString(fmt.Sprintf("%d/%v/%v,", v.Index, v.Valid, v.IsBatch))
		}
		sb.WriteString("];")
	}
	return sb.String()
}

var contractAddrs = []constant.BoltContractAddress{
	constant.InterchainContractAddr, constant.StoreContractAddr, constant.RuleManagerContractAddr, constant.RoleContractAddr,
	constant.AppchainMgrContractAddr, constant.TransactionMgrContractAddr, constant.GovernanceContractAddr, constant.NodeManagerContractAddr,
	constant.InterBrokerContractAddr, constant.ServiceMgrContractAddr, constant.DappMgrContractAddr, constant.ProposalStrategyMgrContractAddr,
	constant.ServiceRegistryContractAddr, constant.ServiceResolverContractAddr,
}

// stateDump reads every contract account's committed key space through the view ledger (which
// shares the state db but none of the block executor's in-memory objects).
func stateDump(c *hx.Chain) string {
	var sb strings.Builder
	for _, a := range contractAddrs {
		ok, vals := c.ViewLdg.QueryByPrefix(a.Address(), "")
		sb.WriteString(a.String() + fmt.Sprintf(":%v:%d:", ok, len(vals)))
		for _, v := range vals {
			sb.WriteString(hex.EncodeToString(v) + ",")
		}
		sb.WriteString(fmt.Sprintf("n=%d;", c.ViewLdg.GetNonce(a.Address())))
		c.ViewLdg.Clear()
	}
	return sb.String()
}

func balances(c *hx.Chain, n int) string {
	var sb strings.Builder
	for i := 0; i < 10; i++ {
		a := hx.Addr(acctKey(int64(i)))
		sb.WriteString(fmt.Sprintf("u%d=%s/%d;", i, c.ViewLdg.GetBalance(a).String(), c.ViewLdg.GetNonce(a)))
	}
	for i := 0; i < n; i++ {
		a := hx.Addr(acctKey(int64(100 + i)))
		sb.WriteString(fmt.Sprintf("a%d=%s/%d;", i, c.ViewLdg.GetBalance(a).String(), c.ViewLdg.GetNonce(a)))
	}
	c.ViewLdg.Clear()
	return sb.String()
}

func retClass(status pb.Receipt_Status, ret string) string {
	if status == pb.Receipt_SUCCESS {
		switch ret {
		case "begin_failure", "batch_ibtp":
			return ret
		}
		return "ok"
	}
	switch {
	case strings.Contains(ret, "nil pointer dereference"):
		return "nilptr"
	case strings.Contains(ret, "interface conversion"):
		return "ifaceconv"
	}
	return hx.ErrClass(ret)
}

// blockFields returns the canonical value of every compared field for the block at height h.
func blockFields(c *hx.Chain, h uint64) (map[string]string, []*pb.Receipt, *pb.InterchainMeta, error) {
	out := map[string]string{}
	blk, err := c.Ledger.GetBlock(h, true)
	if err != nil {
		return nil, nil, nil, fmt.Errorf("GetBlock(%d): %w", h, err)
	}
	hd := blk.BlockHeader
	hs := func(x *types.Hash) string {
		if x == nil {
			return "nil"
		}
		return x.String()
	}
	out["block_hash"] = hs(blk.BlockHash)
	out["parent_hash"] = hs(hd.ParentHash)
	out["state_root"] = hs(hd.StateRoot)
	out["tx_root"] = hs(hd.TxRoot)
	out["receipt_root"] = hs(hd.ReceiptRoot)
	out["timeout_root"] = hs(hd.TimeoutRoot)
	var rs []*pb.Receipt
	var sb strings.Builder
	if blk.Transactions != nil {
		for _, tx := range blk.Transactions.Transactions {
			r, err := c.Ledger.GetReceipt(tx.GetHash())
			if err != nil {
				return nil, nil, nil, fmt.Errorf("GetReceipt: %w", err)
			}
			b, err := r.Marshal()
			if err != nil {
				return nil, nil, nil, err
			}
			rs = append(rs, r)
			sb.WriteString(hex.EncodeToString(b) + ";")
		}
	}
	out["receipts"] = sb.String()
	meta, err := c.Ledger.GetInterchainMeta(h)
	if err != nil {
		return nil, nil, nil, fmt.Errorf("GetInterchainMeta(%d): %w", h, err)
	}
	out["counter"] = canonCounter(meta.Counter)
	out["timeout_counter"] = canonStringSliceMap(meta.TimeoutCounter)
	var l2 []string
	for _, r := range meta.TimeoutL2Roots {
		l2 = append(l2, r.String())
	}
	out["timeout_l2roots"] = strings.Join(l2, ",")
	out["multitx_counter"] = canonStringSliceMap(meta.MultiTxCounter)
	mb, err := meta.Marshal()
	if err != nil {
		return nil, nil, nil, err
	}
	out["meta_bytes"] = hex.EncodeToString(mb)
	out["state_dump"] = stateDump(c)
	out["balances"] = balances(c, len(c.Admins))
	return out, rs, meta, nil
}

func idsOf(m map[string]*pb.StringSlice) map[string][][]int64 {
	out := map[string][][]int64{}
	for k, v := range m {
		var l [][]int64
		for _, id := range v.Slice {
			l = append(l, parseID(id))
		}
		out[k] = l
	}
	return out
}

func svcStates(c *hx.Chain, h *history) [][4]int {
	var out [][4]int
	seen := map[[2]int]bool{}
	add := func(ch, sv int) {
		if seen[[2]int{ch, sv}] {
			return
		}
		seen[[2]int{ch, sv}] = true
		ok, data := c.ViewLdg.GetState(constant.ServiceMgrContractAddr.Address(), []byte(servicemgr.ServiceKey(chainName(int64(ch))+":"+svcName(int64(sv)))))
		if !ok {
			return
		}
		s := &servicemgr.Service{}
		if json.Unmarshal(data, s) != nil {
			return
		}
		out = append(out, [4]int{ch, sv, b2i(s.IsAvailable()), b2i(s.Ordered)})
	}
	for ch := 0; ch < 8; ch++ {
		for sv := 0; sv < 4; sv++ {
			add(ch, sv)
		}
	}
	c.ViewLdg.Clear()
	return out
}

func b2i(b bool) int {
	if b {
		return 1
	}
	return 0
}

func observe(c *hx.Chain, h *history, height uint64, rs []*pb.Receipt, meta *pb.InterchainMeta) blockObs {
	o := blockObs{Height: height, Counter: map[string][][2]int{}, L2Roots: len(meta.TimeoutL2Roots)}
	for _, r := range rs {
		t := txObs{Status: int(r.Status), TxStatus: int(r.TxStatus), Ret: retClass(r.Status, string(r.Ret))}
		for _, ev := range r.Events {
			if ev.EventType == pb.Event_SERVICE {
				s := &servicemgr.Service{}
				if json.Unmarshal(ev.Data, s) == nil {
					e := []int{int(parseNum(s.ChainID, "chain")), int(parseNum(s.ServiceID, "svc")), b2i(s.IsAvailable()), b2i(s.Ordered)}
					var bl []string
					for p := range s.Permission {
						bl = append(bl, p)
					}
					sort.Strings(bl)
					for _, p := range bl {
						q := strings.Split(p, ":")
						if len(q) == 3 {
							e = append(e, int(parseNum(q[1], "chain")), int(parseNum(q[2], "svc")))
						}
					}
					t.SvcEv = append(t.SvcEv, e)
				}
			}
		}
		if h.Debug {
			t.Raw = string(r.Ret)
		}
		o.Txs = append(o.Txs, t)
	}
	for k, v := range meta.Counter {
		for _, x := range v.Slice {
			o.Counter[k] = append(o.Counter[k], [2]int{int(x.Index), b2i(x.Valid)})
		}
	}
	o.Timeout = idsOf(meta.TimeoutCounter)
	o.MultiTx = idsOf(meta.MultiTxCounter)
	o.SvcState = svcStates(c, h)
	return o
}

// ---------------------------------------------------------------------------------------
// running one history

func trunc(s string) string {
	if len(s) > 400 {
		return s[:400] + fmt.Sprintf("...(%d bytes, sha256 %s)", len(s), hexOf([]byte(s))[:16])
	}
	return s
}

const skipValue = "\x00not-observed"

type blockOut struct {
	fields map[string]string
	obs    blockObs
	oracle string
}

type builtBlock struct {
	txs      []pb.Transaction
	kinds    []string
	amts     []int64
	expected []int
	sigErr   map[string]bool
}

func (r *replica) build(h *history, bi int) *builtBlock {
	b := h.Blocks[bi]
	bb := &builtBlock{sigErr: map[string]bool{}, amts: make([]int64, len(b.Txs))}
	if bi == 0 {
		for _, ch := range h.Setup.Chains {
			r.c.SeedAppchain(chainName(int64(ch)), "", "", governance.GovernanceAvailable)
		}
		for _, s := range h.Setup.Services {
			st := governance.GovernanceAvailable
			switch s[3] {
			case 1:
				st = governance.GovernanceFrozen
			case 2:
				continue
			}
			seedService(r.c, chainName(int64(s[0])), svcName(int64(s[1])), s[2] != 0, st)
		}
	}
	for j, op := range b.Txs {
		tx, kind := r.buildTx(h, op)
		bb.txs = append(bb.txs, tx)
		bb.kinds = append(bb.kinds, kind)
		if op[0] == 1 {
			bb.amts[j] = op[3]
			if kind == "amt" {
				bb.amts[j] = r.lastAmt
			}
		}
	}
	// deterministic oracle for the signature fan-out: the refused set must be exactly the
	// transactions whose VerifySignature() fails when called one by one (same objects, before execution)
	for j, tx := range bb.txs {
		if err := tx.VerifySignature(); err != nil {
			bb.expected = append(bb.expected, j)
			bb.sigErr[err.Error()] = true
		}
	}
	return bb
}

// blockCh reads hx.Chain's own (unexported) executed-event channel: blocks delivered back to back
// must be collected from the same subscription hx.ExecBlock uses, otherwise its buffer fills up.
func blockCh(c *hx.Chain) chan events.ExecutedEvent {
	f := reflect.ValueOf(c).Elem().FieldByName("blockCh")
	return *(*chan events.ExecutedEvent)(unsafe.Pointer(f.UnsafeAddr()))
}

// deliver hands the blocks to the executor back to back (consensus faster than execution) and
// then collects their executed events.
func deliver(c *hx.Chain, groups [][]pb.Transaction, deadline time.Duration) []*events.ExecutedEvent {
	h := c.Height()
	for i, txs := range groups {
		c.NextTime += 1_000_000_000
		block := &pb.Block{
			BlockHeader:  &pb.BlockHeader{Version: []byte("1.0.0"), Number: h + 1 + uint64(i), Timestamp: c.NextTime},
			Transactions: &pb.Transactions{Transactions: txs},
		}
		c.Exec.ExecuteBlock(&pb.CommitEvent{Block: block, LocalList: make([]bool, len(txs))})
	}
	ch := blockCh(c)
	var evs []*events.ExecutedEvent
	for range groups {
		select {
		case ev := <-ch:
			e := ev
			evs = append(evs, &e)
		case <-time.After(deadline):
			return evs
		}
	}
	if sl, ok := c.Ledger.StateLedger.(interface{ VerifLoadedAccounts() int }); ok {
		for i := 0; i < 4000 && sl.VerifLoadedAccounts() != 0; i++ {
			time.Sleep(500 * time.Microsecond)
		}
	}
	return evs
}

func (r *replica) finish(h *history, bb *builtBlock, height uint64, postState bool) (*blockOut, string) {
	f, rs, meta, err := blockFields(r.c, height)
	if err != nil {
		return nil, err.Error()
	}
	for j, kind := range bb.kinds {
		if kind == "proposal" && j < len(rs) && rs[j].Status == pb.Receipt_SUCCESS {
			var gr governance.GovernanceResult
			if json.Unmarshal(rs[j].Ret, &gr) == nil && gr.ProposalID != "" {
				r.proposals = append(r.proposals, gr.ProposalID)
			}
		}
	}
	// refused = FAILED with a signature-error text; a transaction whose signature AND proof are
	// both invalid carries the proof error instead (verifyProofs runs after verifySign and
	// overwrites invalidTx[i]), which counts as refused for a transaction the oracle expects
	isExp := map[int]bool{}
	for _, j := range bb.expected {
		isExp[j] = true
	}
	var refused []int
	for j, rc := range rs {
		if rc.Status != pb.Receipt_FAILED {
			continue
		}
		if bb.sigErr[string(rc.Ret)] || (isExp[j] && strings.Contains(string(rc.Ret), "proof")) {
			refused = append(refused, j)
		}
	}
	f["sig_refused"] = fmt.Sprint(refused)
	if !postState {
		// the state after this block can no longer be read: the next block is already executed
		f["state_dump"], f["balances"] = skipValue, skipValue
	}
	o := observe(r.c, h, height, rs, meta)
	for j := range o.Txs {
		if j < len(bb.amts) {
			o.Txs[j].Amt = bb.amts[j]
		}
	}
	return &blockOut{fields: f, obs: o, oracle: fmt.Sprint(bb.expected)}, ""
}

// runBlocks executes block bi (and, when pipe, block bi+1 back to back with it; its result is
// parked in r.pending).
func (r *replica) runBlocks(h *history, bi int, pipe bool) (*blockOut, string) {
	b1 := r.build(h, bi)
	if !pipe {
		ev := r.c.ExecBlock(b1.txs, false, 20*time.Second)
		if ev == nil {
			return nil, "not executed within the deadline"
		}
		return r.finish(h, b1, ev.Block.BlockHeader.Number, true)
	}
	b2 := r.build(h, bi+1)
	evs := deliver(r.c, [][]pb.Transaction{b1.txs, b2.txs}, 30*time.Second)
	if len(evs) != 2 {
		return nil, "pair not executed within the deadline"
	}
	o1, e := r.finish(h, b1, evs[0].Block.BlockHeader.Number, false)
	if e != "" {
		return nil, e
	}
	o2, e := r.finish(h, b2, evs[1].Block.BlockHeader.Number, true)
	if e != "" {
		return nil, e
	}
	r.pending = o2
	return o1, ""
}

func runHistory(h *history) (out output) {
	t0 := time.Now()
	out = output{ID: h.ID, K: h.K, Fields: fieldNames, Genesis: map[string][]string{}}
	defer func() {
		if e := recover(); e != nil {
			out.Err = fmt.Sprintf("panic: %v", e)
		}
		out.Millis = time.Since(t0).Milliseconds()
	}()
	if h.K < 1 {
		h.K = 1
	}
	reps := make([]*replica, h.K)
	defer func() {
		for _, r := range reps {
			if r != nil {
				r.close()
			}
		}
	}()
	for i := range reps {
		bal := h.Setup.Balance
		if bal == "" {
			bal = "1000000000000000000"
		}
		c, err := hx.NewChain(hx.ChainOpts{Quiet: true, GasPrice: h.Setup.Gas, Balance: bal})
		if err != nil {
			out.Err = "NewChain: " + err.Error()
			return
		}
		reps[i] = &replica{c: c, nonce: map[string]uint64{}}
	}
	if h.Genesis == "clone" {
		// stop replica 0, copy its directory k-1 times, reopen everybody
		if err := reps[0].c.Restart(); err != nil {
			out.Err = "restart0: " + err.Error()
			return
		}
		src := reps[0].c.Dir
		// Restart leaves the stores open; copying a quiescent leveldb directory is safe here
		// because nothing writes between genesis and the first block.
		for i := 1; i < h.K; i++ {
			if err := reps[i].cloneFrom(src); err != nil {
				out.Err = "clone: " + err.Error()
				return
			}
		}
	}
	// facts about the genesis block
	vals := make([]map[string]string, h.K)
	var gts []string
	for i, r := range reps {
		f, _, _, err := blockFields(r.c, 1)
		if err != nil {
			out.Err = err.Error()
			return
		}
		vals[i] = f
		blk, _ := r.c.Ledger.GetBlock(1, false)
		gts = append(gts, strconv.FormatInt(blk.BlockHeader.Timestamp, 10))
	}
	same := "1"
	for _, t := range gts {
		if t != gts[0] {
			same = "0"
		}
	}
	out.Genesis["header_timestamp_equal"] = []string{same}
	for i := range vals {
		vals[i]["sig_refused"] = "[]"
	}
	out.compare(-1, vals, nil)

	for bi, b := range h.Blocks {
		vals := make([]map[string]string, h.K)
		obs := make([]blockObs, h.K)
		errs := make([]string, h.K)
		sigOracle := make([]string, h.K)
		var wg sync.WaitGroup
		for i, r := range reps {
			wg.Add(1)
			go func(i int, r *replica) {
				defer wg.Done()
				defer func() {
					if e := recover(); e != nil {
						errs[i] = fmt.Sprintf("panic: %v", e)
					}
				}()
				var res *blockOut
				if r.pending != nil {
					res, r.pending = r.pending, nil
				} else {
					if i < len(b.Restart) && b.Restart[i] != 0 {
						if err := r.c.Restart(); err != nil {
							errs[i] = fmt.Sprintf("restart replica %d before block %d: %v", i, bi, err)
							return
						}
					}
					pipe := i > 0 && i < len(b.Pipe) && b.Pipe[i] != 0 && bi+1 < len(h.Blocks)
					var e string
					res, e = r.runBlocks(h, bi, pipe)
					if e != "" {
						errs[i] = fmt.Sprintf("replica %d block %d: %s", i, bi, e)
						return
					}
				}
				vals[i] = res.fields
				sigOracle[i] = res.oracle
				obs[i] = res.obs
			}(i, r)
		}
		wg.Wait()
		for _, e := range errs {
			if e != "" {
				out.Err = e
				return
			}
		}
		agreedBefore := out.Div == nil
		out.compare(bi, vals, map[string]string{"sig_refused": sigOracle[0]})
		out.Obs = append(out.Obs, obs[0])
		out.ObsAll = append(out.ObsAll, obs)
		if agreedBefore && out.Div != nil {
			// keep going: later blocks still tell which fields are affected, but bound the work
			if bi+3 < len(h.Blocks) {
				h.Blocks = h.Blocks[:bi+3]
			}
		}
	}
	out.Agree = out.Div == nil
	if out.Agree {
		out.ObsAll = nil
	}
	return
}

// compare: every replica must report what replica 0 reports; for the fields named in oracle,
// additionally what the oracle says (its value is appended as one more entry of the digests).
func (o *output) compare(bi int, vals []map[string]string, oracle map[string]string) {
	dg := make([][]string, len(fieldNames))
	for fi, f := range fieldNames {
		dg[fi] = make([]string, len(vals))
		differ := false
		for i := range vals {
			if vals[i][f] == skipValue { // not observable on this replica for this block
				vals[i][f] = vals[0][f]
			}
			dg[fi][i] = hexOf([]byte(vals[i][f]))
			if vals[i][f] != vals[0][f] {
				differ = true
			}
		}
		if want, ok := oracle[f]; ok {
			dg[fi] = append(dg[fi], hexOf([]byte(want)))
			if want != vals[0][f] {
				differ = true
			}
		}
		if differ {
			d := divergence{Block: bi, Field: f}
			for i := range vals {
				d.Values = append(d.Values, trunc(vals[i][f]))
			}
			if want, ok := oracle[f]; ok {
				d.Values = append(d.Values, "oracle:"+trunc(want))
			}
			if o.Div == nil {
				dd := d
				o.Div = &dd
			}
			seen := false
			for _, x := range o.AllDiv {
				if x.Field == f {
					seen = true
				}
			}
			if !seen {
				o.AllDiv = append(o.AllDiv, d)
			}
		}
	}
	o.Digests = append(o.Digests, dg)
}

func main() {
	hx.Main(map[string]func(args []string) error{
		"replicas": func(args []string) error {
			return hx.Lines(func(line []byte) (interface{}, error) {
				var h history
				if err := json.Unmarshal(line, &h); err != nil {
					return output{Err: "bad history: " + err.Error()}, nil
				}
				return runHistory(&h), nil
			})
		},
	})
}
