// Driver "order": runs scripted histories against the real raft / solo ordering nodes.
//
//	raft  — NewNode (real storage: WAL + snapshot dir + leveldb in a temp dir), then the real main
//	        loop (run / listenRaftMsg / publishEntries / entriesToApply / reportState /
//	        maybeTriggerSnapshot / handleRequestMsg) over a *scripted* raft.Node (hook VerifStartWith):
//	        the history decides what Ready() hands out (SoftState leader, Entries, CommittedEntries)
//	        and which proposals reach the log.  Commit events are read from Order.Commit().
//	raftreal — same node with its real etcd-raft instance (single-member cluster, real Start()):
//	        used to validate what etcd-raft re-delivers after a restart.
//	solo  — exported constructor + Prepare/Commit/ReportState; hook only to inject a proposal with a
//	        chosen height and to read lastExec.
//
// Input: one JSON object per line (a history); output: one JSON object per line (its trace).
package main

import (
	"bufio"
	"context"
	"encoding/json"
	"fmt"
	"io/ioutil"
	"os"
	"os/exec"
	"path/filepath"
	"runtime"
	"strconv"
	"sync"
	"time"

	"github.com/coreos/etcd/raft"
	"github.com/coreos/etcd/raft/raftpb"
	"github.com/coreos/etcd/wal"
	"github.com/ethereum/go-ethereum/event"
	"github.com/libp2p/go-libp2p-core/peer"
	"github.com/meshplus/bitxhub-core/order"
	peer_mgr "github.com/meshplus/bitxhub-core/peer-mgr"
	"github.com/meshplus/bitxhub-kit/types"
	"github.com/meshplus/bitxhub-model/pb"
	"github.com/meshplus/bitxhub/internal/model/events"
	"github.com/meshplus/bitxhub/pkg/order/etcdraft"
	raftproto "github.com/meshplus/bitxhub/pkg/order/etcdraft/proto"
	"github.com/meshplus/bitxhub/pkg/order/solo"
	"github.com/meshplus/bitxhub/pkg/order/syncer"
	"github.com/meshplus/bitxhub/verifharness/hx"
	ethledger "github.com/meshplus/eth-kit/ledger"
	"github.com/sirupsen/logrus"
)

// ---------------------------------------------------------------------------------- formats

// History: Kind "raft" | "raftreal" | "solo".
// Ops are arrays: [name, int...]; tx ids are integers: account = id/100, nonce = id%100.
type History struct {
	Kind  string          `json:"kind"`
	Init  uint64          `json:"init"`  // chain height at the start
	Snap  uint64          `json:"snap"`  // raft snapshot count
	Batch uint64          `json:"batch"` // pool batch size
	ID    uint64          `json:"id"`    // raft id of this replica
	Procs int             `json:"procs"` // GOMAXPROCS for this history (0 = leave); goroutine start order is schedule dependent
	Ops   [][]interface{} `json:"ops"`
}

type Block struct {
	H   uint64   `json:"h"`
	Txs []uint64 `json:"txs"`
}

// Step is the observable after one op.
type Step struct {
	Ev   []Block     `json:"ev"`             // commit events read from Order.Commit() during this op
	Prop []Block     `json:"prop,omitempty"` // batches this node handed to raft during this op
	St   []uint64    `json:"st"`             // raft: lastExec applied snapIdx persisted justElected leader seqNo ramLast | solo: lastExec dead seqNo
	Bai  [][2]uint64 `json:"bai,omitempty"`  // blockAppliedIndex
	R    []uint64    `json:"r,omitempty"`    // op-specific result (resolved lo/hi of a ready; error code; pool flags)
	Ent  *Block      `json:"ent,omitempty"`  // the entry appended to the log by this op (kind in R[0])
	Reps []Report    `json:"reps,omitempty"` // glue: ReportState calls that reached the node during this op, in order
	Dur  uint64      `json:"dur,omitempty"`  // glue: durable height of the ledger after the op
}

// Report: one ReportState(h) forwarded from the executor's ExecutedEvent, with the node state after it
type Report struct {
	H   uint64      `json:"h"`
	St  []uint64    `json:"st"`
	Bai [][2]uint64 `json:"bai"`
	Dur uint64      `json:"dur"` // durable ledger height at the moment the report was handed to the node
}

type Trace struct {
	Steps   []Step `json:"steps"`
	Err     string `json:"err,omitempty"`
	Changed int    `json:"changed"` // commit events whose content differs at the end of the run from what was read
}

// seen: every CommitEvent the driver took from Commit(), with its projection at that moment;
// re-projected at the end of the history ("a delivered event never changes")
type seenEv struct {
	ev *pb.CommitEvent
	b  Block
}

var seenMu sync.Mutex
var seenEvs []seenEv

func recordEv(ev *pb.CommitEvent) Block {
	b := toBlock(ev.Block.BlockHeader.Number, ev.Block.Transactions)
	seenMu.Lock()
	seenEvs = append(seenEvs, seenEv{ev, b})
	seenMu.Unlock()
	return b
}

func auditEvs() int {
	seenMu.Lock()
	defer seenMu.Unlock()
	n := 0
	for _, s := range seenEvs {
		b := toBlock(s.ev.Block.BlockHeader.Number, s.ev.Block.Transactions)
		if b.H != s.b.H || len(b.Txs) != len(s.b.Txs) {
			n++
			continue
		}
		for i := range b.Txs {
			if b.Txs[i] != s.b.Txs[i] {
				n++
				break
			}
		}
	}
	seenEvs = nil
	return n
}

// ---------------------------------------------------------------------------------- helpers

func quiet() logrus.FieldLogger {
	l := logrus.New()
	l.SetOutput(ioutil.Discard)
	l.SetLevel(logrus.PanicLevel)
	return l
}

var toAddr = types.NewAddressByStr("0x3f9d18f7c3a6e5e4c0b877fe3e688ab08840b997")

var txCache = map[uint64]*pb.BxhTransaction{}
var txByHash = map[string]uint64{}
var txMu sync.Mutex

func mkTx(id uint64) *pb.BxhTransaction {
	txMu.Lock()
	defer txMu.Unlock()
	if t, ok := txCache[id]; ok {
		return t
	}
	k := hx.Key(int(id/100) + 1)
	t := &pb.BxhTransaction{From: hx.Addr(k), To: toAddr, Nonce: id % 100, Timestamp: int64(1000000 + id)}
	t.TransactionHash = t.Hash()
	txCache[id] = t
	txByHash[t.TransactionHash.String()] = id
	return t
}

func txID(t pb.Transaction) uint64 {
	txMu.Lock()
	defer txMu.Unlock()
	if id, ok := txByHash[t.GetHash().String()]; ok {
		return id
	}
	return 999999
}

func toBlock(h uint64, l *pb.Transactions) Block {
	b := Block{H: h, Txs: []uint64{}}
	if l != nil {
		for _, t := range l.Transactions {
			b.Txs = append(b.Txs, txID(t))
		}
	}
	return b
}

func mkBatch(h uint64, ids []uint64) *raftproto.RequestBatch {
	txs := make([]pb.Transaction, 0, len(ids))
	for _, id := range ids {
		txs = append(txs, mkTx(id))
	}
	return &raftproto.RequestBatch{Height: h, TxList: &pb.Transactions{Transactions: txs}, Timestamp: 1}
}

func num(x interface{}) uint64 {
	switch v := x.(type) {
	case float64:
		return uint64(v)
	case json.Number:
		u, _ := strconv.ParseUint(string(v), 10, 64)
		return u
	}
	return 0
}

func nums(x interface{}) []uint64 {
	out := []uint64{}
	if l, ok := x.([]interface{}); ok {
		for _, e := range l {
			out = append(out, num(e))
		}
	}
	return out
}

// stub peer manager: no network; every send fails, broadcasts vanish
type stubPM struct{}

func (stubPM) Start() error                                  { return nil }
func (stubPM) Stop() error                                   { return nil }
func (stubPM) AsyncSend(peer_mgr.KeyType, *pb.Message) error { return nil }
func (stubPM) Send(peer_mgr.KeyType, *pb.Message) (*pb.Message, error) {
	return nil, fmt.Errorf("no network")
}
func (stubPM) CountConnectedPeers() uint64      { return 0 }
func (stubPM) Peers() map[string]*peer.AddrInfo { return map[string]*peer.AddrInfo{} }
func (stubPM) SubscribeOrderMessage(ch chan<- peer_mgr.OrderMessageEvent) event.Subscription {
	return nil
}
func (stubPM) AddNode(uint64, *pb.VpInfo)                    {}
func (stubPM) DelNode(uint64)                                {}
func (stubPM) UpdateRouter(map[uint64]*pb.VpInfo, bool) bool { return false }
func (stubPM) OtherPeers() map[uint64]*peer.AddrInfo         { return map[uint64]*peer.AddrInfo{} }
func (stubPM) Broadcast(*pb.Message) error                   { return nil }
func (stubPM) Disconnect(map[uint64]*pb.VpInfo)              {}
func (stubPM) OrderPeers() map[uint64]*pb.VpInfo             { return map[uint64]*pb.VpInfo{} }

// ---------------------------------------------------------------------------------- glue leg
//
// kind "glue": the raft node and the REAL block executor (hx.Chain: ledger.New on leveldb + blockfile,
// executor.New) wired the way internal/app/feedhub.go wires them: every CommitEvent read from
// Order.Commit() goes to BlockExecutor.ExecuteBlock, every ExecutedEvent becomes `go Order.ReportState`.
// The chain ledger's PersistExecutionResult is gated: the history decides when the block being written
// becomes durable ("persist") and where the process dies; forwarding of reports can be held back to
// deliver them late and out of order (each report is its own goroutine in feedhub).

type gatedChainLedger struct {
	ethledger.ChainLedger
	g *glueState
}

func (l *gatedChainLedger) PersistExecutionResult(b *pb.Block, rs []*pb.Receipt, m *pb.InterchainMeta) error {
	g := l.g
	g.mu.Lock()
	inc := g.inc
	g.writing = b.BlockHeader.Number
	g.mu.Unlock()
	g.writingC <- b.BlockHeader.Number
	for {
		tok := <-g.releaseC
		if tok != inc {
			// a token for another incarnation: this process is dead, the write never completes
			if tok > inc {
				g.releaseC <- tok
				select {}
			}
			continue
		}
		break
	}
	err := l.ChainLedger.PersistExecutionResult(b, rs, m)
	g.mu.Lock()
	g.writing = 0
	g.mu.Unlock()
	return err
}

type glueState struct {
	mu       sync.Mutex
	ch       *hx.Chain
	inc      int // incarnation: bumped by a crash, everything of older incarnations is dead
	writing  uint64
	writingC chan uint64
	releaseC chan int
	handed   int // commit events given to the executor in this incarnation
	done     int // blocks durable in this incarnation
	evbuf    []Block
	reps     []Report
	hold     int
	held     []events.ExecutedEvent
	stopC    chan struct{}
}

func (r *raftRun) glueWire() {
	g := r.glue
	g.mu.Lock()
	g.inc++
	inc := g.inc
	g.handed, g.done, g.writing = 0, 0, 0
	g.held = nil
	g.stopC = make(chan struct{})
	stop := g.stopC
	g.mu.Unlock()
	g.ch.Ledger.ChainLedger = &gatedChainLedger{ChainLedger: g.ch.Ledger.ChainLedger, g: g}
	blockCh := make(chan events.ExecutedEvent)
	sub := g.ch.Exec.SubscribeBlockEvent(blockCh)
	node, exec := r.node, g.ch.Exec
	go func() { // BitXHub.start(): Order.Commit() -> BlockExecutor.ExecuteBlock
		for {
			select {
			case ev := <-node.Commit():
				if ev == nil {
					continue
				}
				g.mu.Lock()
				if g.inc != inc {
					g.mu.Unlock()
					return
				}
				g.evbuf = append(g.evbuf, toBlock(ev.Block.BlockHeader.Number, ev.Block.Transactions))
				g.handed++
				g.mu.Unlock()
				exec.ExecuteBlock(ev)
			case <-stop:
				return
			}
		}
	}()
	go func() { // BitXHub.listenEvent(): ExecutedEvent -> go Order.ReportState
		defer sub.Unsubscribe()
		for {
			select {
			case ev := <-blockCh:
				g.mu.Lock()
				if g.inc != inc {
					g.mu.Unlock()
					return
				}
				if g.hold > 0 {
					g.hold--
					g.held = append(g.held, ev)
					g.mu.Unlock()
					continue
				}
				g.mu.Unlock()
				go r.glueReport(inc, ev)
			case <-stop:
				return
			}
		}
	}()
}

func (r *raftRun) glueReport(inc int, ev events.ExecutedEvent) {
	g := r.glue
	g.mu.Lock()
	defer g.mu.Unlock()
	if g.inc != inc {
		return // the process that produced this event is dead
	}
	dur := g.ch.Ledger.GetChainMeta().Height
	r.node.ReportState(ev.Block.BlockHeader.Number, ev.Block.BlockHash, ev.TxHashList)
	r.sync()
	st, bai := r.state()
	g.reps = append(g.reps, Report{H: ev.Block.BlockHeader.Number, St: st, Bai: bai, Dur: dur})
}

// glueSettle: wait until the executor is either waiting at the gate or has nothing to do, then give
// reports that are already on their way a moment to arrive
func (r *raftRun) glueSettle() {
	g := r.glue
	for i := 0; i < 4000; i++ {
		g.mu.Lock()
		idle := g.writing != 0 || g.done == g.handed
		pendingC := len(r.node.Commit())
		g.mu.Unlock()
		if idle && pendingC == 0 {
			break
		}
		time.Sleep(500 * time.Microsecond)
	}
	// drain the "writing" notifications (informational)
	for {
		select {
		case <-g.writingC:
			continue
		default:
		}
		break
	}
	time.Sleep(25 * time.Millisecond)
}

func (r *raftRun) glueStep(op []interface{}) (Step, bool, error) {
	g := r.glue
	name, _ := op[0].(string)
	st := Step{}
	switch name {
	case "persist": // the block the ledger is writing becomes durable
		g.mu.Lock()
		w, inc := g.writing, g.inc
		g.mu.Unlock()
		if w == 0 {
			st.R = []uint64{9}
			return st, true, nil
		}
		g.releaseC <- inc
		for i := 0; i < 4000; i++ {
			if g.ch.Ledger.GetChainMeta().Height >= w {
				break
			}
			time.Sleep(500 * time.Microsecond)
		}
		g.mu.Lock()
		g.done++
		g.mu.Unlock()
		r.chain = g.ch.Ledger.GetChainMeta().Height
		// the executor announces the block after the write: give that report the time to arrive
		for i := 0; i < 200; i++ {
			g.mu.Lock()
			seen := false
			for _, rp := range g.reps {
				if rp.H == w {
					seen = true
				}
			}
			nheld := len(g.held)
			g.mu.Unlock()
			if seen || nheld > 0 {
				break
			}
			time.Sleep(500 * time.Microsecond)
		}
		st.R = []uint64{1, w}
		return st, true, nil
	case "hold": // ["hold", k]  the next k reports are not forwarded yet
		g.mu.Lock()
		g.hold += int(num(op[1]))
		g.mu.Unlock()
		st.R = []uint64{0}
		return st, true, nil
	case "release": // forward the held reports, newest first (each report is its own goroutine: any order)
		g.mu.Lock()
		held, inc := g.held, g.inc
		g.held = nil
		g.hold = 0
		g.mu.Unlock()
		for i := len(held) - 1; i >= 0; i-- {
			r.glueReport(inc, held[i])
		}
		st.R = []uint64{uint64(len(held))}
		return st, true, nil
	case "exec", "report", "tx", "entp", "dropp", "snapin":
		return st, true, fmt.Errorf("op %q is not part of the glue leg", name)
	}
	return st, false, nil
}

func (r *raftRun) glueCrash() error {
	g := r.glue
	g.mu.Lock()
	g.inc++ // everything of the old incarnation is dead from here on: no report, no write completes
	close(g.stopC)
	g.mu.Unlock()
	r.shutdown()
	if err := g.ch.Restart(); err != nil {
		return fmt.Errorf("ledger restart: %w", err)
	}
	r.chain = g.ch.Ledger.GetChainMeta().Height
	return nil
}

// netPM: one other peer (id 2) that serves the canonical chain of the run's log on GET_BLOCKS
type netPM struct {
	stubPM
	r *raftRun
}

func (p *netPM) OtherPeers() map[uint64]*peer.AddrInfo { return map[uint64]*peer.AddrInfo{2: {}} }
func (p *netPM) Send(_ peer_mgr.KeyType, m *pb.Message) (*pb.Message, error) {
	req := &pb.GetBlocksRequest{}
	if m.Type != pb.Message_GET_BLOCKS || req.Unmarshal(m.Data) != nil {
		return nil, fmt.Errorf("unexpected message")
	}
	canon := p.r.canon(uint64(len(p.r.log)))
	resp := &pb.GetBlocksResponse{}
	dropped := false
	for h := req.Start; h <= req.End; h++ {
		b, ok := canon[h]
		if !ok {
			break
		}
		if p.r.dropHeight != 0 && h == p.r.dropHeight {
			// an incomplete answer (the peer does not have this block yet): once
			dropped = true
			if h == ^uint64(0) {
				break
			}
			continue
		}
		resp.Blocks = append(resp.Blocks, &pb.Block{BlockHeader: &pb.BlockHeader{Number: h}, BlockHash: &types.Hash{},
			Transactions: mkBatch(h, b.Txs).TxList})
		if h == ^uint64(0) {
			break
		}
	}
	if dropped {
		p.r.dropHeight = 0
	}
	d, err := resp.Marshal()
	if err != nil {
		return nil, err
	}
	return &pb.Message{Type: pb.Message_GET_BLOCKS_ACK, Data: d}, nil
}

// canon: the canonical chain of the first n log entries: height -> block, plus the height reached
func (r *raftRun) canon(n uint64) map[uint64]Block {
	out := map[uint64]Block{}
	c := r.h.Init
	for i := uint64(0); i < n && i < uint64(len(r.log)); i++ {
		e := r.log[i]
		if len(e.Data) == 0 {
			continue
		}
		rb := &raftproto.RequestBatch{}
		if rb.Unmarshal(e.Data) != nil {
			continue
		}
		if rb.Height == c+1 {
			c = rb.Height
			out[c] = toBlock(rb.Height, rb.TxList)
		}
	}
	out[0] = Block{H: c}
	return out
}

// ---------------------------------------------------------------------------------- scripted raft.Node

type fakeRaft struct {
	readyc chan raft.Ready
	advc   chan struct{}
	stopc  chan struct{}
	mu     sync.Mutex
	props  [][]byte
}

func newFake() *fakeRaft {
	return &fakeRaft{readyc: make(chan raft.Ready), advc: make(chan struct{}), stopc: make(chan struct{})}
}
func (f *fakeRaft) Tick()                          {}
func (f *fakeRaft) Campaign(context.Context) error { return nil }
func (f *fakeRaft) Propose(_ context.Context, d []byte) error {
	f.mu.Lock()
	f.props = append(f.props, append([]byte{}, d...))
	f.mu.Unlock()
	return nil
}
func (f *fakeRaft) ProposeConfChange(context.Context, raftpb.ConfChange) error { return nil }
func (f *fakeRaft) Step(context.Context, raftpb.Message) error                 { return nil }
func (f *fakeRaft) Ready() <-chan raft.Ready                                   { return f.readyc }
func (f *fakeRaft) Advance()                                                   { f.advc <- struct{}{} }
func (f *fakeRaft) ApplyConfChange(raftpb.ConfChange) *raftpb.ConfState        { return &raftpb.ConfState{} }
func (f *fakeRaft) TransferLeadership(context.Context, uint64, uint64)         {}
func (f *fakeRaft) ReadIndex(context.Context, []byte) error                    { return nil }
func (f *fakeRaft) Status() raft.Status                                        { return raft.Status{} }
func (f *fakeRaft) ReportUnreachable(uint64)                                   {}
func (f *fakeRaft) ReportSnapshot(uint64, raft.SnapshotStatus)                 {}
func (f *fakeRaft) Stop()                                                      { close(f.stopc) }
func (f *fakeRaft) takeProps() [][]byte {
	f.mu.Lock()
	defer f.mu.Unlock()
	p := f.props
	f.props = nil
	return p
}

// ---------------------------------------------------------------------------------- raft driver

type raftRun struct {
	h          History
	dir        string
	real       bool
	node       *etcdraft.Node
	fake       *fakeRaft
	log        []raftpb.Entry // the shared log, entry i has Index i+1 (scripted mode)
	chain      uint64         // executed height (the harness plays the executor)
	queue      []Block        // commit events read from Commit() and not yet executed
	blocks     map[uint64]Block
	pending    []Block // proposals handed to raft and neither appended nor dropped
	dropHeight uint64  // the peer leaves this height out of one answer
	glue       *glueState
	lag        bool    // the consumer stays away from Commit() (reads only when the node loop is blocked on a full queue)
	lagbuf     []Block // what it had to take meanwhile, in order
}

func writeOrderToml(dir string, h History) error {
	snap := h.Snap
	if snap == 0 {
		snap = 1000
	}
	batch := h.Batch
	if batch == 0 {
		batch = 1
	}
	s := fmt.Sprintf(`[timed_gen_block]
enable = false
block_timeout = "2s"

[raft]
batch_timeout               = "3600s"
tick_timeout                = "0.01s"
election_tick               = 3
heartbeat_tick              = 1
max_size_per_msg            = 1048576
max_inflight_msgs           = 500
check_quorum                = false
pre_vote                    = false
disable_proposal_forwarding = true
check_interval              = "3600s"
check_alive                 = "3600s"

    [raft.mempool]
        batch_size          = %d
        pool_size           = 50000
        tx_slice_size       = 1000
        tx_slice_timeout    = "3600s"

    [raft.syncer]
        sync_blocks         = 1
        snapshot_count      = %d

[solo]
batch_timeout          = "3600s"

   [solo.mempool]
        batch_size          = %d
        pool_size           = 50000
        tx_slice_size       = 1
        tx_slice_timeout    = "0.001s"
`, batch, snap, batch)
	return ioutil.WriteFile(filepath.Join(dir, "order.toml"), []byte(s), 0644)
}

func (r *raftRun) open() error {
	id := r.h.ID
	if id == 0 {
		id = 1
	}
	nodes := map[uint64]*pb.VpInfo{id: {Id: id, Account: types.NewAddressByStr("000000000000000000000000000000000000000a").String()}}
	chain := r.chain
	o, err := etcdraft.NewNode(
		order.WithRepoRoot(r.dir),
		order.WithID(id),
		order.WithNodes(nodes),
		order.WithPeerManager(&netPM{r: r}),
		order.WithStoragePath(filepath.Join(r.dir, "storage", "order")),
		order.WithLogger(quiet()),
		order.WithApplied(chain),
		order.WithGetChainMetaFunc(func() *pb.ChainMeta {
			if r.glue != nil {
				return r.glue.ch.Ledger.GetChainMeta()
			}
			return &pb.ChainMeta{Height: r.chain, BlockHash: &types.Hash{}}
		}),
		order.WithGetAccountNonceFunc(func(*types.Address) uint64 { return 0 }),
	)
	if err != nil {
		return err
	}
	r.node = etcdraft.VerifAsNode(o)
	if r.real {
		if err := r.node.Start(); err != nil {
			return err
		}
	} else {
		r.fake = newFake()
		r.node.VerifStartWith(r.fake, 3600*time.Second)
	}
	if r.glue != nil {
		r.glueWire()
	}
	return nil
}

func (r *raftRun) sync() {
	// a round trip through the main loop: everything sent to it before has been handled
	r.node.GetPendingTxByHash(types.NewHashByStr("0x0000000000000000000000000000000000000000000000000000000000000001"))
}

func (r *raftRun) takeEvents() []Block {
	if r.glue != nil {
		g := r.glue
		g.mu.Lock()
		ev := g.evbuf
		g.evbuf = nil
		g.mu.Unlock()
		if ev == nil {
			ev = []Block{}
		}
		return ev
	}
	if r.lag {
		return []Block{}
	}
	// the loop pushes commit events before the sync point of every op, so they are all in the
	// channel by now (capacity 1024); read them without waiting
	ev := []Block{}
	for {
		select {
		case e := <-r.node.Commit():
			if e != nil {
				ev = append(ev, recordEv(e))
			}
			continue
		default:
		}
		break
	}
	r.queue = append(r.queue, ev...)
	return ev
}

func (r *raftRun) takeProps() []Block {
	if r.fake == nil {
		return nil
	}
	r.node.VerifSyncPropose()
	out := []Block{}
	for _, d := range r.fake.takeProps() {
		rb := &raftproto.RequestBatch{}
		if err := rb.Unmarshal(d); err != nil {
			continue
		}
		b := toBlock(rb.Height, rb.TxList)
		out = append(out, b)
		r.pending = append(r.pending, b)
	}
	return out
}

func (r *raftRun) state() ([]uint64, [][2]uint64) {
	s := r.node.VerifReadState()
	je := uint64(0)
	if s.JustElected {
		je = 1
	}
	return []uint64{s.LastExec, s.AppliedIndex, s.SnapshotIndex, s.Persisted, je, s.Leader, s.BatchSeqNo, s.RamLast}, s.BlockApplied
}

func (r *raftRun) shutdown() {
	r.node.Stop()
	if r.fake != nil {
		select {
		case <-r.fake.stopc:
		case <-time.After(1 * time.Second):
		}
	} else {
		time.Sleep(30 * time.Millisecond)
	}
	r.node.VerifCloseStorage()
	r.queue = nil
}

func (r *raftRun) appendEntry(kind uint64, b Block) {
	e := raftpb.Entry{Term: 1, Index: uint64(len(r.log)) + 1, Type: raftpb.EntryNormal}
	if kind == 1 {
		d, _ := mkBatch(b.H, b.Txs).Marshal()
		e.Data = d
	}
	r.log = append(r.log, e)
}

func (r *raftRun) step(op []interface{}) (Step, error) {
	name, _ := op[0].(string)
	st := Step{}
	if r.glue != nil {
		gs, handled, err := r.glueStep(op)
		if err != nil {
			return gs, err
		}
		if handled {
			return r.glueFinish(gs), nil
		}
	}
	switch name {
	case "ent": // ["ent", kind, h, [txs]]  append a scripted entry to the shared log
		kind := num(op[1])
		b := Block{H: num(op[2]), Txs: nums(op[3])}
		r.appendEntry(kind, b)
		st.R = []uint64{kind}
		st.Ent = &b
	case "entp": // append this node's oldest pending proposal to the log
		if len(r.pending) == 0 {
			st.R = []uint64{9}
		} else {
			b := r.pending[0]
			r.pending = r.pending[1:]
			r.appendEntry(1, b)
			st.R = []uint64{1}
			st.Ent = &b
		}
	case "dropp": // raft dropped the oldest pending proposal
		if len(r.pending) > 0 {
			r.pending = r.pending[1:]
			st.R = []uint64{1}
		} else {
			st.R = []uint64{9}
		}
	case "ready": // ["ready", back, n, extra, lead]   lead: 0 = no SoftState, k>0 = SoftState{Lead:k-1}
		back, n, extra, lead := num(op[1]), num(op[2]), num(op[3]), num(op[4])
		s := r.node.VerifReadState()
		lo := s.AppliedIndex + 1
		if back >= lo {
			lo = 1
		} else {
			lo -= back
		}
		if lo <= s.SnapshotIndex { // compacted entries are never handed out again
			lo = s.SnapshotIndex + 1
		}
		hi := s.AppliedIndex + n
		L := uint64(len(r.log))
		if hi > L {
			hi = L
		}
		app := hi + extra
		if app > L {
			app = L
		}
		if app < s.RamLast {
			app = s.RamLast
		}
		rd := raft.Ready{}
		if lead > 0 {
			rd.SoftState = &raft.SoftState{Lead: lead - 1}
		}
		if app > s.RamLast {
			rd.Entries = append([]raftpb.Entry{}, r.log[s.RamLast:app]...)
			rd.HardState = raftpb.HardState{Term: 1, Vote: 1, Commit: hi}
		}
		if hi >= lo {
			rd.CommittedEntries = append([]raftpb.Entry{}, r.log[lo-1:hi]...)
		}
		select {
		case r.fake.readyc <- rd:
		case <-time.After(5 * time.Second):
			return st, fmt.Errorf("ready not taken")
		}
		waited := 0
	advance:
		for {
			select {
			case <-r.fake.advc:
				break advance
			case <-time.After(2 * time.Millisecond):
				waited++
				if r.lag && len(r.node.Commit()) == cap(r.node.Commit()) {
					// the queue is full and the node loop waits for the consumer: take one block
					select {
					case e := <-r.node.Commit():
						if e != nil {
							r.lagbuf = append(r.lagbuf, recordEv(e))
						}
					default:
					}
					waited = 0
				}
				if waited > 4000 {
					return st, fmt.Errorf("no advance")
				}
			}
		}
		r.sync()
		st.R = []uint64{lo, hi, app}
	case "snapin": // ["snapin", k]  the leader sends a snapshot taken at index appliedIndex+k (data: canonical height there)
		sN := r.node.VerifReadState()
		idx := sN.AppliedIndex + num(op[1])
		if idx > uint64(len(r.log)) {
			idx = uint64(len(r.log))
		}
		hh := r.canon(idx)[0].H
		if idx <= sN.AppliedIndex || idx < sN.RamLast || !(hh > sN.LastExec || (hh == sN.LastExec && r.chain < hh)) {
			// etcd-raft sends no snapshot to a replica that is not behind it; height <= chain height makes
			// recoverFromSnapshot wait for ever (see design notes) — not part of the scripted environment
			st.R = []uint64{9}
			break
		}
		if len(op) > 2 && num(op[2]) > 0 {
			r.dropHeight = sN.LastExec + num(op[2])
		}
		cm := pb.ChainMeta{Height: hh}
		data, _ := cm.Marshal()
		rd := raft.Ready{
			Snapshot:  raftpb.Snapshot{Data: data, Metadata: raftpb.SnapshotMetadata{Index: idx, Term: 1, ConfState: raftpb.ConfState{Nodes: []uint64{sN.ID}}}},
			HardState: raftpb.HardState{Term: 1, Vote: 1, Commit: idx},
		}
		select {
		case r.fake.readyc <- rd:
		case <-time.After(5 * time.Second):
			return st, fmt.Errorf("ready not taken")
		}
		select {
		case <-r.fake.advc:
		case <-time.After(4 * time.Second):
			return st, fmt.Errorf("no advance after snapshot")
		}
		r.sync()
		r.dropHeight = 0
		st.R = []uint64{1, idx, hh}
	case "ents": // ["ents", n, h0]  n scripted batches with heights h0, h0+1, ... and no transactions
		n, h0 := num(op[1]), num(op[2])
		for i := uint64(0); i < n; i++ {
			r.appendEntry(1, Block{H: h0 + i, Txs: []uint64{}})
		}
		st.R = []uint64{n, h0}
	case "lag": // the consumer stays away from Commit() until "drain"
		r.lag = true
		st.R = []uint64{0}
	case "drain": // the consumer comes back and takes everything, in the order the queue hands it out
		out := append([]Block{}, r.lagbuf...)
		r.lagbuf = nil
		idle := 0
		for idle < 8 {
			select {
			case e := <-r.node.Commit():
				if e != nil {
					out = append(out, recordEv(e))
				}
				idle = 0
			case <-time.After(10 * time.Millisecond):
				idle++
			}
		}
		r.lag = false
		r.queue = append(r.queue, out...)
		st.Ev = out
		st.R = []uint64{uint64(len(out))}
		st.Prop = r.takeProps()
		st.St, st.Bai = r.state()
		return st, nil
	case "exec": // the executor takes the next commit event
		if len(r.queue) == 0 {
			st.R = []uint64{9}
		} else {
			b := r.queue[0]
			r.queue = r.queue[1:]
			r.chain = b.H
			r.blocks[b.H] = b
			st.R = []uint64{1, b.H}
		}
	case "report": // ["report", back]  ReportState for the executed height chain-back
		h := uint64(0)
		if num(op[1]) <= r.chain {
			h = r.chain - num(op[1])
		}
		st.R = []uint64{h}
		hashes := []*types.Hash{}
		if b, ok := r.blocks[h]; ok {
			for _, id := range b.Txs {
				hashes = append(hashes, mkTx(id).GetHash())
			}
		}
		r.node.ReportState(h, &types.Hash{}, hashes)
		r.sync()
	case "crash":
		if r.glue != nil {
			if err := r.glueCrash(); err != nil {
				return st, err
			}
		} else {
			r.shutdown()
		}
		if err := r.open(); err != nil {
			return st, err
		}
		if r.real {
			r.waitLeader()
		}
	case "tx": // ["tx", id, local]
		id, local := num(op[1]), num(op[2])
		if local == 1 {
			if err := r.node.Prepare(mkTx(id)); err != nil {
				st.R = []uint64{2}
			} else {
				st.R = []uint64{0}
			}
		} else {
			txs := &pb.Transactions{Transactions: []pb.Transaction{mkTx(id)}}
			d, _ := txs.Marshal()
			m := &raftproto.RaftMessage{Type: raftproto.RaftMessage_BROADCAST_TX, FromId: 7, Data: d}
			md, _ := m.Marshal()
			_ = r.node.Step(md)
			st.R = []uint64{0}
		}
		r.sync()
	case "propose": // raftreal only: ["propose", h, [txs]] through the node's proposal channel
		before := r.node.VerifReadState().RamLast
		ok := r.node.VerifPropose(mkBatch(num(op[1]), nums(op[2])))
		st.R = []uint64{0}
		if !ok {
			st.R = []uint64{2}
		}
		for i := 0; ok && i < 2000 && r.node.VerifReadState().RamLast == before; i++ {
			time.Sleep(time.Millisecond)
		}
		r.settle()
	case "wait":
		r.settle()
	default:
		return st, fmt.Errorf("unknown op %q", name)
	}
	if r.glue != nil {
		return r.glueFinish(st), nil
	}
	st.Prop = r.takeProps()
	st.Ev = r.takeEvents()
	st.St, st.Bai = r.state()
	return st, nil
}

// glueFinish: quiesce, then collect what the op (and the executor reacting to it) did
func (r *raftRun) glueFinish(st Step) Step {
	r.glueSettle()
	g := r.glue
	g.mu.Lock()
	st.Reps = g.reps
	g.reps = nil
	g.mu.Unlock()
	st.Prop = r.takeProps()
	st.Ev = r.takeEvents()
	g.mu.Lock() // no report may be in flight while the state is read
	st.St, st.Bai = r.state()
	st.Dur = g.ch.Ledger.GetChainMeta().Height
	g.mu.Unlock()
	return st
}

// raftreal: wait until the real raft instance is quiet (applied == ram last)
func (r *raftRun) settle() {
	for i := 0; i < 400; i++ {
		time.Sleep(5 * time.Millisecond)
		s := r.node.VerifReadState()
		if s.Leader != 0 && s.AppliedIndex == s.RamLast {
			time.Sleep(10 * time.Millisecond)
			return
		}
	}
}

func (r *raftRun) waitLeader() {
	for i := 0; i < 1000; i++ {
		if r.node.Ready() == nil {
			break
		}
		time.Sleep(5 * time.Millisecond)
	}
	r.settle()
}

func runRaft(h History, real bool) Trace {
	tr := Trace{Steps: []Step{}}
	dir, err := ioutil.TempDir("", "order")
	if err != nil {
		tr.Err = err.Error()
		return tr
	}
	defer os.RemoveAll(dir)
	if err := writeOrderToml(dir, h); err != nil {
		tr.Err = err.Error()
		return tr
	}
	etcdraft.VerifSetRestart(false)
	r := &raftRun{h: h, dir: dir, real: real, chain: h.Init, blocks: map[uint64]Block{}}
	if h.Kind == "glue" {
		ch, err := hx.NewChain(hx.ChainOpts{Quiet: true})
		if err != nil {
			tr.Err = "chain: " + err.Error()
			return tr
		}
		defer ch.Close()
		r.glue = &glueState{ch: ch, writingC: make(chan uint64, 4096), releaseC: make(chan int, 16)}
		r.chain = ch.Height()
		r.h.Init = r.chain
	}
	if err := r.open(); err != nil {
		tr.Err = "open: " + err.Error()
		return tr
	}
	if real {
		r.waitLeader()
	}
	// step 0: the state right after construction
	s0 := Step{Ev: r.takeEvents()}
	s0.St, s0.Bai = r.state()
	if r.glue != nil {
		s0.Dur = r.chain
	}
	if real {
		s0.R = r.realLog()
	}
	tr.Steps = append(tr.Steps, s0)
	for _, op := range h.Ops {
		st, err := r.step(op)
		if err != nil {
			tr.Err = err.Error()
			break
		}
		if real {
			st.R = append(st.R, 77777)
			st.R = append(st.R, r.realLog()...)
		}
		tr.Steps = append(tr.Steps, st)
	}
	if r.glue != nil {
		r.glue.mu.Lock()
		r.glue.inc++
		close(r.glue.stopC)
		r.glue.mu.Unlock()
	}
	tr.Changed = auditEvs()
	r.shutdown()
	return tr
}

// realLog: flattened view of the in-memory raft log: index, kind (0 empty/conf, 1 batch), height
func (r *raftRun) realLog() []uint64 {
	out := []uint64{}
	for _, e := range r.node.VerifRamEntries() {
		kind, h := uint64(0), uint64(0)
		if e.Type == raftpb.EntryNormal && len(e.Data) > 0 {
			rb := &raftproto.RequestBatch{}
			if rb.Unmarshal(e.Data) == nil {
				kind, h = 1, rb.Height
			}
		}
		out = append(out, e.Index, kind, h)
	}
	return out
}

// ---------------------------------------------------------------------------------- solo driver

type soloRun struct {
	h      History
	dir    string
	node   *solo.Node
	chain  uint64
	queue  []Block
	blocks map[uint64]Block
	dead   bool
	lag    bool // the consumer stays away from Commit()
}

func (r *soloRun) open() error {
	o, err := solo.NewNode(
		order.WithRepoRoot(r.dir),
		order.WithStoragePath(filepath.Join(r.dir, "storage", "order")),
		order.WithLogger(quiet()),
		order.WithPeerManager(stubPM{}),
		order.WithID(1),
		order.WithNodes(map[uint64]*pb.VpInfo{1: {Id: 1}}),
		order.WithApplied(r.chain),
		order.WithGetAccountNonceFunc(func(*types.Address) uint64 { return 0 }),
	)
	if err != nil {
		return err
	}
	r.node = solo.VerifAsNode(o)
	r.dead = false
	return r.node.Start()
}

func (r *soloRun) events(expect int, wait time.Duration) []Block {
	out := []Block{}
	if r.lag {
		// not reading: wait for lastExec to move instead
		before := r.node.VerifLastExec()
		deadline := time.Now().Add(wait)
		for expect > 0 && r.node.VerifLastExec() == before && time.Now().Before(deadline) {
			time.Sleep(200 * time.Microsecond)
		}
		time.Sleep(300 * time.Microsecond)
		return out
	}
	deadline := time.Now().Add(wait)
	for {
		select {
		case ev := <-r.node.Commit():
			out = append(out, recordEv(ev))
			continue
		default:
		}
		if len(out) >= expect || time.Now().After(deadline) {
			break
		}
		time.Sleep(200 * time.Microsecond)
	}
	// a last look after a short pause: nothing else may trickle in
	time.Sleep(300 * time.Microsecond)
	for {
		select {
		case ev := <-r.node.Commit():
			out = append(out, recordEv(ev))
			continue
		default:
		}
		break
	}
	r.queue = append(r.queue, out...)
	return out
}

func (r *soloRun) step(op []interface{}) (Step, error) {
	name, _ := op[0].(string)
	st := Step{Ev: []Block{}}
	switch name {
	case "tx": // ["tx", id, expectBlock]
		id, expect := num(op[1]), int(num(op[2]))
		tx := mkTx(id)
		before := r.node.VerifPool().Hashes
		if err := r.node.Prepare(tx); err != nil {
			st.R = []uint64{2}
			break
		}
		st.R = []uint64{0}
		// wait until the pool has taken it (or clearly does not)
		for i := 0; i < 3000; i++ {
			if r.node.VerifPool().Hashes != before {
				break
			}
			if i > 150 && expect == 0 {
				break
			}
			time.Sleep(100 * time.Microsecond)
		}
		w := 5 * time.Millisecond
		if expect > 0 {
			w = 600 * time.Millisecond
		}
		st.Ev = r.events(expect, w)
		if !r.dead && len(st.Ev) == 0 && r.node.VerifPool().Hashes != before {
			// a batch was generated and nothing came out: see whether the proposal goroutine is still there
			if !r.probe() {
				r.dead = true
			}
		}
	case "lag": // the consumer stays away from Commit() until "drain"
		r.lag = true
		st.R = []uint64{0}
	case "drain":
		r.lag = false
		st.Ev = r.events(0, 20*time.Millisecond)
		st.R = []uint64{uint64(len(st.Ev))}
	case "prop": // ["prop", h, [txs]]  a batch with a chosen height on the node's proposal channel
		ok := r.node.VerifPropose(mkBatch(num(op[1]), nums(op[2])), 300*time.Millisecond)
		if !ok {
			st.R = []uint64{2}
			r.dead = true
		} else {
			st.R = []uint64{0}
			time.Sleep(2 * time.Millisecond)
			st.Ev = r.events(0, 3*time.Millisecond)
			// probe whether the proposal goroutine is still there
			if !r.probe() {
				r.dead = true
			}
		}
	case "exec":
		if len(r.queue) == 0 {
			st.R = []uint64{9}
		} else {
			b := r.queue[0]
			r.queue = r.queue[1:]
			r.chain = b.H
			r.blocks[b.H] = b
			st.R = []uint64{1, b.H}
		}
	case "report": // ["report", back] -> R = [h, taken(0)/blocked(2)]
		h := uint64(0)
		if num(op[1]) <= r.chain {
			h = r.chain - num(op[1])
		}
		hashes := []*types.Hash{}
		b := r.blocks[h]
		for _, id := range b.Txs {
			hashes = append(hashes, mkTx(id).GetHash())
		}
		done := make(chan struct{})
		go func() {
			r.node.ReportState(h, &types.Hash{}, hashes)
			r.node.ReportState(1, &types.Hash{}, nil) // second send returns once the first has been handled
			close(done)
		}()
		select {
		case <-done:
			still := uint64(0)
			for _, hs := range hashes {
				if r.node.VerifPoolHas(hs) {
					still++
				}
			}
			st.R = []uint64{h, 0, still}
		case <-time.After(200 * time.Millisecond):
			st.R = []uint64{h, 2, 0} // the main loop is blocked on proposeC
		}
	case "crash":
		r.node.Stop()
		time.Sleep(2 * time.Millisecond)
		r.queue = nil
		if err := r.open(); err != nil {
			return st, err
		}
	default:
		return st, fmt.Errorf("unknown op %q", name)
	}
	dead := uint64(0)
	if r.dead {
		dead = 1
	}
	pd := r.node.VerifPool()
	st.St = []uint64{r.node.VerifLastExec(), dead, pd.SeqNo, uint64(pd.Hashes)}
	return st, nil
}

// probe: the proposal goroutine also answers getTxC; if it is gone the request is never taken
func (r *soloRun) probe() bool {
	done := make(chan struct{})
	go func() {
		r.node.GetPendingTxByHash(types.NewHashByStr("0x0000000000000000000000000000000000000000000000000000000000000001"))
		close(done)
	}()
	select {
	case <-done:
		return true
	case <-time.After(150 * time.Millisecond):
		return false
	}
}

func runSolo(h History) Trace {
	tr := Trace{Steps: []Step{}}
	dir, err := ioutil.TempDir("", "solo")
	if err != nil {
		tr.Err = err.Error()
		return tr
	}
	defer os.RemoveAll(dir)
	if err := writeOrderToml(dir, h); err != nil {
		tr.Err = err.Error()
		return tr
	}
	r := &soloRun{h: h, dir: dir, chain: h.Init, blocks: map[uint64]Block{}}
	if err := r.open(); err != nil {
		tr.Err = "open: " + err.Error()
		return tr
	}
	tr.Steps = append(tr.Steps, Step{Ev: []Block{}, St: []uint64{r.node.VerifLastExec(), 0, r.node.VerifPool().SeqNo, 0}})
	for _, op := range h.Ops {
		st, err := r.step(op)
		if err != nil {
			tr.Err = err.Error()
			break
		}
		tr.Steps = append(tr.Steps, st)
	}
	tr.Changed = auditEvs()
	r.node.Stop()
	return tr
}

// ---------------------------------------------------------------------------------- sync driver

// SyncHistory: the real StateSyncer (exported constructor) over a peer manager that answers
// GET_BLOCKS honestly (blocks Start..End, no transactions) except for the request ordinals listed
// in Faults, which fail.  Output: every request the peers saw, the heights pushed to the consumer.
type SyncHistory struct {
	Kind   string   `json:"kind"`
	Fetch  uint64   `json:"fetch"`
	Begin  uint64   `json:"begin"`
	End    uint64   `json:"end"`
	Peers  uint64   `json:"peers"`
	Faults []uint64 `json:"faults"`
}

type SyncTrace struct {
	Reqs [][4]uint64 `json:"reqs"` // start end peer ok
	Emit []uint64    `json:"emit"`
	Err  bool        `json:"err"`
	Hang bool        `json:"hang"`
}

type syncPM struct {
	stubPM
	mu     sync.Mutex
	n      uint64
	faults map[uint64]bool
	reqs   [][4]uint64
}

func (p *syncPM) Send(to peer_mgr.KeyType, m *pb.Message) (*pb.Message, error) {
	id, _ := to.(uint64)
	req := &pb.GetBlocksRequest{}
	if m.Type != pb.Message_GET_BLOCKS || req.Unmarshal(m.Data) != nil {
		return nil, fmt.Errorf("unexpected message")
	}
	p.mu.Lock()
	p.n++
	bad := p.faults[p.n]
	ok := uint64(1)
	if bad {
		ok = 0
	}
	p.reqs = append(p.reqs, [4]uint64{req.Start, req.End, id, ok})
	p.mu.Unlock()
	if bad {
		return nil, fmt.Errorf("scripted send failure")
	}
	resp := &pb.GetBlocksResponse{}
	for h := req.Start; ; h++ {
		resp.Blocks = append(resp.Blocks, &pb.Block{BlockHeader: &pb.BlockHeader{Number: h}, BlockHash: &types.Hash{}, Transactions: &pb.Transactions{}})
		if h == req.End || len(resp.Blocks) > 100000 {
			break
		}
	}
	d, err := resp.Marshal()
	if err != nil {
		return nil, err
	}
	return &pb.Message{Type: pb.Message_GET_BLOCKS_ACK, Data: d}, nil
}

func runSync(line []byte) SyncTrace {
	var h SyncHistory
	tr := SyncTrace{Reqs: [][4]uint64{}, Emit: []uint64{}}
	if err := json.Unmarshal(line, &h); err != nil {
		tr.Err = true
		return tr
	}
	pm := &syncPM{faults: map[uint64]bool{}}
	for _, f := range h.Faults {
		pm.faults[f] = true
	}
	ids := []uint64{}
	for i := uint64(0); i < h.Peers; i++ {
		ids = append(ids, i+2)
	}
	s, err := syncer.New(h.Fetch, pm, 1, ids, quiet())
	if err != nil {
		tr.Err = true
		return tr
	}
	ch := make(chan *pb.Block, 1024)
	errc := make(chan error, 1)
	go func() { errc <- s.SyncCFTBlocks(h.Begin, h.End, ch) }()
	deadline := time.After(5 * time.Second)
	for {
		select {
		case b := <-ch:
			if b == nil {
				if e := <-errc; e != nil {
					tr.Err = true
				}
				pm.mu.Lock()
				tr.Reqs = append(tr.Reqs, pm.reqs...)
				pm.mu.Unlock()
				return tr
			}
			tr.Emit = append(tr.Emit, b.BlockHeader.Number)
		case e := <-errc:
			if e != nil {
				tr.Err = true
				pm.mu.Lock()
				tr.Reqs = append(tr.Reqs, pm.reqs...)
				pm.mu.Unlock()
				return tr
			}
			errc <- nil
		case <-deadline:
			tr.Hang = true
			pm.mu.Lock()
			tr.Reqs = append(tr.Reqs, pm.reqs...)
			pm.mu.Unlock()
			return tr
		}
	}
}

// ---------------------------------------------------------------------------------- main

func runOne(line []byte) (interface{}, error) {
	var h History
	if err := json.Unmarshal(line, &h); err != nil {
		return nil, err
	}
	if h.Kind == "sync" {
		return runSync(line), nil
	}
	if h.Procs > 0 {
		old := runtime.GOMAXPROCS(h.Procs)
		defer runtime.GOMAXPROCS(old)
	}
	switch h.Kind {
	case "raft", "glue":
		return runRaft(h, false), nil
	case "raftreal":
		return runRaft(h, true), nil
	case "solo":
		return runSolo(h), nil
	}
	return Trace{Err: "unknown kind " + h.Kind}, nil
}

func main() {
	wal.SegmentSizeBytes = 1 << 20
	cmds := map[string]func(args []string) error{}
	cmds["worker"] = func(args []string) error {
		return hx.Lines(func(line []byte) (interface{}, error) {
			type res struct {
				v interface{}
				e error
			}
			c := make(chan res, 1)
			go func() { v, e := runOne(line); c <- res{v, e} }()
			select {
			case x := <-c:
				return x.v, x.e
			case <-time.After(60 * time.Second):
				return Trace{Steps: []Step{}, Err: "timeout: history did not finish"}, nil
			}
		})
	}
	// "order": shard the input lines over worker processes (the raft package keeps process-wide state)
	cmds["order"] = func(args []string) error {
		W := 8
		if v, err := strconv.Atoi(os.Getenv("VERIF_WORKERS")); err == nil && v > 0 {
			W = v
		}
		sc := bufio.NewScanner(os.Stdin)
		sc.Buffer(make([]byte, 1<<20), 1<<28)
		var lines [][]byte
		for sc.Scan() {
			if len(sc.Bytes()) > 0 {
				lines = append(lines, append([]byte{}, sc.Bytes()...))
			}
		}
		if W > len(lines) {
			W = len(lines)
		}
		outs := make([]string, len(lines))
		var wg sync.WaitGroup
		errs := make([]error, W)
		for w := 0; w < W; w++ {
			wg.Add(1)
			go func(w int) {
				defer wg.Done()
				cmd := exec.Command(os.Args[0], "worker")
				in, _ := cmd.StdinPipe()
				out, _ := cmd.StdoutPipe()
				cmd.Stderr = os.Stderr
				if err := cmd.Start(); err != nil {
					errs[w] = err
					return
				}
				go func() {
					for i := w; i < len(lines); i += W {
						in.Write(lines[i])
						in.Write([]byte("\n"))
					}
					in.Close()
				}()
				rs := bufio.NewScanner(out)
				rs.Buffer(make([]byte, 1<<20), 1<<28)
				i := w
				for rs.Scan() {
					// libraries under test log to stdout; result lines are JSON objects
					if t := rs.Text(); len(t) > 0 && t[0] == '{' {
						if i < len(lines) {
							outs[i] = t
						}
						i += W
					}
				}
				if err := cmd.Wait(); err != nil {
					errs[w] = err
				}
			}(w)
		}
		wg.Wait()
		bw := bufio.NewWriterSize(os.Stdout, 1<<20)
		defer bw.Flush()
		// every output line carries the position of its history in the input, so that the caller can match
		// outputs to inputs whatever else ends up on stdout
		for i, o := range outs {
			if o == "" {
				o = `{"steps":[],"err":"worker died"}`
			}
			bw.WriteString(fmt.Sprintf(`{"hid":%d,"t":`, i))
			bw.WriteString(o)
			bw.WriteString("}\n")
		}
		for _, e := range errs {
			if e != nil {
				fmt.Fprintln(os.Stderr, "worker:", e)
			}
		}
		return nil
	}
	hx.Main(cmds)
}
