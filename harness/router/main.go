// Driver "router": synthetic blocks with chosen delivery metadata are persisted into the REAL
// ledger of an hx.Chain; the REAL InterchainRouter is asked what it tells one pier, through
// GetInterchainTxWrappers (mode "get") or PutBlockAndMeta + AddPier (mode "put").
//
// input : {"pier":d,"mode":"get"|"put","blocks":[{"ntx":n,"counter":[[d,[[idx,valid,batch]..]]..],
//          "timeout":[[d,[id..]]..],"multi":[[d,[id..]]..],"tl2":bool}..]}
// output: {"obs":[{"crash":bool,"h":h,"txs":[[txid,valid,batch]..],"timeout":[..],"multi":[..],"tl2":bool}..]}
//         txid = height*1000 + position in the block; one obs per block.
package main

import (
	"encoding/json"
	"fmt"
	"strconv"
	"strings"
	"time"

	"github.com/meshplus/bitxhub-kit/types"
	"github.com/meshplus/bitxhub-model/pb"
	"github.com/meshplus/bitxhub/internal/ledger"
	"github.com/meshplus/bitxhub/internal/router"
	"github.com/meshplus/bitxhub/verifharness/hx"
)

type blockIn struct {
	Ntx     int               `json:"ntx"`
	Counter []json.RawMessage `json:"counter"`
	Timeout []json.RawMessage `json:"timeout"`
	Multi   []json.RawMessage `json:"multi"`
	Tl2     bool              `json:"tl2"`
}
type histIn struct {
	Pier   int       `json:"pier"`
	Mode   string    `json:"mode"`
	Blocks []blockIn `json:"blocks"`
}
type obs struct {
	Crash   bool     `json:"crash"`
	H       uint64   `json:"h"`
	Txs     [][3]int `json:"txs"`
	Timeout []int    `json:"timeout"`
	Multi   []int    `json:"multi"`
	Tl2     bool     `json:"tl2"`
	Err     string   `json:"err,omitempty"`
}
type histOut struct {
	Obs []obs  `json:"obs"`
	Err string `json:"err,omitempty"`
}

func chainName(d int) string { return fmt.Sprintf("chain%d", d) }
func ibtpName(k int) string  { return fmt.Sprintf("id%d", k) }
func ibtpNum(s string) int {
	n, err := strconv.Atoi(strings.TrimPrefix(s, "id"))
	if err != nil {
		return -1
	}
	return n
}

func b2i(b bool) int {
	if b {
		return 1
	}
	return 0
}

func project(w *pb.InterchainTxWrapper, ids map[string]int) obs {
	o := obs{H: w.Height, Txs: [][3]int{}, Timeout: []int{}, Multi: []int{}, Tl2: len(w.TimeoutL2Roots) > 0}
	for _, vt := range w.Transactions {
		id := -1
		if vt.Tx != nil {
			if k, ok := ids[vt.Tx.GetHash().String()]; ok {
				id = k
			}
		}
		o.Txs = append(o.Txs, [3]int{id, b2i(vt.Valid), b2i(vt.IsBatch)})
	}
	for _, s := range w.TimeoutIbtps {
		o.Timeout = append(o.Timeout, ibtpNum(s))
	}
	for _, s := range w.MultiTxIbtps {
		o.Multi = append(o.Multi, ibtpNum(s))
	}
	return o
}

func run(h histIn) (out histOut) {
	c, err := hx.NewChain(hx.ChainOpts{Quiet: true, NumAdmins: 1})
	if err != nil {
		return histOut{Err: err.Error()}
	}
	defer c.Close()
	r, err := router.New(c.Logger, c.Repo, c.Ledger, nil, 1)
	if err != nil {
		return histOut{Err: err.Error()}
	}
	pier := chainName(h.Pier)
	var pierCh chan *pb.InterchainTxWrappers
	if h.Mode == "put" {
		pierCh, _ = r.AddPier(pier)
	}
	ids := map[string]int{}
	key := hx.Key(7)
	nonce := uint64(0)
	for _, bi := range h.Blocks {
		height := c.Height() + 1
		var txs []pb.Transaction
		var hashes []*types.Hash
		var receipts []*pb.Receipt
		for i := 0; i < bi.Ntx; i++ {
			tx := hx.TransferTx(key, nonce, hx.Addr(hx.Key(8)), "1")
			nonce++
			ids[tx.GetHash().String()] = int(height)*1000 + i
			txs = append(txs, tx)
			hashes = append(hashes, tx.GetHash())
			receipts = append(receipts, &pb.Receipt{Version: []byte("1"), TxHash: tx.GetHash(), Status: pb.Receipt_SUCCESS})
		}
		meta := &pb.InterchainMeta{Counter: map[string]*pb.VerifiedIndexSlice{}, TimeoutCounter: map[string]*pb.StringSlice{}, MultiTxCounter: map[string]*pb.StringSlice{}}
		for _, raw := range bi.Counter {
			var kv []json.RawMessage
			_ = json.Unmarshal(raw, &kv)
			var d int
			var vs [][3]int
			_ = json.Unmarshal(kv[0], &d)
			_ = json.Unmarshal(kv[1], &vs)
			sl := &pb.VerifiedIndexSlice{}
			for _, v := range vs {
				sl.Slice = append(sl.Slice, &pb.VerifiedIndex{Index: uint64(v[0]), Valid: v[1] != 0, IsBatch: v[2] != 0})
			}
			meta.Counter[chainName(d)] = sl
		}
		fill := func(raws []json.RawMessage, m map[string]*pb.StringSlice) {
			for _, raw := range raws {
				var kv []json.RawMessage
				_ = json.Unmarshal(raw, &kv)
				var d int
				var ks []int
				_ = json.Unmarshal(kv[0], &d)
				_ = json.Unmarshal(kv[1], &ks)
				sl := &pb.StringSlice{}
				for _, k := range ks {
					sl.Slice = append(sl.Slice, ibtpName(k))
				}
				m[chainName(d)] = sl
			}
		}
		fill(bi.Timeout, meta.TimeoutCounter)
		fill(bi.Multi, meta.MultiTxCounter)
		if bi.Tl2 {
			meta.TimeoutL2Roots = []types.Hash{*types.NewHash([]byte("0123456789abcdef0123456789abcdef"))}
		}
		c.Ledger.PrepareBlock(nil, height)
		accounts, root := c.Ledger.FlushDirtyData()
		block := &pb.Block{
			BlockHeader: &pb.BlockHeader{Version: []byte("1.0.0"), Number: height, StateRoot: root, TxRoot: &types.Hash{}, ReceiptRoot: &types.Hash{},
				ParentHash: c.Ledger.GetChainMeta().BlockHash, Bloom: &types.Bloom{}, Timestamp: int64(height), TimeoutRoot: &types.Hash{}},
			Transactions: &pb.Transactions{Transactions: txs},
		}
		block.BlockHash = block.Hash()
		c.Ledger.PersistBlockData(&ledger.BlockData{Block: block, Receipts: receipts, Accounts: accounts, InterchainMeta: meta, TxHashList: hashes})

		o := obs{Crash: false, H: height}
		func() {
			defer func() {
				if e := recover(); e != nil {
					o = obs{Crash: true, H: height}
				}
			}()
			if h.Mode == "put" {
				r.PutBlockAndMeta(block, meta)
				select {
				case ws := <-pierCh:
					if len(ws.InterchainTxWrappers) != 1 {
						o = obs{H: height, Err: fmt.Sprintf("%d wrappers", len(ws.InterchainTxWrappers))}
						return
					}
					o = project(ws.InterchainTxWrappers[0], ids)
				case <-time.After(3 * time.Second):
					o = obs{H: height, Err: "nothing sent"}
				}
				return
			}
			ch := make(chan *pb.InterchainTxWrappers, 4)
			if err := r.GetInterchainTxWrappers(pier, height, height, ch); err != nil {
				o = obs{H: height, Err: err.Error()}
				return
			}
			var got []*pb.InterchainTxWrappers
			for ws := range ch {
				got = append(got, ws)
			}
			if len(got) != 1 || len(got[0].InterchainTxWrappers) != 1 {
				o = obs{H: height, Err: fmt.Sprintf("%d messages", len(got))}
				return
			}
			o = project(got[0].InterchainTxWrappers[0], ids)
		}()
		out.Obs = append(out.Obs, o)
	}
	return out
}

func main() {
	hx.Main(map[string]func(args []string) error{
		"router": func(args []string) error {
			return hx.Lines(func(line []byte) (interface{}, error) {
				var h histIn
				if err := json.Unmarshal(line, &h); err != nil {
					return nil, err
				}
				return run(h), nil
			})
		},
	})
}
