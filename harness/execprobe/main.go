package main

import (
	"crypto/sha256"
	"fmt"
	"os"
	"time"

	"github.com/meshplus/bitxhub-core/governance"
	"github.com/meshplus/bitxhub-model/constant"
	"github.com/meshplus/bitxhub-model/pb"
	"github.com/meshplus/bitxhub/verifharness/hx"
)

func main() {
	c, err := hx.NewChain(hx.ChainOpts{Quiet: true, LedgerType: os.Getenv("HX_LEDGER"), LeveldbType: os.Getenv("HX_LDB")})
	if err != nil {
		panic(err)
	}
	defer c.Close()
	fmt.Println("height", c.Height())
	c.SeedAppchain("chainA", "", "", governance.GovernanceAvailable)
	c.SeedAppchain("chainB", "", "", governance.GovernanceAvailable)
	c.SeedService("chainA", "svc1", true, governance.GovernanceAvailable, nil)
	c.SeedService("chainB", "svc1", true, governance.GovernanceAvailable, nil)
	u := hx.Key(1)
	ev := c.ExecBlock([]pb.Transaction{hx.TransferTx(c.Admins[0], 0, hx.Addr(u), "1000")}, true, 5*time.Second)
	fmt.Println("block2", ev != nil, c.Height(), c.Ledger.GetBalance(hx.Addr(u)))
	proof := []byte("proof-1")
	ph := sha256.Sum256(proof)
	ibtp := &pb.IBTP{From: "1356:chainA:svc1", To: "1356:chainB:svc1", Index: 1, Type: pb.IBTP_INTERCHAIN, TimeoutHeight: 3, Proof: ph[:]}
	ev = c.ExecBlock([]pb.Transaction{hx.IBTPTx(u, 0, ibtp, proof)}, true, 5*time.Second)
	r, _ := c.Ledger.GetReceipt(ev.TxHashList[0])
	fmt.Println("ibtp receipt", r.Status, string(r.Ret), ev.InterchainMeta.Counter)
	ok, ret := c.View(constant.TransactionMgrContractAddr.Address(), "GetStatus", pb.String("1356:chainA:svc1-1356:chainB:svc1-1"))
	fmt.Println("status", ok, string(ret))
	if err := c.Restart(); err != nil {
		panic(err)
	}
	ok, ret = c.View(constant.TransactionMgrContractAddr.Address(), "GetStatus", pb.String("1356:chainA:svc1-1356:chainB:svc1-1"))
	fmt.Println("status after restart", ok, string(ret), c.Height())
	ev = c.ExecBlock(nil, true, 5*time.Second)
	fmt.Println("empty block", ev != nil, c.Height())
}
