// Driver "mempool": runs the REAL transaction pool (pkg/order/mempool, built from the working
// tree) on abstract histories and prints canonicalised observables after every step.
//
// input  (one JSON object per line = one history):
//   {"cfg":{"batch":B,"pool":P,"timed":0|1,"height":H},"ledger":[n_0..n_{k-1}],
//    "univ":[[acct,nonce,id,ts],...],"ops":[op,...]}
//   op = [0,leader,local,now,[tx,...]]   ProcessTransactions (arrival clock of admitted slots := now)
//        [1]                             GenerateBlock
//        [2,[tx,...]]                    CommitTransactions(hashes of these txs)
//        [3,now,dur]                     RemoveAliveTimeoutTxs at clock now with tolerance dur
//        [4,seq]                         SetBatchSeqNo
//        [5,height,[n_0..n_{k-1}]]       restart: a fresh pool over a ledger with these nonces
//        [6,k]                           k rounds of (GenerateBlock; CommitTransactions(that batch))
//        [7,acct,n]                      the ledger oracle (GetAccountNonce) now reports n for acct
//        [8,height,[n_0..],acct,m]       restart as [5,..], with a CONCURRENT API query: GetPendingNonceByAccount(acct) is started in its
//                                        own goroutine and its first ledger look-up (the oracle callback) is held back; the observation of
//                                        the restart step and the next m operations run in a second goroutine meanwhile; if they have not
//                                        finished after a short grace (they wait behind the query's locks) the look-up is released first,
//                                        otherwise after them; both goroutines are joined before the history goes on. The model sees a
//                                        plain restart: the query is atomic with respect to pool operations.
//   tx = [acct,nonce,id,ts]; account i is the i-th smallest of k fixed addresses in the string
//   order the pool itself uses.
// output (one JSON object per history): {"steps":[obs,...]} with
//   obs = {"b":[[height,[tx,...]],...], "p":[pending nonce per account], "c":[commit nonce per account],
//          "h":HasPendingRequest, "f":IsPoolFull, "g":[GetTransaction per universe tx: null | tx],
//          "r":removed count, "d":[nonBatch,priority,parking,batched,hashes,arrivals,seqNo]}
package main

import (
	"context"
	"encoding/binary"
	"encoding/json"
	"fmt"
	"io"
	"sort"
	"time"

	"github.com/meshplus/bitxhub-kit/types"
	"github.com/meshplus/bitxhub-model/pb"
	"github.com/meshplus/bitxhub/pkg/order/mempool"
	"github.com/meshplus/bitxhub/verifharness/hx"
	"github.com/sirupsen/logrus"
)

type cfgIn struct {
	Batch  uint64 `json:"batch"`
	Pool   uint64 `json:"pool"`
	Timed  int    `json:"timed"`
	Height uint64 `json:"height"`
}

type histIn struct {
	Cfg    cfgIn               `json:"cfg"`
	Ledger []uint64            `json:"ledger"`
	Univ   [][4]int64          `json:"univ"`
	Ops    [][]json.RawMessage `json:"ops"`
}

type batchOut struct {
	Height uint64
	Txs    [][4]int64
}

func (b batchOut) MarshalJSON() ([]byte, error) {
	txs := b.Txs
	if txs == nil {
		txs = [][4]int64{}
	}
	return json.Marshal([]interface{}{b.Height, txs})
}

type obsOut struct {
	B []batchOut  `json:"b"`
	P []uint64    `json:"p"`
	C []uint64    `json:"c"`
	H int         `json:"h"`
	F int         `json:"f"`
	G []*[4]int64 `json:"g"`
	R uint64      `json:"r"`
	D []uint64    `json:"d"`
}

type histOut struct {
	Steps []obsOut `json:"steps"`
	Err   string   `json:"err,omitempty"`
}

const sec = int64(time.Second)

type world struct {
	addrs   []*types.Address
	names   []string
	index   map[string]int
	ledger  map[string]uint64
	pool    mempool.MemPool
	cfg     cfgIn
	logger  *logrus.Logger
	t0      int64
	txcache map[[4]int64]pb.Transaction
	// concurrent API query: the first ledger look-up for holdAcct waits for release
	holdAcct string
	entered  chan struct{}
	release  chan struct{}
}

func newWorld(k int) *world {
	w := &world{index: map[string]int{}, ledger: map[string]uint64{}, txcache: map[[4]int64]pb.Transaction{}}
	type an struct {
		a *types.Address
		s string
	}
	var l []an
	for i := 0; i < k; i++ {
		raw := make([]byte, 20)
		for j := range raw {
			raw[j] = byte(37*i + 11*j + 5)
		}
		a := types.NewAddress(raw)
		l = append(l, an{a, a.String()})
	}
	sort.Slice(l, func(i, j int) bool { return l[i].s < l[j].s })
	for i, x := range l {
		w.addrs = append(w.addrs, x.a)
		w.names = append(w.names, x.s)
		w.index[x.s] = i
	}
	w.logger = logrus.New()
	w.logger.SetOutput(io.Discard)
	w.logger.SetLevel(logrus.PanicLevel)
	w.t0 = time.Now().UnixNano() - 100000000*sec
	return w
}

func (w *world) fresh(height uint64, ledger []uint64) {
	w.ledger = map[string]uint64{}
	for i, n := range ledger {
		if i < len(w.names) {
			w.ledger[w.names[i]] = n
		}
	}
	led := w.ledger
	w.pool = mempool.NewMemPool(&mempool.Config{
		ID:          1,
		BatchSize:   w.cfg.Batch,
		PoolSize:    w.cfg.Pool,
		IsTimed:     w.cfg.Timed != 0,
		TxSliceSize: 1,
		ChainHeight: height,
		Logger:      w.logger,
		GetAccountNonce: func(a *types.Address) uint64 {
			v := led[a.String()]
			if w.holdAcct != "" && a.String() == w.holdAcct {
				select {
				case w.entered <- struct{}{}:
					<-w.release
				default:
				}
			}
			return v
		},
	})
}

func (w *world) mk(t [4]int64) (pb.Transaction, error) {
	if tx, ok := w.txcache[t]; ok {
		return tx, nil
	}
	if t[0] < 0 || int(t[0]) >= len(w.addrs) || t[1] < 0 {
		return nil, fmt.Errorf("bad tx %v", t)
	}
	payload := make([]byte, 8)
	binary.BigEndian.PutUint64(payload, uint64(t[2]))
	tx := &pb.BxhTransaction{From: w.addrs[t[0]], Nonce: uint64(t[1]), Timestamp: t[3], Payload: payload}
	tx.TransactionHash = tx.Hash()
	w.txcache[t] = tx
	return tx, nil
}

func (w *world) unmk(tx pb.Transaction) [4]int64 {
	var id int64 = -1
	if p := tx.GetPayload(); len(p) == 8 {
		id = int64(binary.BigEndian.Uint64(p))
	}
	a, ok := w.index[tx.GetFrom().String()]
	if !ok {
		a = -1
	}
	return [4]int64{int64(a), int64(tx.GetNonce()), id, tx.GetTimeStamp()}
}

func parseTxs(raw json.RawMessage) ([][4]int64, error) {
	var l [][4]int64
	err := json.Unmarshal(raw, &l)
	return l, err
}

func num(raw json.RawMessage) (int64, error) {
	var n int64
	err := json.Unmarshal(raw, &n)
	return n, err
}

func (w *world) step(op []json.RawMessage) (bs []batchOut, removed uint64, err error) {
	if len(op) == 0 {
		return nil, 0, fmt.Errorf("empty op")
	}
	code, err := num(op[0])
	if err != nil {
		return nil, 0, err
	}
	need := map[int64]int{0: 5, 1: 1, 2: 2, 3: 3, 4: 2, 5: 3, 6: 2, 7: 3}
	if n, ok := need[code]; !ok || len(op) != n {
		return nil, 0, fmt.Errorf("bad op %d", code)
	}
	addBatch := func(b interface {
		GetHeight() uint64
	}, txs []pb.Transaction) {
		out := batchOut{Height: b.GetHeight()}
		for _, tx := range txs {
			if tx == nil {
				out.Txs = append(out.Txs, [4]int64{-1, -1, -1, -1})
				continue
			}
			out.Txs = append(out.Txs, w.unmk(tx))
		}
		bs = append(bs, out)
	}
	switch code {
	case 0:
		leader, _ := num(op[1])
		local, _ := num(op[2])
		now, _ := num(op[3])
		l, err := parseTxs(op[4])
		if err != nil {
			return nil, 0, err
		}
		var txs []pb.Transaction
		for _, t := range l {
			tx, err := w.mk(t)
			if err != nil {
				return nil, 0, err
			}
			txs = append(txs, tx)
		}
		// which slots does this call (re)write? exactly those whose hash was unknown before and is
		// retrievable as itself afterwards; their arrival clock is moved to the abstract time.
		before := make([]bool, len(txs))
		for i, tx := range txs {
			g := w.pool.GetTransaction(tx.GetHash())
			before[i] = g != nil && g.GetHash().String() == tx.GetHash().String()
		}
		b := w.pool.ProcessTransactions(txs, leader != 0, local != 0)
		for i, tx := range txs {
			g := w.pool.GetTransaction(tx.GetHash())
			after := g != nil && g.GetHash().String() == tx.GetHash().String()
			if after && !before[i] {
				mempool.VerifSetArrival(w.pool, tx.GetFrom().String(), tx.GetNonce(), w.t0+now*sec)
			}
		}
		if b != nil {
			addBatch(b, b.TxList.Transactions)
		}
	case 1:
		if b := w.pool.GenerateBlock(); b != nil {
			addBatch(b, b.TxList.Transactions)
		}
	case 2:
		l, err := parseTxs(op[1])
		if err != nil {
			return nil, 0, err
		}
		st := &mempool.ChainState{Height: 0}
		for _, t := range l {
			tx, err := w.mk(t)
			if err != nil {
				return nil, 0, err
			}
			st.TxHashList = append(st.TxHashList, tx.GetHash())
		}
		w.pool.CommitTransactions(st)
	case 3:
		now, _ := num(op[1])
		dur, _ := num(op[2])
		// the pool reads the wall clock; arrival times were planted at t0 + t*sec, so the tolerance
		// is shifted such that (wall - arrival) > tolerance  <=>  now - t > dur
		wall := time.Now().UnixNano()
		d := (wall - w.t0) - now*sec + dur*sec + sec/2
		removed = w.pool.RemoveAliveTimeoutTxs(time.Duration(d))
	case 4:
		s, _ := num(op[1])
		w.pool.SetBatchSeqNo(uint64(s))
	case 5:
		h, _ := num(op[1])
		var led []uint64
		if err := json.Unmarshal(op[2], &led); err != nil {
			return nil, 0, err
		}
		w.fresh(uint64(h), led)
	case 6:
		k, _ := num(op[1])
		for i := int64(0); i < k; i++ {
			b := w.pool.GenerateBlock()
			if b == nil {
				continue
			}
			addBatch(b, b.TxList.Transactions)
			st := &mempool.ChainState{Height: b.Height}
			for _, tx := range b.TxList.Transactions {
				if tx != nil {
					st.TxHashList = append(st.TxHashList, tx.GetHash())
				}
			}
			w.pool.CommitTransactions(st)
		}
	case 7:
		a, _ := num(op[1])
		n, _ := num(op[2])
		if a < 0 || int(a) >= len(w.names) || n < 0 {
			return nil, 0, fmt.Errorf("bad account")
		}
		w.ledger[w.names[a]] = uint64(n)
	}
	return bs, removed, nil
}

func (w *world) observe(univ []pb.Transaction, bs []batchOut, removed uint64) obsOut {
	o := obsOut{B: bs, R: removed}
	if o.B == nil {
		o.B = []batchOut{}
	}
	for _, a := range w.names {
		o.P = append(o.P, w.pool.GetPendingNonceByAccount(a))
	}
	d := mempool.VerifDumpState(w.pool, w.names)
	o.C = d.CommitNonce
	if w.pool.HasPendingRequest() {
		o.H = 1
	}
	if w.pool.IsPoolFull() {
		o.F = 1
	}
	o.G = make([]*[4]int64, len(univ))
	for i, tx := range univ {
		if g := w.pool.GetTransaction(tx.GetHash()); g != nil {
			t := w.unmk(g)
			o.G[i] = &t
		}
	}
	o.D = []uint64{d.NonBatch, uint64(d.Priority), uint64(d.Parking), uint64(d.Batched), uint64(d.Hashes), uint64(d.Arrivals), d.SeqNo}
	return o
}

func runHistory(line []byte) (out interface{}, err error) {
	var h histIn
	if err := json.Unmarshal(line, &h); err != nil {
		return histOut{Err: "parse"}, nil
	}
	res := histOut{Steps: []obsOut{}}
	defer func() {
		if r := recover(); r != nil {
			res.Err = "panic"
			out, err = res, nil
		}
	}()
	w := newWorld(len(h.Ledger))
	w.cfg = h.Cfg
	w.fresh(h.Cfg.Height, h.Ledger)
	var univ []pb.Transaction
	for _, t := range h.Univ {
		tx, err := w.mk(t)
		if err != nil {
			return histOut{Err: "univ"}, nil
		}
		univ = append(univ, tx)
	}
	for i := 0; i < len(h.Ops); i++ {
		op := h.Ops[i]
		if code, _ := num(op[0]); len(op) == 5 && code == 8 {
			n, e := w.concurrentQuery(op, h.Ops[i+1:], univ, &res)
			if e != nil {
				res.Err = "op"
				return res, nil
			}
			i += n
			continue
		}
		bs, removed, err := w.step(op)
		if err != nil {
			res.Err = "op"
			return res, nil
		}
		res.Steps = append(res.Steps, w.observe(univ, bs, removed))
	}
	return res, nil
}

// concurrentQuery implements op 8; returns how many of the following operations ran inside the window.
func (w *world) concurrentQuery(op []json.RawMessage, rest [][]json.RawMessage, univ []pb.Transaction, res *histOut) (int, error) {
	hgt, _ := num(op[1])
	var led []uint64
	if err := json.Unmarshal(op[2], &led); err != nil {
		return 0, err
	}
	acct, _ := num(op[3])
	m, _ := num(op[4])
	if acct < 0 || int(acct) >= len(w.names) || m < 0 {
		return 0, fmt.Errorf("bad query")
	}
	if int(m) > len(rest) {
		m = int64(len(rest))
	}
	for _, o := range rest[:m] {
		if c, _ := num(o[0]); len(o) == 5 && c == 8 {
			return 0, fmt.Errorf("nested query")
		}
	}
	w.holdAcct = w.names[acct]
	w.entered = make(chan struct{})
	w.release = make(chan struct{})
	w.fresh(uint64(hgt), led)
	pool := w.pool
	apiDone := make(chan uint64, 1)
	go func() { apiDone <- pool.GetPendingNonceByAccount(w.names[acct]) }()
	select {
	case <-w.entered:
	case <-time.After(500 * time.Millisecond):
	}
	type stepRes struct {
		obs []obsOut
		err error
	}
	done := make(chan stepRes, 1)
	go func() {
		var r stepRes
		defer func() {
			if p := recover(); p != nil {
				r.err = fmt.Errorf("panic")
			}
			done <- r
		}()
		r.obs = append(r.obs, w.observe(univ, nil, 0))
		for _, o := range rest[:m] {
			bs, removed, err := w.step(o)
			if err != nil {
				r.err = err
				return
			}
			r.obs = append(r.obs, w.observe(univ, bs, removed))
		}
	}()
	var r stepRes
	select {
	case r = <-done:
		close(w.release)
	case <-time.After(40 * time.Millisecond):
		close(w.release)
		r = <-done
	}
	<-apiDone
	w.holdAcct = ""
	res.Steps = append(res.Steps, r.obs...)
	return int(m), r.err
}

// ---------------------------------------------------------------------------------------------
// Driver "txcache": runs the REAL intake cache (mempool.NewTxCache + its ListenEvent goroutine) in
// front of a real pool, with a consumer that keeps every received set (the slice itself, no copy)
// and looks at it again after later sets have arrived.
//
// input : {"size":k,"naccts":m,"univ":[tx,...],"ops":[op,...]}
//   op = [0,[tx,...]]  the transactions are accepted: pushed into RecvTxC (what Prepare does)
//        [1]           the consumer takes the next set from TxSetC (null when none is offered)
//        [2]           the set timer fires (hook VerifFireTxSetTimer; 0 when the loop is blocked handing over a set)
// output: {"steps":[{"k":0}|{"k":1,"set":[tx..]|null,"prev":[tx..]|null}|{"k":2,"ok":0|1}],
//          "end":[[tx..],...]   every taken set re-read at the end, in order (this is what goes into the pool)
//          "held":[0|1 per universe tx]  GetTransaction after ProcessTransactions(set) for every set in order,
//          "pend":[pending nonce per account]}
type cacheIn struct {
	Size   uint64              `json:"size"`
	Naccts int                 `json:"naccts"`
	Univ   [][4]int64          `json:"univ"`
	Ops    [][]json.RawMessage `json:"ops"`
}

type cacheStep struct {
	K    int         `json:"k"`
	Set  *[][4]int64 `json:"set,omitempty"`
	Prev *[][4]int64 `json:"prev,omitempty"`
	None int         `json:"none,omitempty"`
	Ok   int         `json:"ok"`
}

type cacheOut struct {
	Steps []cacheStep  `json:"steps"`
	End   [][][4]int64 `json:"end"`
	Held  []int        `json:"held"`
	Pend  []uint64     `json:"pend"`
	Err   string       `json:"err,omitempty"`
}

// wait until the ListenEvent goroutine has consumed what it can (RecvTxC empty, or blocked handing over a set)
func quiesce(tc *mempool.TxCache) {
	last, same := -1, 0
	for i := 0; i < 400 && same < 4; i++ {
		time.Sleep(150 * time.Microsecond)
		n := len(tc.RecvTxC)
		if n == last {
			same++
		} else {
			last, same = n, 0
		}
	}
}

func runCache(line []byte) (out interface{}, err error) {
	var h cacheIn
	if err := json.Unmarshal(line, &h); err != nil {
		return cacheOut{Err: "parse"}, nil
	}
	res := cacheOut{Steps: []cacheStep{}, End: [][][4]int64{}}
	defer func() {
		if r := recover(); r != nil {
			res.Err = "panic"
			out, err = res, nil
		}
	}()
	if h.Naccts <= 0 {
		h.Naccts = 1
	}
	w := newWorld(h.Naccts)
	w.cfg = cfgIn{Batch: 1000, Pool: 100000}
	w.fresh(1, make([]uint64, h.Naccts))
	tc := mempool.NewTxCache(time.Hour, h.Size, w.logger)
	ctx, cancel := context.WithCancel(context.Background())
	defer cancel()
	go tc.ListenEvent(ctx)
	show := func(l []pb.Transaction) *[][4]int64 {
		o := make([][4]int64, 0, len(l))
		for _, tx := range l {
			if tx == nil {
				o = append(o, [4]int64{-1, -1, -1, -1})
			} else {
				o = append(o, w.unmk(tx))
			}
		}
		return &o
	}
	var sets []*pb.Transactions
	for _, op := range h.Ops {
		if len(op) == 0 {
			res.Err = "op"
			return res, nil
		}
		code, _ := num(op[0])
		switch {
		case code == 0 && len(op) == 2:
			l, err := parseTxs(op[1])
			if err != nil {
				res.Err = "op"
				return res, nil
			}
			for _, t := range l {
				tx, err := w.mk(t)
				if err != nil {
					res.Err = "op"
					return res, nil
				}
				tc.RecvTxC <- tx
			}
			quiesce(tc)
			res.Steps = append(res.Steps, cacheStep{K: 0})
		case code == 1 && len(op) == 1:
			st := cacheStep{K: 1}
			select {
			case s := <-tc.TxSetC:
				st.Set = show(s.Transactions)
				if n := len(sets); n > 0 {
					st.Prev = show(sets[n-1].Transactions)
				}
				sets = append(sets, s)
			case <-time.After(40 * time.Millisecond):
				st.None = 1
			}
			quiesce(tc)
			res.Steps = append(res.Steps, st)
		case code == 2 && len(op) == 1:
			st := cacheStep{K: 2}
			if mempool.VerifFireTxSetTimer(tc, 30) {
				st.Ok = 1
			}
			quiesce(tc)
			res.Steps = append(res.Steps, st)
		default:
			res.Err = "op"
			return res, nil
		}
	}
	// a slow consumer: only now do the sets go into the pool, as they look now
	for _, s := range sets {
		res.End = append(res.End, *show(s.Transactions))
		ok := true
		for _, tx := range s.Transactions {
			if tx == nil {
				ok = false
			}
		}
		if ok {
			w.pool.ProcessTransactions(s.Transactions, false, true)
		}
	}
	for _, t := range h.Univ {
		tx, err := w.mk(t)
		if err != nil {
			res.Err = "univ"
			return res, nil
		}
		hd := 0
		if g := w.pool.GetTransaction(tx.GetHash()); g != nil && g.GetHash().String() == tx.GetHash().String() {
			hd = 1
		}
		res.Held = append(res.Held, hd)
	}
	for _, a := range w.names {
		res.Pend = append(res.Pend, w.pool.GetPendingNonceByAccount(a))
	}
	return res, nil
}

func main() {
	hx.Main(map[string]func(args []string) error{
		"mempool": func(args []string) error { return hx.Lines(runHistory) },
		"txcache": func(args []string) error { return hx.Lines(runCache) },
	})
}
