// Driver "surface" (property C17): the dispatch surface of the bolt VM on the real executor.
//
//	surface           stdin: one JSON history per line
//	                    {"audit":bool,"zero":bool,"surface":bool,"calls":[{"c":"RoleManager","m":"Manage","role":0,"args":[["s","x"],...]}, ...]}
//	                  stdout: one JSON line per history
//	                    {"setup":"ok","surface":{...},"calls":[{"ok":bool,"err":"no_permission","diff":[["Interchain","bitxhub-id"]],"acct":[...],"mem":bool,"cache":bool}]}
//
// Every history gets a fresh relay chain in a temp dir.  The world is built through the real
// register -> proposal -> vote -> Manage flow: appchains chainA / chainB (admins $ADMA / $ADMB),
// services chainA:svcA / chainB:svcB, an nvp node ($NODE), one accepted IBTP request
// chainA:svcA -> chainB:svcB (index 1), an open freeze proposal on chainB:svcB ($P0), a Store key.
// Every call is executed in a block of its own; the complete raw state (ledger hook
// VerifRawState) is dumped before and after and the difference - minus the nonce of the
// sender - is reported with keys canonicalised (addresses and hashes replaced by names).
// Roles: 0 outsider ($OUT), 1 admin of another appchain ($ADMB), 2 governance admin ($GOV1),
// 3 node account ($NODE), 4 admin of the target appchain ($ADMA).
package main

import (
	"bufio"
	"crypto/sha256"
	"encoding/hex"
	"encoding/json"
	"fmt"
	"os"
	"os/exec"
	"reflect"
	"sort"
	"strconv"
	"strings"
	"time"

	"github.com/meshplus/bitxhub-core/validator"
	"github.com/meshplus/bitxhub-kit/crypto"
	"github.com/meshplus/bitxhub-kit/types"
	"github.com/meshplus/bitxhub-model/constant"
	"github.com/meshplus/bitxhub-model/pb"
	"github.com/meshplus/bitxhub/internal/executor/contracts"
	"github.com/meshplus/bitxhub/internal/repo"
	"github.com/meshplus/bitxhub/verifharness/hx"
)

var contractAddrs = map[string]constant.BoltContractAddress{
	"InterchainContractAddr":          constant.InterchainContractAddr,
	"StoreContractAddr":               constant.StoreContractAddr,
	"RuleManagerContractAddr":         constant.RuleManagerContractAddr,
	"RoleContractAddr":                constant.RoleContractAddr,
	"AppchainMgrContractAddr":         constant.AppchainMgrContractAddr,
	"TransactionMgrContractAddr":      constant.TransactionMgrContractAddr,
	"GovernanceContractAddr":          constant.GovernanceContractAddr,
	"EthHeaderMgrContractAddr":        constant.EthHeaderMgrContractAddr,
	"NodeManagerContractAddr":         constant.NodeManagerContractAddr,
	"InterBrokerContractAddr":         constant.InterBrokerContractAddr,
	"ServiceMgrContractAddr":          constant.ServiceMgrContractAddr,
	"DappMgrContractAddr":             constant.DappMgrContractAddr,
	"ProposalStrategyMgrContractAddr": constant.ProposalStrategyMgrContractAddr,
	"ServiceRegistryContractAddr":     constant.ServiceRegistryContractAddr,
	"ServiceResolverContractAddr":     constant.ServiceResolverContractAddr,
}

type callSpec struct {
	C    string          `json:"c"` // Go type name of the contract
	M    string          `json:"m"`
	Role int             `json:"role"`
	As   string          `json:"as,omitempty"` // sender placeholder overriding the role's default account (worlds with further appchains)
	Args [][]interface{} `json:"args"`
}

type histIn struct {
	Warm    bool       `json:"warm"` // after the basic world, run the legitimate traffic of warm() before the calls
	Audit   bool       `json:"audit"`
	Zero    bool       `json:"zero"` // service_mgr proposals use the ZeroPermission strategy
	ZSwitch bool       `json:"zswitch"` // proposals of several modules are opened under the default strategy, then governance switches every module to ZeroPermission
	Sep     bool       `json:"sep"` // further appchains whose ids contain separator characters: "org" ($ADMO), "org:chainB" ($ADMS), "org-chainB" ($ADMT), "org,chainB" ($ADMU), each of the last three with a service
	ExAdmin bool       `json:"exadmin"` // four genesis governance admins plus $GOVN, $GOVM registered by vote; proposals $PX, $PY opened with both in the electorate; then $GOVN logged out (forbidden) and $GOVM frozen by approved role proposals
	ExChain bool       `json:"exchain"` // appchain chainX registered with admins "$ADMX,$EXADM" and a service svcX; then an approved UpdateAppchain drops $EXADM from the admin list
	Surface bool       `json:"surface"`
	Calls   []callSpec `json:"calls"`
}

type callOut struct {
	Ok    bool       `json:"ok"`
	Err   string     `json:"err"`
	Diff  [][]string `json:"diff"`  // [contract, canonical key, "set"|"del"]
	Acct  []string   `json:"acct"`  // account-level changes other than the sender's nonce
	Mem   bool       `json:"mem"`   // the registered InterchainManager object changed (ServiceCache nil -> non-nil)
	Cache bool       `json:"cache"` // the executor's service cache changed
	NoRun bool       `json:"norun,omitempty"`
}

type world struct {
	c       *hx.Chain
	keys    map[string]crypto.PrivateKey // $NAME -> key
	names   map[string]string            // lower-case hex address (no 0x) -> $NAME
	nonce   map[string]uint64
	p0      string
	typeOf  map[string]string // Go type name -> contract address string
	self    string            // $NAME of the sender of the call being built
	extra   map[string]string // further placeholders ($PA, $PN, $PR)
	log     []string
	hasHook bool
}

func (w *world) addr(name string) string { return hx.Addr(w.keys[name]).String() }

func (w *world) note(f string, a ...interface{}) { w.log = append(w.log, fmt.Sprintf(f, a...)) }

func (w *world) next(name string) uint64 {
	n := w.nonce[name]
	w.nonce[name] = n + 1
	return n
}

// exec runs one BVM call in its own block and returns the receipt.
func (w *world) exec(from string, to *types.Address, method string, args ...*pb.Arg) *pb.Receipt {
	tx := hx.BvmTx(w.keys[from], w.next(from), to, method, args...)
	ev := w.c.ExecBlock([]pb.Transaction{tx}, true, 20*time.Second)
	if ev == nil {
		return nil
	}
	r, err := w.c.Ledger.GetReceipt(tx.GetHash())
	if err != nil {
		return nil
	}
	return r
}

func (w *world) must(what string, r *pb.Receipt) []byte {
	if r == nil {
		panic(what + ": no receipt")
	}
	if r.Status != pb.Receipt_SUCCESS {
		panic(what + ": " + string(r.Ret))
	}
	return r.Ret
}

type govRet struct {
	ProposalID string `json:"proposal_id"`
	Extra      []byte `json:"extra"`
}

func proposalOf(ret []byte) string {
	var g govRet
	_ = json.Unmarshal(ret, &g)
	return g.ProposalID
}

// decide lets the governance admins vote until the proposal is closed.
func (w *world) decide(pid string, approve bool) {
	b := "reject"
	if approve {
		b = "approve"
	}
	for i := range w.c.Admins {
		name := fmt.Sprintf("$GOV%d", i)
		ok, ret := w.c.View(constant.GovernanceContractAddr.Address(), "GetProposal", pb.String(pid))
		if !ok {
			panic("GetProposal " + pid + ": " + string(ret))
		}
		var p contracts.Proposal
		_ = json.Unmarshal(ret, &p)
		if p.Status != contracts.PROPOSED {
			return
		}
		w.must("vote "+pid, w.exec(name, constant.GovernanceContractAddr.Address(), "Vote", pb.String(pid), pb.String(b), pb.String("r")))
	}
}

func buildWorld(in *histIn) (w *world, err error) {
	defer func() {
		if e := recover(); e != nil {
			err = fmt.Errorf("world setup: %v", e)
		}
	}()
	opts := hx.ChainOpts{NumAdmins: 2, EnableAudit: in.Audit, Quiet: true}
	if in.ExAdmin {
		opts.NumAdmins = 4
	}
	if in.Zero {
		for _, m := range []string{repo.AppchainMgr, repo.RuleMgr, repo.NodeMgr, repo.ServiceMgr, repo.RoleMgr, repo.ProposalStrategyMgr, repo.DappMgr} {
			st := &repo.Strategy{Module: m, Typ: repo.SuperMajorityApprove, Extra: repo.DefaultSimpleMajorityExpression}
			if m == repo.ServiceMgr {
				st = &repo.Strategy{Module: m, Typ: repo.ZeroPermission, Extra: ""}
			}
			opts.Strategy = append(opts.Strategy, st)
		}
	}
	c, err := hx.NewChain(opts)
	if err != nil {
		return nil, err
	}
	w = &world{c: c, keys: map[string]crypto.PrivateKey{}, names: map[string]string{}, nonce: map[string]uint64{}, typeOf: map[string]string{}}
	for i, k := range c.Admins {
		w.keys[fmt.Sprintf("$GOV%d", i)] = k
	}
	for i, n := range []string{"$OUT", "$ADMB", "$NODE", "$ADMA", "$NEW"} {
		w.keys[n] = hx.Key(1 + i)
	}
	for n, k := range w.keys {
		w.names[strings.ToLower(strings.TrimPrefix(hx.Addr(k).String(), "0x"))] = n
	}
	for n, a := range contractAddrs {
		w.names[strings.ToLower(strings.TrimPrefix(a.Address().String(), "0x"))] = "@" + n
	}
	am := constant.AppchainMgrContractAddr.Address()
	sm := constant.ServiceMgrContractAddr.Address()
	c.Ledger.SetCode(types.NewAddressByStr(warmCodeAddr), []byte{0x60, 0x00, 0x60, 0x00})
	for _, ch := range []struct{ id, adm, svc string }{{"chainA", "$ADMA", "svcA"}, {"chainB", "$ADMB", "svcB"}} {
		ret := w.must("RegisterAppchain "+ch.id, w.exec(ch.adm, am, "RegisterAppchain",
			pb.String(ch.id), pb.String("name-"+ch.id), pb.Bytes([]byte("pubkey")), pb.String("ETH"), pb.Bytes([]byte("trustroot")),
			pb.String("0x857133c5C69e6Ce66F7AD46F200B9B3573e77582"), pb.String("desc"), pb.String(validator.HappyRuleAddr), pb.String(""),
			pb.String(w.addr(ch.adm)), pb.String("reason")))
		w.decide(proposalOf(ret), true)
		ret = w.must("RegisterService "+ch.svc, w.exec(ch.adm, sm, "RegisterService",
			pb.String(ch.id), pb.String(ch.svc), pb.String("name-"+ch.svc), pb.String("CallContract"), pb.String("intro"), pb.Uint64(1),
			pb.String(""), pb.String("details"), pb.String("reason")))
		if !in.Zero {
			w.decide(proposalOf(ret), true)
		}
	}
	// nvp node
	ret := w.must("RegisterNode", w.exec("$GOV0", constant.NodeManagerContractAddr.Address(), "RegisterNode",
		pb.String(w.addr("$NODE")), pb.String("nvpNode"), pb.String(""), pb.Uint64(0), pb.String("nodeN"), pb.String("chainA"), pb.String("reason")))
	w.decide(proposalOf(ret), true)
	// one accepted interchain request chainA:svcA -> chainB:svcB
	bxh := strconv.FormatUint(c.Opts.ChainID, 10)
	proof := []byte("proof-1")
	ph := sha256.Sum256(proof)
	ibtp := &pb.IBTP{From: bxh + ":chainA:svcA", To: bxh + ":chainB:svcB", Index: 1, Type: pb.IBTP_INTERCHAIN, TimeoutHeight: 1000, Proof: ph[:]}
	tx := hx.IBTPTx(w.keys["$OUT"], w.next("$OUT"), ibtp, proof)
	ev := c.ExecBlock([]pb.Transaction{tx}, true, 20*time.Second)
	if ev == nil {
		panic("ibtp block not executed")
	}
	if r, err := c.Ledger.GetReceipt(tx.GetHash()); err != nil || r.Status != pb.Receipt_SUCCESS {
		panic(fmt.Sprintf("ibtp request rejected: %v %s", err, string(r.GetRet())))
	}
	// Store key and an open proposal
	w.must("Store.Set", w.exec("$OUT", constant.StoreContractAddr.Address(), "Set", pb.String("k"), pb.String("v")))
	if !in.Zero {
		ret = w.must("FreezeService", w.exec("$GOV0", sm, "FreezeService", pb.String("chainB:svcB"), pb.String("reason")))
		w.p0 = proposalOf(ret)
	} else {
		w.p0 = w.addr("$ADMA") + "-1" // the (already approved) registration proposal of chainA:svcA
	}
	for addr, con := range c.Exec.GetBoltContracts() {
		w.typeOf[reflect.TypeOf(con).Elem().Name()] = addr
	}
	if in.Warm && !in.Zero {
		w.warm()
	}
	if in.ZSwitch && !in.Zero {
		w.zswitch()
	}
	if in.Sep && !in.Zero {
		w.sep()
	}
	if in.ExChain && !in.Zero {
		w.exchain()
	}
	if in.ExAdmin && !in.Zero {
		w.exadmin()
	}
	return w, nil
}

// zswitch: open proposals of the appchain, node and role modules (the service module's $P0 is open already),
// all submitted under the default strategy; then the governance admins switch every module to the supported
// ZeroPermission strategy through a real UpdateAllProposalStrategy proposal.  $PA / $PN / $PR name the open proposals.
func (w *world) zswitch() {
	w.keys["$ZNEW"] = hx.Key(60)
	w.keys["$ZROLE"] = hx.Key(61)
	for _, n := range []string{"$ZNEW", "$ZROLE"} {
		w.names[strings.ToLower(strings.TrimPrefix(w.addr(n), "0x"))] = n
	}
	w.extra = map[string]string{}
	ret := w.must("RegisterAppchain chainZ", w.exec("$ZNEW", constant.AppchainMgrContractAddr.Address(), "RegisterAppchain", pb.String("chainZ"), pb.String("name-chainZ"), pb.Bytes([]byte("pk")),
		pb.String("ETH"), pb.Bytes([]byte("t")), pb.String("0x857133c5C69e6Ce66F7AD46F200B9B3573e77582"), pb.String("d"), pb.String(validator.HappyRuleAddr), pb.String(""),
		pb.String(w.addr("$ZNEW")), pb.String("r")))
	w.extra["$PA"] = proposalOf(ret)
	ret = w.must("LogoutNode", w.exec("$GOV0", constant.NodeManagerContractAddr.Address(), "LogoutNode", pb.String(w.addr("$NODE")), pb.String("r")))
	w.extra["$PN"] = proposalOf(ret)
	ret = w.must("RegisterRole", w.exec("$GOV0", constant.RoleContractAddr.Address(), "RegisterRole", pb.String(w.addr("$ZROLE")), pb.String("governanceAdmin"), pb.String(""), pb.String("r")))
	w.extra["$PR"] = proposalOf(ret)
	ret = w.must("UpdateAllProposalStrategy", w.exec("$GOV0", constant.ProposalStrategyMgrContractAddr.Address(), "UpdateAllProposalStrategy", pb.String("ZeroPermission"), pb.String(""), pb.String("r")))
	w.decide(proposalOf(ret), true)
	ok, data := w.c.View(constant.ProposalStrategyMgrContractAddr.Address(), "GetProposalStrategy", pb.String("appchain_mgr"))
	if !ok || !strings.Contains(string(data), "ZeroPermission") {
		panic("strategy switch did not take effect: " + string(data))
	}
}

func (w *world) ibtp(ib *pb.IBTP, what string) {
	proof := []byte("proof-" + what)
	ph := sha256.Sum256(proof)
	ib.Proof = ph[:]
	tx := hx.IBTPTx(w.keys["$OUT"], w.next("$OUT"), ib, proof)
	if ev := w.c.ExecBlock([]pb.Transaction{tx}, true, 20*time.Second); ev == nil {
		panic(what + ": block not executed")
	}
	if r, err := w.c.Ledger.GetReceipt(tx.GetHash()); err != nil || r.Status != pb.Receipt_SUCCESS {
		panic(fmt.Sprintf("%s rejected: %v %s", what, err, string(r.GetRet())))
	}
}

// warm runs, once, legitimate traffic through every contract-to-contract path of the registered
// (process-wide) contract objects, so that the probes that follow meet the objects in the state a
// long-running node has them in - whatever a contract keeps in its own fields between invocations
// (nothing should decide a permission from there) is set by now:
//   - receipt of the accepted request (TransactionManager.Report, ServiceManager.RecordInvokeService),
//     a one-to-many request and its receipt (BeginMultiTXs, Report on a global transaction);
//   - governance flows register -> vote -> Manage for a role and a dapp (appchain, service, node were
//     done by the basic world), with UpdateAppchainAdmin / OccupyAccount / RegisterRuleFirst /
//     Interchain.Register / UpdateProposalStrategyByRolesChange on the way;
//   - on a third appchain chainC (Fabric type: three default rules) with service svcC: a pending service
//     proposal locked by the appchain's freeze (PauseChainService, LockLowPriorityProposal), restored by its
//     activation (UnPauseChainService, UnLockLowPriorityProposal, Manage with the restored event), a
//     master-rule update (PauseAppchain, UnPauseAppchain, RuleManager.Manage) and finally the appchain's
//     logout (ClearChainService, ClearRule, EndObjProposal).
// The objects the probes aim at (chainA, chainB, their services, $P0, the node) are left as they were.
func (w *world) warm() {
	bxh := strconv.FormatUint(w.c.Opts.ChainID, 10)
	fa, fb := bxh+":chainA:svcA", bxh+":chainB:svcB"
	am := constant.AppchainMgrContractAddr.Address()
	sm := constant.ServiceMgrContractAddr.Address()
	w.ibtp(&pb.IBTP{From: fa, To: fb, Index: 1, Type: pb.IBTP_RECEIPT_SUCCESS, TimeoutHeight: 1000}, "receipt-1")
	grp := &pb.StringUint64Map{Keys: []string{fb}, Vals: []uint64{2}}
	w.ibtp(&pb.IBTP{From: fa, To: fb, Index: 2, Type: pb.IBTP_INTERCHAIN, TimeoutHeight: 1000, Group: grp}, "request-2-group")
	w.ibtp(&pb.IBTP{From: fa, To: fb, Index: 2, Type: pb.IBTP_RECEIPT_SUCCESS, TimeoutHeight: 1000, Group: grp}, "receipt-2-group")
	// role and dapp
	w.keys["$WARMROLE"] = hx.Key(50)
	w.keys["$ADMC"] = hx.Key(51)
	for _, n := range []string{"$WARMROLE", "$ADMC"} {
		w.names[strings.ToLower(strings.TrimPrefix(w.addr(n), "0x"))] = n
	}
	ret := w.must("RegisterRole", w.exec("$GOV0", constant.RoleContractAddr.Address(), "RegisterRole", pb.String(w.addr("$WARMROLE")), pb.String("governanceAdmin"), pb.String(""), pb.String("r")))
	w.decide(proposalOf(ret), false) // rejected: the electorate of the probes' world stays the two genesis admins
	ret = w.must("RegisterDapp", w.exec("$ADMC", constant.DappMgrContractAddr.Address(), "RegisterDapp", pb.String("dappW"), pb.String("tool"), pb.String("d"), pb.String("http://d"),
		pb.String(warmCodeAddr), pb.String(""), pb.String("r")))
	w.decide(proposalOf(ret), true)
	// chainC with svcC
	broker := `{"channel_id":"ch","chaincode_id":"cc","broker_version":"1"}`
	ret = w.must("RegisterAppchain chainC", w.exec("$ADMC", am, "RegisterAppchain", pb.String("chainC"), pb.String("name-chainC"), pb.Bytes([]byte("pk")), pb.String("Fabric V1.4.3"),
		pb.Bytes([]byte("t")), pb.String(broker), pb.String("d"), pb.String(validator.HappyRuleAddr), pb.String(""), pb.String(w.addr("$ADMC")), pb.String("r")))
	w.decide(proposalOf(ret), true)
	ret = w.must("RegisterService svcC", w.exec("$ADMC", sm, "RegisterService", pb.String("chainC"), pb.String("svcC"), pb.String("name-svcC"), pb.String("CallContract"), pb.String("i"),
		pb.Uint64(1), pb.String(""), pb.String("d"), pb.String("r")))
	w.decide(proposalOf(ret), true)
	pSvc := proposalOf(w.must("FreezeService svcC", w.exec("$GOV0", sm, "FreezeService", pb.String("chainC:svcC"), pb.String("r"))))
	ret = w.must("FreezeAppchain chainC", w.exec("$GOV0", am, "FreezeAppchain", pb.String("chainC"), pb.String("r")))
	w.decide(proposalOf(ret), true)
	ret = w.must("ActivateAppchain chainC", w.exec("$ADMC", am, "ActivateAppchain", pb.String("chainC"), pb.String("r")))
	w.decide(proposalOf(ret), true)
	w.decide(pSvc, false)
	ret = w.must("UpdateMasterRule chainC", w.exec("$ADMC", constant.RuleManagerContractAddr.Address(), "UpdateMasterRule", pb.String("chainC"), pb.String(validator.FabricRuleAddr), pb.String("r")))
	w.decide(proposalOf(ret), true)
	ret = w.must("LogoutAppchain chainC", w.exec("$ADMC", am, "LogoutAppchain", pb.String("chainC"), pb.String("r")))
	w.decide(proposalOf(ret), true)
}

const warmCodeAddr = "0x00000000000000000000000000000000000d0001"

// ----------------------------------------------------------------------------------------
// arguments

// spell writes an account in another hex spelling of the same 20 bytes
func spell(addr, how string) string {
	body := strings.TrimPrefix(addr, "0x")
	switch how {
	case "lower":
		return "0x" + strings.ToLower(body)
	case "upper":
		return "0x" + strings.ToUpper(body)
	case "bare":
		return body
	case "barelower":
		return strings.ToLower(body)
	}
	return addr
}

func (w *world) subst(s string) string {
	if !strings.Contains(s, "$") && !strings.Contains(s, "@") {
		return s
	}
	if strings.Contains(s, "$SELF") && w.self != "" {
		s = strings.ReplaceAll(s, "$SELF", w.self)
	}
	if strings.Contains(s, "~") {
		for n := range w.keys {
			for _, how := range []string{"barelower", "lower", "upper", "bare"} {
				if strings.Contains(s, n+"~"+how) {
					s = strings.ReplaceAll(s, n+"~"+how, spell(w.addr(n), how))
				}
			}
		}
	}
	for n := range w.keys {
		if strings.Contains(s, n) {
			s = strings.ReplaceAll(s, n, w.addr(n))
		}
	}
	for k, v := range w.extra {
		if strings.Contains(s, k) {
			s = strings.ReplaceAll(s, k, v)
		}
	}
	if strings.Contains(s, "$P0") {
		s = strings.ReplaceAll(s, "$P0", w.p0)
	}
	if strings.Contains(s, "$BXH") {
		s = strings.ReplaceAll(s, "$BXH", strconv.FormatUint(w.c.Opts.ChainID, 10))
	}
	if strings.Contains(s, "@") {
		for n, a := range contractAddrs {
			if strings.Contains(s, "@"+n) {
				s = strings.ReplaceAll(s, "@"+n, a.Address().String())
			}
		}
	}
	return s
}

func (w *world) substJSON(v interface{}) interface{} {
	switch x := v.(type) {
	case string:
		return w.subst(x)
	case []interface{}:
		for i := range x {
			x[i] = w.substJSON(x[i])
		}
		return x
	case map[string]interface{}:
		out := map[string]interface{}{}
		for k, e := range x {
			out[w.subst(k)] = w.substJSON(e)
		}
		return out
	}
	return v
}

func (w *world) buildArg(a []interface{}) (*pb.Arg, error) {
	if len(a) != 2 {
		return nil, fmt.Errorf("bad arg")
	}
	kind, _ := a[0].(string)
	switch kind {
	case "s":
		s, _ := a[1].(string)
		return pb.String(w.subst(s)), nil
	case "b": // text bytes
		s, _ := a[1].(string)
		return pb.Bytes([]byte(w.subst(s))), nil
	case "x": // hex bytes
		s, _ := a[1].(string)
		b, err := hex.DecodeString(s)
		return pb.Bytes(b), err
	case "json": // bytes = JSON encoding of the value (placeholders substituted)
		b, err := json.Marshal(w.substJSON(a[1]))
		return pb.Bytes(b), err
	case "ibtp": // bytes = marshalled pb.IBTP {from,to,index,type}
		m, _ := a[1].(map[string]interface{})
		ib := &pb.IBTP{}
		if s, ok := m["from"].(string); ok {
			ib.From = w.subst(s)
		}
		if s, ok := m["to"].(string); ok {
			ib.To = w.subst(s)
		}
		if f, ok := m["index"].(float64); ok {
			ib.Index = uint64(f)
		}
		if f, ok := m["type"].(float64); ok {
			ib.Type = pb.IBTP_Type(int32(f))
		}
		if b, ok := m["payload"].(bool); ok && b {
			ct := &pb.Content{Func: "f", Args: [][]byte{[]byte("x")}}
			ib.Payload, _ = ct.Marshal()
		}
		ib.TimeoutHeight = 1000
		b, err := ib.Marshal()
		return pb.Bytes(b), err
	case "u":
		switch x := a[1].(type) {
		case float64:
			return pb.Uint64(uint64(x)), nil
		case string:
			u, err := strconv.ParseUint(x, 10, 64)
			return pb.Uint64(u), err
		}
	case "i32":
		f, _ := a[1].(float64)
		return pb.Int32(int32(f)), nil
	case "i64":
		f, _ := a[1].(float64)
		return pb.Int64(int64(f)), nil
	case "t":
		b, _ := a[1].(bool)
		return pb.Bool(b), nil
	case "f":
		f, _ := a[1].(float64)
		return pb.Float64(f), nil
	}
	return nil, fmt.Errorf("unknown arg kind %q", kind)
}

// ----------------------------------------------------------------------------------------
// observation

type rawStater interface{ VerifRawState() map[string][]byte }

func (w *world) dump() map[string][]byte {
	if rs, ok := interface{}(w.c.Ledger.StateLedger).(rawStater); ok {
		w.hasHook = true
		return rs.VerifRawState()
	}
	return map[string][]byte{}
}

func isHex(s string) bool {
	for _, r := range s {
		if !((r >= '0' && r <= '9') || (r >= 'a' && r <= 'f') || (r >= 'A' && r <= 'F')) {
			return false
		}
	}
	return true
}

// canon replaces 0x-prefixed 40-hex addresses by their names and 64-hex hashes by '#'.
// Keys of the contracts are spelling sensitive; the records of a party are the ones under the checksummed
// spelling (what CurrentCaller()/Address.String() yield).  An address in that spelling becomes "$NAME", the same
// 20 bytes in another spelling "$NAME~alt" (0x-prefixed) or "$NAME~bare" (no prefix).
func (w *world) canon(s string) string {
	var b strings.Builder
	name := func(hexpart string, prefixed bool) (string, bool) {
		n, ok := w.names[strings.ToLower(hexpart)]
		if !ok {
			return "", false
		}
		exact := ""
		if strings.HasPrefix(n, "@") {
			exact = contractAddrs[n[1:]].Address().String()
		} else {
			exact = w.addr(n)
		}
		switch {
		case prefixed && "0x"+hexpart == exact:
			return n, true
		case prefixed:
			return n + "~alt", true
		}
		return n + "~bare", true
	}
	for i := 0; i < len(s); {
		if s[i] == '0' && i+1 < len(s) && (s[i+1] == 'x' || s[i+1] == 'X') {
			if i+66 <= len(s) && isHex(s[i+2:i+66]) {
				b.WriteString("#")
				i += 66
				continue
			}
			if i+42 <= len(s) && isHex(s[i+2:i+42]) {
				if n, ok := name(s[i+2:i+42], s[i+1] == 'x'); ok {
					b.WriteString(n)
				} else {
					b.WriteString("0x?")
				}
				i += 42
				continue
			}
		}
		if i+40 <= len(s) && isHex(s[i:i+40]) && (i == 0 || !isHex(s[i-1:i])) && (i+40 == len(s) || !isHex(s[i+40:i+41])) {
			if n, ok := name(s[i:i+40], false); ok {
				b.WriteString(n)
				i += 40
				continue
			}
		}
		c := s[i]
		if c < 0x20 || c > 0x7e {
			b.WriteString(fmt.Sprintf("\\x%02x", c))
		} else {
			b.WriteByte(c)
		}
		i++
	}
	return b.String()
}

type acct struct {
	Nonce   uint64      `json:"nonce"`
	Balance interface{} `json:"balance"`
	Code    []byte      `json:"code_hash"`
}

func (w *world) diff(before, after map[string][]byte, sender string) (state [][]string, accts []string) {
	keys := map[string]bool{}
	for k := range before {
		keys[k] = true
	}
	for k := range after {
		keys[k] = true
	}
	byAddr := map[string]string{}
	for n, a := range contractAddrs {
		byAddr[string(a.Address().Bytes())] = n
	}
	senderAddr := hx.Addr(w.keys[sender])
	for k := range keys {
		b, bok := before[k]
		a, aok := after[k]
		if bok && aok && string(a) == string(b) {
			continue
		}
		if aok && a == nil && (!bok || b == nil) {
			continue // deleted something that did not exist
		}
		switch {
		case strings.HasPrefix(k, "account-"), strings.HasPrefix(k, "code-"):
			who := w.canon(k[strings.Index(k, "-")+1:])
			if strings.HasPrefix(k, "account-") {
				var x, y acct
				_ = json.Unmarshal(b, &x)
				_ = json.Unmarshal(a, &y)
				bx, _ := json.Marshal(x.Balance)
				by, _ := json.Marshal(y.Balance)
				if !bok {
					bx = []byte("0")
				}
				balSame := string(bx) == string(by) || (!bok && (string(by) == "null" || string(by) == "0"))
				if strings.EqualFold(k[len("account-"):], senderAddr.String()) && y.Nonce == x.Nonce+1 && balSame && string(x.Code) == string(y.Code) {
					continue
				}
				what := ""
				if y.Nonce != x.Nonce {
					what += "nonce "
				}
				if !balSame {
					what += "balance "
				}
				if string(x.Code) != string(y.Code) {
					what += "code "
				}
				if what == "" {
					continue // an empty account object was materialised
				}
				accts = append(accts, who+": "+strings.TrimSpace(what))
			} else {
				accts = append(accts, who+": code")
			}
		default:
			if len(k) < 20 {
				state = append(state, []string{"?", w.canon(k), "set"})
				continue
			}
			con, ok := byAddr[k[:20]]
			if !ok {
				con = "0x" + hex.EncodeToString([]byte(k[:20]))
				if n, ok := w.names[hex.EncodeToString([]byte(k[:20]))]; ok {
					con = n
				}
			}
			op := "set"
			if aok && a == nil || !aok {
				op = "del"
			} else if !bok || b == nil {
				op = "new"
			}
			state = append(state, []string{con, w.canon(k[20:]), op})
		}
	}
	sort.Slice(state, func(i, j int) bool { return state[i][0]+"\x00"+state[i][1] < state[j][0]+"\x00"+state[j][1] })
	sort.Strings(accts)
	return
}

func (w *world) memState() bool {
	con, ok := w.c.Exec.GetBoltContracts()[constant.InterchainContractAddr.Address().String()]
	if !ok {
		return false
	}
	im, ok := con.(*contracts.InterchainManager)
	return ok && im.ServiceCache != nil
}

type cacheReader interface{ VerifServiceCache() map[string][]byte }

func (w *world) cacheState() string {
	cr, ok := interface{}(w.c.Exec).(cacheReader)
	if !ok {
		return ""
	}
	m := cr.VerifServiceCache()
	ks := make([]string, 0, len(m))
	for k := range m {
		ks = append(ks, k)
	}
	sort.Strings(ks)
	h := sha256.New()
	for _, k := range ks {
		h.Write([]byte(k))
		h.Write(m[k])
	}
	return hex.EncodeToString(h.Sum(nil))
}

var roleNames = []string{"$OUT", "$ADMB", "$GOV1", "$NODE", "$ADMA"}

// sep: appchain ids are free-form (only "" is refused), several places split ids at ':' '-' ','.  Registered through
// the real flow: "org" ($ADMO) and three appchains whose id starts with "org" + a separator, each with one service.
var sepChains = []struct{ id, adm, svc string }{{"org", "$ADMO", ""}, {"org:chainB", "$ADMS", "svc2"}, {"org-chainB", "$ADMT", "svc-2"}, {"org,chainB", "$ADMU", "svc2"}}

// decideBy lets the named admins vote until the proposal is closed.
func (w *world) decideBy(pid string, approve bool, voters ...string) {
	b := "reject"
	if approve {
		b = "approve"
	}
	for _, name := range voters {
		ok, ret := w.c.View(constant.GovernanceContractAddr.Address(), "GetProposal", pb.String(pid))
		if !ok {
			panic("GetProposal " + pid + ": " + string(ret))
		}
		var p contracts.Proposal
		_ = json.Unmarshal(ret, &p)
		if p.Status != contracts.PROPOSED {
			return
		}
		w.must("vote "+pid, w.exec(name, constant.GovernanceContractAddr.Address(), "Vote", pb.String(pid), pb.String(b), pb.String("r")))
	}
	ok, ret := w.c.View(constant.GovernanceContractAddr.Address(), "GetProposal", pb.String(pid))
	var p contracts.Proposal
	_ = json.Unmarshal(ret, &p)
	if !ok || p.Status == contracts.PROPOSED {
		panic("proposal " + pid + " still open after the votes of " + strings.Join(voters, ","))
	}
}

func (w *world) roleStatus(name string) string {
	ok, ret := w.c.View(constant.RoleContractAddr.Address(), "GetRoleInfoById", pb.String(w.addr(name)))
	if !ok {
		return "none"
	}
	role := &contracts.Role{}
	_ = json.Unmarshal(ret, role)
	return string(role.Status)
}

// exadmin: two further governance admins $GOVN, $GOVM are registered (genesis admins are super admins and cannot be
// logged out); $PX (freeze of chainA) and $PY (freeze of chainA:svcA) are opened while both are available - they are in
// the electorate -; then $GOVN is logged out and $GOVM frozen, each voted through by the four genesis admins.
func (w *world) exadmin() {
	ro := constant.RoleContractAddr.Address()
	if w.extra == nil {
		w.extra = map[string]string{}
	}
	gen := []string{"$GOV0", "$GOV1", "$GOV2", "$GOV3"}
	for i, n := range []string{"$GOVN", "$GOVM"} {
		w.keys[n] = hx.Key(90 + i)
		w.names[strings.ToLower(strings.TrimPrefix(w.addr(n), "0x"))] = n
		ret := w.must("RegisterRole "+n, w.exec("$GOV0", ro, "RegisterRole", pb.String(w.addr(n)), pb.String("governanceAdmin"), pb.String(""), pb.String("r")))
		w.decideBy(proposalOf(ret), true, gen...)
	}
	ret := w.must("FreezeAppchain chainA", w.exec("$GOV0", constant.AppchainMgrContractAddr.Address(), "FreezeAppchain", pb.String("chainA"), pb.String("r")))
	w.extra["$PX"] = proposalOf(ret)
	ret = w.must("FreezeService chainA:svcA", w.exec("$GOV1", constant.ServiceMgrContractAddr.Address(), "FreezeService", pb.String("chainA:svcA"), pb.String("r")))
	w.extra["$PY"] = proposalOf(ret)
	ret = w.must("LogoutRole $GOVN", w.exec("$GOV0", ro, "LogoutRole", pb.String(w.addr("$GOVN")), pb.String("r")))
	w.decideBy(proposalOf(ret), true, gen...)
	ret = w.must("FreezeRole $GOVM", w.exec("$GOV0", ro, "FreezeRole", pb.String(w.addr("$GOVM")), pb.String("r")))
	w.decideBy(proposalOf(ret), true, gen...)
	if a, b := w.roleStatus("$GOVN"), w.roleStatus("$GOVM"); a != "forbidden" || b != "frozen" {
		panic("exadmin: $GOVN is " + a + ", $GOVM is " + b)
	}
}

// exchain: an appchain whose admin list shrinks through an approved UpdateAppchain.
func (w *world) exchain() {
	am := constant.AppchainMgrContractAddr.Address()
	sm := constant.ServiceMgrContractAddr.Address()
	for i, n := range []string{"$ADMX", "$EXADM"} {
		w.keys[n] = hx.Key(80 + i)
		w.names[strings.ToLower(strings.TrimPrefix(w.addr(n), "0x"))] = n
	}
	ret := w.must("RegisterAppchain chainX", w.exec("$ADMX", am, "RegisterAppchain",
		pb.String("chainX"), pb.String("name-chainX"), pb.Bytes([]byte("pubkey")), pb.String("ETH"), pb.Bytes([]byte("trustroot")),
		pb.String("0x857133c5C69e6Ce66F7AD46F200B9B3573e77582"), pb.String("desc"), pb.String(validator.HappyRuleAddr), pb.String(""),
		pb.String(w.addr("$ADMX")+","+w.addr("$EXADM")), pb.String("reason")))
	w.decide(proposalOf(ret), true)
	ret = w.must("RegisterService chainX:svcX", w.exec("$EXADM", sm, "RegisterService",
		pb.String("chainX"), pb.String("svcX"), pb.String("name-svcX"), pb.String("CallContract"), pb.String("intro"), pb.Uint64(1),
		pb.String(""), pb.String("details"), pb.String("reason")))
	w.decide(proposalOf(ret), true)
	ret = w.must("UpdateAppchain chainX", w.exec("$ADMX", am, "UpdateAppchain", pb.String("chainX"), pb.String("name-chainX"), pb.String("desc"),
		pb.Bytes([]byte("trustroot")), pb.String(w.addr("$ADMX")), pb.String("reason")))
	if pid := proposalOf(ret); pid != "" {
		w.decide(pid, true)
	}
	if st := w.roleStatus("$EXADM"); st != "none" {
		panic("exchain: $EXADM still has a role record: " + st)
	}
}

func (w *world) sep() {
	am := constant.AppchainMgrContractAddr.Address()
	sm := constant.ServiceMgrContractAddr.Address()
	for i, ch := range sepChains {
		w.keys[ch.adm] = hx.Key(70 + i)
		w.names[strings.ToLower(strings.TrimPrefix(w.addr(ch.adm), "0x"))] = ch.adm
	}
	for _, ch := range sepChains {
		ret := w.must("RegisterAppchain "+ch.id, w.exec(ch.adm, am, "RegisterAppchain",
			pb.String(ch.id), pb.String("name-"+ch.id), pb.Bytes([]byte("pubkey")), pb.String("ETH"), pb.Bytes([]byte("trustroot")),
			pb.String("0x857133c5C69e6Ce66F7AD46F200B9B3573e77582"), pb.String("desc"), pb.String(validator.HappyRuleAddr), pb.String(""),
			pb.String(w.addr(ch.adm)), pb.String("reason")))
		w.decide(proposalOf(ret), true)
		if ch.svc == "" {
			continue
		}
		ret = w.must("RegisterService "+ch.id+":"+ch.svc, w.exec(ch.adm, sm, "RegisterService",
			pb.String(ch.id), pb.String(ch.svc), pb.String("name-"+ch.id+"-"+ch.svc), pb.String("CallContract"), pb.String("intro"), pb.Uint64(1),
			pb.String(""), pb.String("details"), pb.String("reason")))
		w.decide(proposalOf(ret), true)
		ok, data := w.c.View(sm, "GetServiceInfo", pb.String(ch.id+":"+ch.svc))
		if !ok || !strings.Contains(string(data), `"available"`) {
			panic("service " + ch.id + ":" + ch.svc + " not available after its registration: " + string(data))
		}
	}
}

func (w *world) doCall(cs *callSpec) callOut {
	out := callOut{}
	addr, ok := w.typeOf[cs.C]
	if !ok {
		out.NoRun = true
		out.Err = "not_registered"
		return out
	}
	if cs.Role < 0 || cs.Role >= len(roleNames) {
		out.NoRun = true
		out.Err = "bad_role"
		return out
	}
	w.self = roleNames[cs.Role]
	if cs.As != "" {
		if _, ok := w.keys[cs.As]; !ok {
			out.NoRun = true
			out.Err = "bad_sender"
			return out
		}
		w.self = cs.As
	}
	var args []*pb.Arg
	for _, a := range cs.Args {
		pa, err := w.buildArg(a)
		if err != nil {
			out.NoRun = true
			out.Err = "bad_arg"
			return out
		}
		args = append(args, pa)
	}
	sender := w.self
	before := w.dump()
	mem0, cache0 := w.memState(), w.cacheState()
	r := w.exec(sender, types.NewAddressByStr(addr), cs.M, args...)
	if r == nil {
		out.Err = "no_receipt"
		return out
	}
	after := w.dump()
	out.Ok = r.Status == pb.Receipt_SUCCESS
	if !out.Ok {
		out.Err = errClass(string(r.Ret))
	}
	out.Diff, out.Acct = w.diff(before, after, sender)
	if out.Diff == nil {
		out.Diff = [][]string{}
	}
	if out.Acct == nil {
		out.Acct = []string{}
	}
	out.Mem = mem0 != w.memState()
	out.Cache = cache0 != w.cacheState()
	return out
}

// errClass maps the receipt text of a failed call to a small enum.
func errClass(ret string) string {
	r := strings.ToLower(ret)
	switch {
	case strings.Contains(r, "not such method"):
		return "no_method"
	case strings.Contains(r, "does not have the permission") || strings.Contains(r, "have no permission") || strings.Contains(r, "no permission") ||
		strings.Contains(r, "is not allowed") || strings.Contains(r, "is not an admin account"):
		return "no_permission"
	case strings.Contains(r, "reflect:") || strings.Contains(r, "index out of range") || strings.Contains(r, "slice bounds out of range") || strings.Contains(r, "interface conversion") ||
		strings.Contains(r, "nil pointer") || strings.Contains(r, "invalid memory address"):
		return "panic"
	case strings.Contains(r, "does not belong to you"):
		return "not_owner"
	}
	return "other"
}

// ----------------------------------------------------------------------------------------
// reflection surface

type rmeth struct {
	Name string   `json:"name"`
	In   []string `json:"in"`
	NOut int      `json:"nout"`
	Resp bool     `json:"resp"`
}

func goKind(t reflect.Type, variadic bool) string {
	if variadic {
		return "variadic:" + strings.Replace(t.Elem().String(), "pb.", "pb.", 1)
	}
	switch t.String() {
	case "string":
		return "string"
	case "[]uint8":
		return "bytes"
	case "uint64":
		return "u64"
	case "int32":
		return "i32"
	case "int64":
		return "i64"
	case "bool":
		return "bool"
	case "float64":
		return "f64"
	case "interface {}":
		return "any"
	}
	return "other:" + t.String()
}

func (w *world) reflectSurface() map[string][]rmeth {
	rev := map[string]string{}
	for n, a := range contractAddrs {
		rev[a.Address().String()] = n
	}
	out := map[string][]rmeth{}
	for addr, con := range w.c.Exec.GetBoltContracts() {
		t := reflect.TypeOf(con)
		name := t.Elem().Name() + "@" + rev[addr]
		var ms []rmeth
		for i := 0; i < t.NumMethod(); i++ {
			m := t.Method(i)
			rm := rmeth{Name: m.Name, NOut: m.Type.NumOut(), In: []string{}}
			for j := 1; j < m.Type.NumIn(); j++ {
				rm.In = append(rm.In, goKind(m.Type.In(j), m.Type.IsVariadic() && j == m.Type.NumIn()-1))
			}
			if m.Type.NumOut() > 0 {
				rm.Resp = m.Type.Out(0).String() == "*boltvm.Response"
			}
			ms = append(ms, rm)
		}
		out[name] = ms
	}
	return out
}

// filterStderr: debug.PrintStack output of recovered panics is dropped; a fatal "panic:" report
// (written by the runtime directly to fd 2 as the process dies) still reaches the parent because
// recovered-panic traces start with "goroutine " while the fatal report starts with "panic: ".
// Simplest robust way: leave fd 2 alone but make it a pipe the parent reads fully (done by the parent).
func filterStderr() {}

// runChildHistory processes one history in this process and prints one JSON line per call
// (prefixed by a header line) so that the parent knows how far it got if the executor dies.
func runChildHistory(line []byte) error {
	var in histIn
	if err := json.Unmarshal(line, &in); err != nil {
		return err
	}
	enc := json.NewEncoder(os.Stdout)
	w, err := buildWorld(&in)
	hdr := map[string]interface{}{"setup": "ok"}
	if err != nil {
		hdr["setup"] = err.Error()
		_ = enc.Encode(hdr)
		if w != nil && w.c != nil {
			w.c.Close()
		}
		return nil
	}
	defer w.c.Close()
	if in.Surface {
		hdr["surface"] = w.reflectSurface()
	}
	hdr["p0"] = w.canon(w.p0)
	_ = w.dump()
	hdr["hook"] = w.hasHook
	_, hasCache := interface{}(w.c.Exec).(cacheReader)
	hdr["cachehook"] = hasCache
	if err := enc.Encode(hdr); err != nil {
		return err
	}
	for i := range in.Calls {
		if err := enc.Encode(w.doCall(&in.Calls[i])); err != nil {
			return err
		}
	}
	return nil
}

// runHistory (parent): run the history in child processes; a call that kills the executor
// (an unrecovered panic in the block-execution goroutine ends the process) is reported as
// {"crash":true} and the remaining calls continue in a new child with a new world.
func runHistory(line []byte) (interface{}, error) {
	var in histIn
	if err := json.Unmarshal(line, &in); err != nil {
		return nil, err
	}
	res := map[string]interface{}{"setup": "ok"}
	outs := make([]json.RawMessage, 0, len(in.Calls))
	start := 0
	first := true
	crashes := 0
	for first || start < len(in.Calls) {
		sub := in
		sub.Calls = in.Calls[start:]
		sub.Surface = in.Surface && first
		data, _ := json.Marshal(sub)
		cmd := exec.Command(os.Args[0], "surface-child")
		cmd.Stdin = strings.NewReader(string(data) + "\n")
		cmd.Env = os.Environ()
		var stderr strings.Builder
		cmd.Stderr = &stderr
		out, _ := cmd.Output()
		lines := strings.Split(strings.TrimSpace(string(out)), "\n")
		if len(lines) == 0 || lines[0] == "" {
			res["setup"] = "child produced nothing: " + tail(stderr.String(), 400)
			break
		}
		var hdr map[string]interface{}
		if err := json.Unmarshal([]byte(lines[0]), &hdr); err != nil {
			res["setup"] = "bad child header"
			break
		}
		if hdr["setup"] != "ok" {
			res["setup"] = hdr["setup"]
			break
		}
		if first {
			for k, v := range hdr {
				res[k] = v
			}
		}
		first = false
		got := 0
		for _, l := range lines[1:] {
			if strings.HasPrefix(l, "{") {
				outs = append(outs, json.RawMessage(l))
				got++
			}
		}
		start += got
		if start < len(in.Calls) {
			// the child died while executing call number `start`
			crashes++
			cls := "crash"
			if m := panicLine(stderr.String()); m != "" {
				cls = "crash: " + m
			}
			b, _ := json.Marshal(map[string]interface{}{"ok": false, "err": cls, "crash": true, "diff": [][]string{}, "acct": []string{}, "mem": false, "cache": false})
			outs = append(outs, json.RawMessage(b))
			start++
			if crashes > 200 {
				res["setup"] = "too many crashes"
				break
			}
		}
	}
	res["calls"] = outs
	return res, nil
}

func tail(s string, n int) string {
	if len(s) > n {
		return s[len(s)-n:]
	}
	return s
}

// panicLine extracts the site of the fatal panic ("panic: ..." is followed by the goroutine's frames).
func panicLine(stderr string) string {
	i := strings.LastIndex(stderr, "\npanic: ")
	if i < 0 {
		return ""
	}
	rest := stderr[i+1:]
	site := ""
	for _, l := range strings.Split(rest, "\n") {
		if strings.HasPrefix(l, "github.com/meshplus/bitxhub/") && !strings.Contains(l, "verifharness") {
			site = l
			if j := strings.Index(site, "("); j > 0 {
				site = site[:j]
			}
			site = strings.TrimPrefix(site, "github.com/meshplus/bitxhub/")
			break
		}
	}
	return site
}

func main() {
	hx.Main(map[string]func(args []string) error{
		"surface": func(_ []string) error {
			// histories are independent (own world, own temp dir, own child process): run them on a
			// small worker pool and print the results in input order
			sc := bufio.NewScanner(os.Stdin)
			sc.Buffer(make([]byte, 1<<20), 1<<28)
			var lines [][]byte
			for sc.Scan() {
				if len(sc.Bytes()) > 0 {
					lines = append(lines, append([]byte(nil), sc.Bytes()...))
				}
			}
			if err := sc.Err(); err != nil {
				return err
			}
			par := 8
			if v, err := strconv.Atoi(os.Getenv("VERIF_PAR")); err == nil && v > 0 {
				par = v
			}
			results := make([]interface{}, len(lines))
			errs := make([]error, len(lines))
			jobs := make(chan int)
			done := make(chan bool)
			for wk := 0; wk < par; wk++ {
				go func() {
					for i := range jobs {
						results[i], errs[i] = runHistory(lines[i])
					}
					done <- true
				}()
			}
			for i := range lines {
				jobs <- i
			}
			close(jobs)
			for wk := 0; wk < par; wk++ {
				<-done
			}
			w := bufio.NewWriterSize(os.Stdout, 1<<20)
			defer w.Flush()
			enc := json.NewEncoder(w)
			for i := range lines {
				if errs[i] != nil {
					return errs[i]
				}
				if err := enc.Encode(results[i]); err != nil {
					return err
				}
			}
			return nil
		},
		"surface-child": func(_ []string) error {
			if os.Getenv("VERIF_SURFACE_STDERR") == "" {
				// boltvm.Run prints a stack trace for every recovered panic; keep only the fatal one
				filterStderr()
			}
			sc := bufio.NewScanner(os.Stdin)
			sc.Buffer(make([]byte, 1<<20), 1<<28)
			for sc.Scan() {
				if len(sc.Bytes()) == 0 {
					continue
				}
				return runChildHistory(sc.Bytes())
			}
			return sc.Err()
		},
	})
}
