package main

import (
	"bufio"
	"encoding/json"
	"fmt"
	"os"
	"os/exec"
	"strconv"
	"time"

	"github.com/meshplus/bitxhub/pkg/order/syncer"
	"github.com/meshplus/bitxhub/verifharness/hx"
)

// ranges: one JSON object per line {"fetch":f,"begin":b,"end":e,"hostile":bool}
// output: {"err":bool,"hang":bool,"ranges":[[b,e],...]}
type rangesIn struct {
	Fetch   uint64 `json:"fetch"`
	Begin   uint64 `json:"begin"`
	End     uint64 `json:"end"`
	Hostile bool   `json:"hostile"`
}
type rangesOut struct {
	Err    bool        `json:"err"`
	Hang   bool        `json:"hang"`
	Ranges [][2]uint64 `json:"ranges"`
}

func rangesOne(in rangesIn) rangesOut {
	rs, err := syncer.VerifCalcRangeHeight(in.Fetch, in.Begin, in.End)
	if err != nil {
		return rangesOut{Err: true}
	}
	return rangesOut{Ranges: rs}
}

func main() {
	cmds := map[string]func(args []string) error{}
	cmds["ranges-one"] = func(args []string) error {
		f, _ := strconv.ParseUint(args[0], 10, 64)
		b, _ := strconv.ParseUint(args[1], 10, 64)
		e, _ := strconv.ParseUint(args[2], 10, 64)
		out := rangesOne(rangesIn{Fetch: f, Begin: b, End: e})
		if len(out.Ranges) > 64 {
			out.Ranges = out.Ranges[:64]
		}
		return json.NewEncoder(os.Stdout).Encode(out)
	}
	cmds["ranges"] = func(args []string) error {
		sc := bufio.NewScanner(os.Stdin)
		sc.Buffer(make([]byte, 1<<20), 1<<26)
		w := bufio.NewWriter(os.Stdout)
		defer w.Flush()
		enc := json.NewEncoder(w)
		for sc.Scan() {
			var in rangesIn
			if err := json.Unmarshal(sc.Bytes(), &in); err != nil {
				return err
			}
			if !in.Hostile {
				if err := enc.Encode(rangesOne(in)); err != nil {
					return err
				}
				continue
			}
			// possibly non-terminating input: run it in a child process with a deadline
			cmd := exec.Command(os.Args[0], "ranges-one", fmt.Sprint(in.Fetch), fmt.Sprint(in.Begin), fmt.Sprint(in.End))
			done := make(chan []byte, 1)
			go func() { o, _ := cmd.Output(); done <- o }()
			select {
			case o := <-done:
				var out rangesOut
				if json.Unmarshal(o, &out) != nil {
					out = rangesOut{Hang: true}
				}
				enc.Encode(out)
			case <-time.After(400 * time.Millisecond):
				if cmd.Process != nil {
					cmd.Process.Kill()
				}
				<-done
				enc.Encode(rangesOut{Hang: true})
			}
		}
		return sc.Err()
	}
	hx.Main(cmds)
}
