package main

// execframe digest: the REAL utils.EncodePackedAndHash (what the validators of a relay chain sign
// and what the multi-signature check of pkg/proof recomputes) on probe tuples.
//
// stdin: one JSON probe per line {"from","to","index","type","hash"(hex of Payload.Hash),
// "status","pre"(hex: the pre-image the model's fixed-width packing gives for these fields)};
// stdout per probe: {"digest": hex of the real function's answer, "pre_digest": hex of
// keccak256(pre), "err": text}.  Index / type / status are decimal strings (uint64 / int32).

import (
	"bufio"
	"encoding/hex"
	"encoding/json"
	"os"
	"strconv"

	"github.com/ethereum/go-ethereum/crypto"
	"github.com/meshplus/bitxhub-model/pb"
	"github.com/meshplus/bitxhub/pkg/utils"
)

type digestProbe struct {
	From   string `json:"from"`
	To     string `json:"to"`
	Index  string `json:"index"`
	Type   string `json:"type"`
	Hash   string `json:"hash"`
	Status string `json:"status"`
	Pre    string `json:"pre"`
}

func runDigest(_ []string) error {
	sc := bufio.NewScanner(os.Stdin)
	sc.Buffer(make([]byte, 1<<20), 1<<26)
	w := bufio.NewWriter(os.Stdout)
	defer w.Flush()
	enc := json.NewEncoder(w)
	for sc.Scan() {
		if len(sc.Bytes()) == 0 {
			continue
		}
		var p digestProbe
		out := map[string]interface{}{}
		if err := json.Unmarshal(sc.Bytes(), &p); err != nil {
			out["err"] = "probe: " + err.Error()
			_ = enc.Encode(out)
			continue
		}
		idx, _ := strconv.ParseUint(p.Index, 10, 64)
		typ, _ := strconv.ParseInt(p.Type, 10, 32)
		st, _ := strconv.ParseInt(p.Status, 10, 32)
		h, _ := hex.DecodeString(p.Hash)
		pd := &pb.Payload{Hash: h}
		pdb, err := pd.Marshal()
		if err != nil {
			out["err"] = "payload: " + err.Error()
			_ = enc.Encode(out)
			continue
		}
		ib := &pb.IBTP{From: p.From, To: p.To, Index: idx, Type: pb.IBTP_Type(typ), Payload: pdb}
		d, err := utils.EncodePackedAndHash(ib, pb.TransactionStatus(st))
		if err != nil {
			out["err"] = err.Error()
		}
		out["digest"] = hex.EncodeToString(d)
		pre, _ := hex.DecodeString(p.Pre)
		out["pre_digest"] = hex.EncodeToString(crypto.Keccak256(pre))
		_ = enc.Encode(out)
	}
	return nil
}
