package main

// Two tiny bolt contracts registered through agency.RegisterContractConstructor (the way plugin
// contracts are), only when a history asks for them (cfg.plugins): an EMITTER that posts an
// interchain event stamped with GetTxIndex() - what InterchainManager.notifySrcDst does - and a
// RELAY that reaches it through CrossInvoke - what InterBroker.EmitInterchain does with the
// interchain manager.  They give histories an event posted from a CROSS-INVOKED contract without
// any appchain / service registration, nested calls, inner frames that fail, and failures after
// the event.

import (
	"github.com/meshplus/bitxhub-core/agency"
	"github.com/meshplus/bitxhub-core/boltvm"
	"github.com/meshplus/bitxhub-kit/types"
	"github.com/meshplus/bitxhub-model/pb"
)

const (
	pluginEmitterAddr = "0x00000000000000000000000000000000C07e0001"
	pluginRelayAddr   = "0x00000000000000000000000000000000C07e0002"
)

type pluginEmitter struct {
	boltvm.Stub
}

func (c *pluginEmitter) post(chain string) {
	c.PostInterchainEvent(map[string]*pb.EventWrapper{chain: {Index: c.GetTxIndex(), IsBatch: false}})
}

// Emit posts the interchain event for chain.
func (c *pluginEmitter) Emit(chain string) *boltvm.Response {
	c.post(chain)
	return boltvm.Success(nil)
}

// EmitFail posts the event and then fails.
func (c *pluginEmitter) EmitFail(chain string) *boltvm.Response {
	c.post(chain)
	return boltvm.Error(boltvm.ErrorCode("9990001"), "emitter refuses")
}

// EmitSet writes a key of the emitter, then posts the event.
func (c *pluginEmitter) EmitSet(chain, key, val string) *boltvm.Response {
	c.Set(key, []byte(val))
	c.post(chain)
	return boltvm.Success(nil)
}

// ---- a small key/value surface on the emitter's own state (every method an account may call directly):
// the ledger paths of Stub.Get / Set / Delete for present, absent, deleted and EMPTY values

// Put writes the key only when it is absent.
func (c *pluginEmitter) Put(key, val string) *boltvm.Response {
	if ok, _ := c.Get(key); !ok {
		c.Set(key, []byte(val))
	}
	return boltvm.Success(nil)
}

// Del deletes the key.
func (c *pluginEmitter) Del(key string) *boltvm.Response {
	c.Delete(key)
	return boltvm.Success(nil)
}

// Has succeeds iff the key is present (whatever its value, the empty one included).
func (c *pluginEmitter) Has(key string) *boltvm.Response {
	ok, val := c.Get(key)
	if !ok {
		return boltvm.Error(boltvm.ErrorCode("9990003"), "no such key")
	}
	return boltvm.Success(val)
}

// PutEmpty stores a zero-length value under the key.
func (c *pluginEmitter) PutEmpty(key string) *boltvm.Response {
	c.Set(key, []byte{})
	return boltvm.Success(nil)
}

// SetFail overwrites the key and then fails.
func (c *pluginEmitter) SetFail(key, val string) *boltvm.Response {
	c.Set(key, []byte(val))
	return boltvm.Error(boltvm.ErrorCode("9990004"), "fails after the write")
}

// Overwrite writes the key unconditionally.
func (c *pluginEmitter) Overwrite(key, val string) *boltvm.Response {
	c.Set(key, []byte(val))
	return boltvm.Success(nil)
}

type pluginRelay struct {
	boltvm.Stub
}

// Relay reaches the emitter through a cross-contract call.
func (c *pluginRelay) Relay(chain string) *boltvm.Response {
	return c.CrossInvoke(pluginEmitterAddr, "Emit", pb.String(chain))
}

// RelayDeep: relay -> relay -> emitter.
func (c *pluginRelay) RelayDeep(chain string) *boltvm.Response {
	return c.CrossInvoke(pluginRelayAddr, "Relay", pb.String(chain))
}

// RelayIgnore cross-invokes a callee that posts and fails, and succeeds anyway.
func (c *pluginRelay) RelayIgnore(chain string) *boltvm.Response {
	_ = c.CrossInvoke(pluginEmitterAddr, "EmitFail", pb.String(chain))
	return boltvm.Success(nil)
}

// RelayThenFail lets the callee post, then fails itself.
func (c *pluginRelay) RelayThenFail(chain string) *boltvm.Response {
	_ = c.CrossInvoke(pluginEmitterAddr, "Emit", pb.String(chain))
	return boltvm.Error(boltvm.ErrorCode("9990002"), "relay refuses")
}

// RelaySet writes a key of the relay, lets the callee write one of its own and post.
func (c *pluginRelay) RelaySet(chain, key, val string) *boltvm.Response {
	c.Set(key, []byte(val))
	return c.CrossInvoke(pluginEmitterAddr, "EmitSet", pb.String(chain), pb.String(key), pb.String(val))
}

func registerPlugins() {
	agency.RegisterContractConstructor("verif emitter", types.NewAddressByStr(pluginEmitterAddr), func() agency.Contract {
		return &pluginEmitter{}
	})
	agency.RegisterContractConstructor("verif relay", types.NewAddressByStr(pluginRelayAddr), func() agency.Contract {
		return &pluginRelay{}
	})
}
