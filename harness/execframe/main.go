// Driver "execframe": executor-level histories on the real relay-chain stack (hx.Chain).
//
//	execframe run      stdin: one JSON history per line; every history runs in its OWN child
//	                   process (a Go panic outside a recover, a fatal runtime error or a wedged
//	                   executor is therefore observed as "crash"/"hang" of that history, not of the
//	                   driver); stdout: one JSON line of projected observables per history, in order.
//	execframe one      child mode: one history on stdin, one JSON line per step on stdout.
//	execframe surface  prints the reflective method surface of every registered bolt contract.
//
// A history is {"cfg":{admins,gas,audit,bal}, "steps":[...]}; see the step* / tx* functions.
// Observables are canonical: accounts and contracts are named by spec ("u:3", "a:0", "c:store"),
// values written by the generators ("v<N>") are decoded to N, everything else to a short hash,
// errors to a small enum.
package main

import (
	"bufio"
	"bytes"
	"crypto/sha256"
	"encoding/binary"
	"encoding/hex"
	"encoding/json"
	"fmt"
	"io"
	"math/big"
	"os"
	"os/exec"
	"reflect"
	"regexp"
	"runtime"
	"sort"
	"strconv"
	"strings"
	"sync"
	"time"

	"github.com/iancoleman/orderedmap"
	appchainmgr "github.com/meshplus/bitxhub-core/appchain-mgr"
	"github.com/meshplus/bitxhub-core/governance"
	ruleMgr "github.com/meshplus/bitxhub-core/rule-mgr"
	"github.com/meshplus/bitxhub-core/validator"
	"github.com/meshplus/bitxhub-kit/crypto"
	"github.com/meshplus/bitxhub-kit/types"
	"github.com/meshplus/bitxhub-model/constant"
	"github.com/meshplus/bitxhub-model/pb"
	"github.com/meshplus/bitxhub/internal/executor/contracts"
	"github.com/meshplus/bitxhub/internal/model/events"
	"github.com/meshplus/bitxhub/pkg/proof"
	"github.com/meshplus/bitxhub/pkg/utils"
	"github.com/meshplus/bitxhub/verifharness/hx"
)

// ----------------------------------------------------------------------------------------
// names

var contractNames = map[string]constant.BoltContractAddress{
	"interchain": constant.InterchainContractAddr, "store": constant.StoreContractAddr,
	"rule": constant.RuleManagerContractAddr, "role": constant.RoleContractAddr,
	"appchain": constant.AppchainMgrContractAddr, "txmgr": constant.TransactionMgrContractAddr,
	"servicemgr": constant.ServiceMgrContractAddr, "governance": constant.GovernanceContractAddr,
	"ethheader": constant.EthHeaderMgrContractAddr, "node": constant.NodeManagerContractAddr,
	"interbroker": constant.InterBrokerContractAddr, "dapp": constant.DappMgrContractAddr,
	"strategy": constant.ProposalStrategyMgrContractAddr, "svcregistry": constant.ServiceRegistryContractAddr,
	"svcresolver": constant.ServiceResolverContractAddr,
}

type world struct {
	pending []*step // seeding steps since the last block (re-applied right before the next block, see doStep)
	c       *hx.Chain
	nonces  map[string]uint64 // next nonce per sender spec
	rev     map[string]string // lower-case address -> spec
	prev    map[string][]byte // last raw dump
	hasHook bool
	proofs  map[string][]byte         // proof bytes remembered by label (kind fabric / reuse)
	ownCh   chan events.ExecutedEvent // own subscription to executed events (pipelined delivery), per executor instance
}

func keyOf(spec string, c *hx.Chain) crypto.PrivateKey {
	p := strings.SplitN(spec, ":", 2)
	n, _ := strconv.Atoi(p[1])
	switch p[0] {
	case "u":
		return hx.Key(n + 1)
	case "a":
		return hx.Key(hx.AdminKeyID(n))
	case "v": // validator keys of a remote relay chain
		return hx.Key(5000 + n)
	}
	panic("no key for " + spec)
}

func (w *world) addr(spec string) *types.Address {
	p := strings.SplitN(spec, ":", 2)
	switch p[0] {
	case "u", "a", "v":
		return hx.Addr(keyOf(spec, w.c))
	case "c":
		a, ok := contractNames[p[1]]
		if !ok {
			panic("unknown contract " + p[1])
		}
		return a.Address()
	case "x":
		return types.NewAddressByStr(p[1])
	case "w": // address of the XVM contract deployed by <sender spec> with account nonce <n>: "w:u:3/0"
		q := strings.SplitN(p[1], "/", 2)
		n, _ := strconv.ParseUint(q[1], 10, 64)
		nb := make([]byte, 8)
		binary.LittleEndian.PutUint64(nb, n)
		h := sha256.Sum256(append(append([]byte{}, w.addr(q[0]).Bytes()...), nb...))
		return types.NewAddress(h[12:])
	case "nil":
		return nil
	}
	panic("bad address spec " + spec)
}

func (w *world) buildRev() {
	w.rev = map[string]string{}
	for i := 0; i < 64; i++ {
		w.rev[strings.ToLower(hx.Addr(hx.Key(i+1)).String())] = fmt.Sprintf("u:%d", i)
	}
	for i := 0; i < 16; i++ {
		w.rev[strings.ToLower(hx.Addr(hx.Key(hx.AdminKeyID(i))).String())] = fmt.Sprintf("a:%d", i)
		w.rev[strings.ToLower(hx.Addr(hx.Key(5000+i)).String())] = fmt.Sprintf("v:%d", i)
	}
	for n, a := range contractNames {
		w.rev[strings.ToLower(a.String())] = "c:" + n
	}
}

func (w *world) specOf(addr string) string {
	if s, ok := w.rev[strings.ToLower(addr)]; ok {
		return s
	}
	return "x:" + strings.ToLower(addr)
}

// ----------------------------------------------------------------------------------------
// error classes

var classes = []struct{ sub, cls string }{
	{"index out of range", "panic_index"}, {"reflect:", "panic_reflect"}, {"interface conversion", "panic_conv"},
	{"nil pointer", "panic_nil"}, {"invalid memory address", "panic_nil"},
	{"insufficient balance", "fee_insufficient"}, {"not sufficient funds", "insufficient"},
	{"unknown tx type", "unknown_tx_type"}, {"empty transaction data", "empty_data"}, {"wrong vm type", "wrong_vm"},
	{"not such method", "no_method"}, {"is not a bolt contract", "no_contract"}, {"parse args", "parse_args"},
	{"unmarshal invoke payload", "bad_invoke_payload"},
	{"proof hash is not correct", "proof_hash"}, {"empty proof", "proof_empty"}, {"multi signs verify fail", "proof_multisig"},
	{"didn't register rule", "proof_norule"}, {"cannot get registered appchain", "proof_nochain"},
	{"proof verify failed", "proof_rule"}, {"invalid signature", "bad_signature"},
	{"index already exists", "index_exists"}, {"wrong index", "index_wrong"}, {"target appchain not available", "target_unavailable"},
	{"not available", "unavailable"}, {"no permission", "no_permission"}, {"permission", "no_permission"},
	{"invalid chain service id", "bad_service_id"}, {"invalid ibtp", "invalid_ibtp"},
	{"post audit interchain event error", "audit_event"},
	{"unexpected EOF", "decode"}, {"proto:", "decode"}, {"illegal tag", "decode"}, {"wiretype", "decode"}, {"wrong wireType", "decode"},
	{"invalid character", "decode"}, {"unmarshal", "decode"},
}

func errClass(ret string) string {
	r := strings.ToLower(ret)
	for _, c := range classes {
		if strings.Contains(r, strings.ToLower(c.sub)) {
			return c.cls
		}
	}
	if ret == "" {
		return "none"
	}
	return "other"
}

// ----------------------------------------------------------------------------------------
// values

var vre = regexp.MustCompile(`^"?v([0-9]{1,15})"?$`)

func valCode(b []byte, present bool) interface{} {
	if !present || b == nil {
		return nil
	}
	if m := vre.FindSubmatch(b); m != nil {
		n, _ := strconv.ParseInt(string(m[1]), 10, 64)
		return n
	}
	h := sha256.Sum256(b)
	return "h:" + hex.EncodeToString(h[:5])
}

func printable(s string) string {
	for _, r := range s {
		if r < 0x20 || r > 0x7e {
			return "hex:" + hex.EncodeToString([]byte(s))
		}
	}
	return s
}

func unhex(s string) []byte {
	b, err := hex.DecodeString(s)
	if err != nil {
		panic(err)
	}
	return b
}

// ----------------------------------------------------------------------------------------
// transactions

type txSpec struct {
	T      string                 `json:"t"`
	From   string                 `json:"from"`
	To     string                 `json:"to"`
	Amt    string                 `json:"amt"`
	M      string                 `json:"m"`
	Args   [][]interface{}        `json:"args"`
	Nonce  *uint64                `json:"nonce"`
	IBTP   *ibtpSpec              `json:"ibtp"`
	Proof  *proofSpec             `json:"proof"`
	Hex    string                 `json:"hex"`    // raw payload / invoke payload bytes
	Type   int32                  `json:"type"`   // TransactionData.Type for t=td
	VmType int32                  `json:"vmtype"` // TransactionData.VmType for t=td
	Mut    map[string]interface{} `json:"mut"`
	Ts     int64                  `json:"ts"`       // transaction timestamp in ns (default 1)
	Gas    uint64                 `json:"gas"`      // t=eth: gas limit
	GasP   string                 `json:"gasprice"` // t=eth: gas price (decimal)
}

type ibtpSpec struct {
	From    string   `json:"from"`
	To      string   `json:"to"`
	Index   uint64   `json:"index"`
	Type    int32    `json:"type"`
	Timeout int64    `json:"timeout"`
	Payload string   `json:"payload"` // hex; "content:<func>" builds a pb.Payload around a pb.Content
	Extra   string   `json:"extra"`
	Group   []string `json:"group"`
	Version string   `json:"version"`
}

type proofSpec struct {
	Kind    string   `json:"kind"` // ok | absent | mismatch | multisig | hex
	Hex     string   `json:"hex"`
	Signers []string `json:"signers"` // key specs; "bad" = junk signature
	Status  int32    `json:"status"`
	HashOf  string   `json:"hash_of"` // hex: ibtp.Proof := sha256(this) instead of sha256(extra)
	// kind "fabric": a really endorsed proof of chain Signer for the out-message (MIndex, src = ibtp.From, dst = ibtp.To,
	// MFunc, MArgs), remembered under Label; kind "reuse": the very bytes remembered under Label
	Signer string   `json:"signer"`
	MIndex uint64   `json:"mindex"`
	MFunc  string   `json:"mfunc"`
	MArgs  []string `json:"margs"`
	Label  string   `json:"label"`
}

func (w *world) buildIBTP(s *ibtpSpec) *pb.IBTP {
	ib := &pb.IBTP{From: s.From, To: s.To, Index: s.Index, Type: pb.IBTP_Type(s.Type), TimeoutHeight: s.Timeout, Version: s.Version}
	if strings.HasPrefix(s.Payload, "content:") {
		parts := strings.Split(strings.TrimPrefix(s.Payload, "content:"), ":")
		ct := &pb.Content{Func: parts[0], Args: [][]byte{[]byte("arg0")}}
		if len(parts) > 1 { // "content:<func>:<arg>:<arg>..."
			ct.Args = nil
			for _, a := range parts[1:] {
				ct.Args = append(ct.Args, []byte(a))
			}
		}
		cb, _ := ct.Marshal()
		h := sha256.Sum256(cb)
		pd := &pb.Payload{Encrypted: false, Content: cb, Hash: h[:]}
		ib.Payload, _ = pd.Marshal()
	} else if s.Payload != "" {
		ib.Payload = unhex(s.Payload)
	}
	if s.Extra != "" {
		ib.Extra = unhex(s.Extra)
	}
	if s.Group != nil {
		ib.Group = &pb.StringUint64Map{Keys: s.Group, Vals: make([]uint64, len(s.Group))}
	}
	return ib
}

// buildProof returns (tx.Extra, ibtp.Proof)
func (w *world) buildProof(ib *pb.IBTP, p *proofSpec) ([]byte, []byte) {
	if p == nil {
		p = &proofSpec{Kind: "ok"}
	}
	var extra []byte
	switch p.Kind {
	case "absent":
		return nil, nil
	case "ok", "mismatch":
		extra = []byte("proof-" + ib.From + "-" + ib.To + "-" + strconv.FormatUint(ib.Index, 10))
		if p.Hex != "" {
			extra = unhex(p.Hex)
		}
	case "hex":
		extra = unhex(p.Hex)
	case "fabric":
		extra = fabEndorse(p.Signer, p.MIndex, ib.From, ib.To, p.MFunc, p.MArgs)
		if w.proofs == nil {
			w.proofs = map[string][]byte{}
		}
		w.proofs[p.Label] = extra
	case "reuse":
		extra = w.proofs[p.Label]
	case "multisig":
		bp := &pb.BxhProof{TxStatus: pb.TransactionStatus(p.Status)}
		hash, err := utils.EncodePackedAndHash(ib, bp.TxStatus)
		for _, s := range p.Signers {
			if s == "bad" || err != nil {
				bp.MultiSign = append(bp.MultiSign, []byte("junk-signature-junk-signature-junk-signature-junk-signature-junk!"))
				continue
			}
			if strings.HasPrefix(s, "wrongmsg:") { // a valid signature of a registered key over another digest
				k := keyOf(strings.TrimPrefix(s, "wrongmsg:"), w.c)
				other := sha256.Sum256(append([]byte("other"), hash...))
				sg, _ := k.Sign(other[:])
				bp.MultiSign = append(bp.MultiSign, sg)
				continue
			}
			sg, e := keyOf(s, w.c).Sign(hash)
			if e != nil {
				panic(e)
			}
			bp.MultiSign = append(bp.MultiSign, sg)
		}
		extra, _ = bp.Marshal()
		if extra == nil {
			extra = []byte{}
		}
	default:
		panic("bad proof kind " + p.Kind)
	}
	h := sha256.Sum256(extra)
	ph := h[:]
	if p.Kind == "mismatch" {
		h2 := sha256.Sum256(append([]byte("x"), extra...))
		ph = h2[:]
	}
	if p.HashOf != "" {
		h3 := sha256.Sum256(unhex(p.HashOf))
		ph = h3[:]
	}
	return extra, ph
}

func (w *world) buildArgs(args [][]interface{}) []*pb.Arg {
	var out []*pb.Arg
	for _, a := range args {
		kind := a[0].(string)
		sv := func(i int) string {
			switch v := a[i].(type) {
			case string:
				return v
			case float64:
				return strconv.FormatInt(int64(v), 10)
			}
			return fmt.Sprint(a[i])
		}
		switch kind {
		case "s":
			out = append(out, pb.String(sv(1)))
		case "sa": // string form of an address spec
			out = append(out, pb.String(w.addr(sv(1)).String()))
		case "pid": // governance proposal id "<address of spec>-<n>"
			out = append(out, pb.String(w.addr(sv(1)).String()+"-"+sv(2)))
		case "b":
			out = append(out, pb.Bytes(unhex(sv(1))))
		case "bs": // bytes of a string
			out = append(out, pb.Bytes([]byte(sv(1))))
		case "u64":
			out = append(out, &pb.Arg{Type: pb.Arg_U64, Value: []byte(sv(1))})
		case "i32":
			out = append(out, &pb.Arg{Type: pb.Arg_I32, Value: []byte(sv(1))})
		case "i64":
			out = append(out, &pb.Arg{Type: pb.Arg_I64, Value: []byte(sv(1))})
		case "f64":
			out = append(out, &pb.Arg{Type: pb.Arg_F64, Value: []byte(sv(1))})
		case "bool":
			out = append(out, &pb.Arg{Type: pb.Arg_Bool, Value: []byte(sv(1))})
		case "raw": // ["raw", typ, hex]
			t, _ := strconv.Atoi(sv(1))
			out = append(out, &pb.Arg{Type: pb.Arg_Type(t), Value: unhex(sv(2))})
		case "ibtp": // marshalled IBTP given as JSON object
			jb, _ := json.Marshal(a[1])
			var is ibtpSpec
			if err := json.Unmarshal(jb, &is); err != nil {
				panic(err)
			}
			ib := w.buildIBTP(&is)
			if len(a) > 2 {
				jb2, _ := json.Marshal(a[2])
				var ps proofSpec
				_ = json.Unmarshal(jb2, &ps)
				_, ib.Proof = w.buildProof(ib, &ps)
			}
			data, _ := ib.Marshal()
			out = append(out, pb.Bytes(data))
		default:
			panic("bad arg kind " + kind)
		}
	}
	return out
}

func (w *world) buildTx(s *txSpec) pb.Transaction {
	k := keyOf(s.From, w.c)
	nonce := w.nonces[s.From]
	if s.Nonce != nil {
		nonce = *s.Nonce
	} else {
		w.nonces[s.From] = nonce + 1
	}
	var to *types.Address
	if s.To != "" {
		to = w.addr(s.To)
	}
	if s.T == "eth" {
		return buildEthTx(k, nonce, to, s)
	}
	tx := &pb.BxhTransaction{From: hx.Addr(k), To: to, Timestamp: 1, Nonce: nonce}
	if s.Ts != 0 {
		tx.Timestamp = s.Ts
	}
	switch s.T {
	case "transfer":
		td := &pb.TransactionData{Type: pb.TransactionData_NORMAL, Amount: s.Amt}
		tx.Payload, _ = td.Marshal()
	case "bvm":
		pl := &pb.InvokePayload{Method: s.M, Args: w.buildArgs(s.Args)}
		data, _ := pl.Marshal()
		td := &pb.TransactionData{Type: pb.TransactionData_INVOKE, VmType: pb.TransactionData_BVM, Payload: data}
		tx.Payload, _ = td.Marshal()
	case "td":
		td := &pb.TransactionData{Type: pb.TransactionData_Type(s.Type), VmType: pb.TransactionData_VMType(s.VmType), Amount: s.Amt}
		if s.Hex != "" {
			td.Payload = unhex(s.Hex)
		}
		tx.Payload, _ = td.Marshal()
	case "raw":
		if s.Hex != "nil" {
			tx.Payload = unhex(s.Hex)
			if tx.Payload == nil {
				tx.Payload = []byte{}
			}
		}
	case "ibtp":
		ib := w.buildIBTP(s.IBTP)
		tx.Extra, ib.Proof = w.buildProof(ib, s.Proof)
		tx.IBTP = ib
		if to == nil {
			tx.To = constant.InterchainContractAddr.Address()
		}
	default:
		panic("bad tx kind " + s.T)
	}
	if v, ok := s.Mut["extra_hex"]; ok {
		tx.Extra = unhex(v.(string))
	}
	if _, ok := s.Mut["nil_to"]; ok {
		tx.To = nil
	}
	if err := tx.Sign(k); err != nil {
		panic(err)
	}
	if _, ok := s.Mut["bad_sig"]; ok {
		tx.Signature[5] ^= 0x40
	}
	if _, ok := s.Mut["nil_from"]; ok {
		tx.From = nil
	}
	tx.TransactionHash = tx.Hash()
	return tx
}

// ----------------------------------------------------------------------------------------
// state dumps

type rawStater interface{ VerifRawState() map[string][]byte }

func (w *world) dump() map[string][]byte {
	if rs, ok := interface{}(w.c.Ledger.StateLedger).(rawStater); ok {
		w.hasHook = true
		return rs.VerifRawState()
	}
	return map[string][]byte{}
}

type acctRec struct {
	Balance *big.Int `json:"balance"`
	Nonce   uint64   `json:"nonce"`
	Code    []byte   `json:"code_hash"`
}

func parseAcct(b []byte) (string, uint64, bool) {
	if b == nil {
		return "0", 0, false
	}
	var a acctRec
	if err := json.Unmarshal(b, &a); err != nil || a.Balance == nil {
		return "0", 0, false
	}
	return a.Balance.String(), a.Nonce, true
}

func sumBalances(d map[string][]byte) string {
	s := new(big.Int)
	for k, v := range d {
		if strings.HasPrefix(k, "account-") {
			var a acctRec
			if json.Unmarshal(v, &a) == nil && a.Balance != nil {
				s.Add(s, a.Balance)
			}
		}
	}
	return s.String()
}

// diff returns the canonical difference between two raw dumps
func (w *world) diff(before, after map[string][]byte) (accts [][]interface{}, state [][]interface{}, other int) {
	keys := map[string]bool{}
	for k := range before {
		keys[k] = true
	}
	for k := range after {
		keys[k] = true
	}
	var ks []string
	for k := range keys {
		ks = append(ks, k)
	}
	sort.Strings(ks)
	for _, k := range ks {
		b, bok := before[k]
		a, aok := after[k]
		if bok && b == nil {
			bok = false
		}
		if aok && a == nil {
			aok = false
		}
		if bok == aok && bytes.Equal(a, b) {
			continue
		}
		switch {
		case strings.HasPrefix(k, "account-"):
			bb, bn, _ := parseAcct(b)
			ab, an, _ := parseAcct(a)
			accts = append(accts, []interface{}{w.specOf(strings.TrimPrefix(k, "account-")), bb, ab, bn, an, bok, aok})
		case strings.HasPrefix(k, "code-"):
			other++
		case len(k) >= 20:
			ad := types.NewAddress([]byte(k[:20])).String()
			state = append(state, []interface{}{w.specOf(ad), printable(k[20:]), valCode(b, bok), valCode(a, aok)})
		default:
			other++
		}
	}
	return
}

// ----------------------------------------------------------------------------------------
// steps

type step struct {
	Op       string     `json:"op"`
	Chain    string     `json:"chain"`
	Rule     string     `json:"rule"`
	RStatus  string     `json:"rstatus"`
	Rules    [][]string `json:"rules"` // explicit list [[addr,status],...] (overrides rule/rstatus)
	Status   string     `json:"status"`
	Trust    []string   `json:"trust"` // validator key specs of a relay chain
	TrustHex string     `json:"trust_hex"`
	Relay    bool       `json:"relay"`
	CType    string     `json:"ctype"`
	Svc      string     `json:"svc"`
	Ordered  bool       `json:"ordered"`
	Acct     string     `json:"acct"`
	Amt      string     `json:"amt"`
	Hex      string     `json:"hex"`
	Txs      []txSpec   `json:"txs"`
	Group    [][]txSpec `json:"group"`
	FabCert  bool       `json:"fabcert"` // seed_chain: trust root := certificate of the chain's endorsing key (fabric rules)
	Local    *bool      `json:"local"`
	Deadline int        `json:"deadline_ms"`
	Tx       *txSpec    `json:"tx"`
	Key      string     `json:"key"`
}

func ruleAddr(r string) string {
	switch r {
	case "", "happy":
		return validator.HappyRuleAddr
	case "fabric":
		return validator.FabricRuleAddr
	case "simfab":
		return validator.SimFabricRuleAddr
	}
	return r
}

func (w *world) counter(m map[string]*pb.VerifiedIndexSlice) [][]interface{} {
	var ks []string
	for k := range m {
		ks = append(ks, k)
	}
	sort.Strings(ks)
	out := [][]interface{}{}
	for _, k := range ks {
		var l [][]interface{}
		for _, vi := range m[k].Slice {
			l = append(l, []interface{}{vi.Index, vi.Valid, vi.IsBatch})
		}
		out = append(out, []interface{}{k, l})
	}
	return out
}

func (w *world) doStep(s *step) map[string]interface{} {
	switch s.Op {
	case "seed_chain", "drop_chain", "seed_service", "fund", "set_code", "set_wasm_rule", "set_state", "seed_appchain_admin":
		w.pending = append(w.pending, s)
	case "block", "blocks":
		// The executed event of the previous block is posted BEFORE the executor's trailing
		// ledger.Clear(); a seeding write made right after the event can be wiped by it.  Let the
		// executor goroutine finish, then write the (idempotent) seeds again.
		if len(w.pending) > 0 {
			time.Sleep(25 * time.Millisecond)
			p := w.pending
			w.pending = nil
			for _, ps := range p {
				w.doStep1(ps)
			}
			w.pending = nil
		}
	case "restart":
		w.pending = nil
	}
	return w.doStep1(s)
}

func (w *world) doStep1(s *step) map[string]interface{} {
	c := w.c
	out := map[string]interface{}{"op": s.Op}
	switch s.Op {
	case "seed_chain":
		l := c.Ledger
		chain := &appchainmgr.Appchain{ID: s.Chain, ChainName: "chain-" + s.Chain, ChainType: "ETH", Broker: []byte("0x857133c5C69e6Ce66F7AD46F200B9B3573e77582"),
			Status: governance.GovernanceAvailable, Desc: "seeded"}
		if s.Status != "" {
			chain.Status = governance.GovernanceStatus(s.Status)
		}
		if s.Relay {
			chain.ChainType = appchainmgr.RelaychainType
		}
		if s.CType != "" {
			chain.ChainType = s.CType
		}
		if s.FabCert {
			chain.TrustRoot = fabChainOf(s.Chain).cert
		}
		if s.Trust != nil {
			var addrs []string
			for _, t := range s.Trust {
				addrs = append(addrs, w.addr(t).String())
			}
			chain.TrustRoot, _ = json.Marshal(map[string][]string{"addresses": addrs})
		}
		if s.TrustHex != "" {
			chain.TrustRoot = unhex(s.TrustHex)
		}
		data, _ := json.Marshal(chain)
		l.SetState(constant.AppchainMgrContractAddr.Address(), []byte(appchainmgr.AppchainKey(s.Chain)), data, nil)
		var rules []*ruleMgr.Rule
		if s.Rules != nil {
			for i, r := range s.Rules {
				// by default the Master flag goes to the first available rule (the invariant of the real flows)
				master := r[1] == "available"
				for _, q := range s.Rules[:i] {
					if q[1] == "available" {
						master = false
					}
				}
				if len(r) > 2 {
					master = r[2] == "master"
				}
				rules = append(rules, &ruleMgr.Rule{Address: ruleAddr(r[0]), ChainID: s.Chain, Master: master, Default: ruleAddr(r[0]) == validator.HappyRuleAddr,
					Status: governance.GovernanceStatus(r[1])})
			}
		} else if s.Rule != "none" {
			st := governance.GovernanceAvailable
			if s.RStatus != "" {
				st = governance.GovernanceStatus(s.RStatus)
			}
			rules = append(rules, &ruleMgr.Rule{Address: ruleAddr(s.Rule), ChainID: s.Chain, Master: true, Default: true, Status: st})
		}
		if rules != nil {
			rd, _ := json.Marshal(rules)
			l.SetState(constant.RuleManagerContractAddr.Address(), []byte(ruleMgr.RuleKey(s.Chain)), rd, nil)
		} else if s.Rule == "none" {
			l.SetState(constant.RuleManagerContractAddr.Address(), []byte(ruleMgr.RuleKey(s.Chain)), nil, nil)
		}
	case "seed_appchain_admin": // the role records UpdateAppchainAdmin writes when an appchain registration is approved
		addr := w.addr(s.Acct).String()
		l := c.Ledger
		roleAddr := constant.RoleContractAddr.Address()
		m := orderedmap.New()
		m.Set(addr, struct{}{})
		md, _ := json.Marshal(m)
		l.SetState(roleAddr, []byte(contracts.RoleAppchainAdminKey(s.Chain)), md, nil)
		l.SetState(roleAddr, []byte(contracts.RoleTypeKey(string(contracts.AppchainAdmin))), md, nil)
		rd, _ := json.Marshal(contracts.Role{ID: addr, RoleType: contracts.AppchainAdmin, AppchainID: s.Chain, Status: governance.GovernanceAvailable})
		l.SetState(roleAddr, []byte(contracts.RoleKey(addr)), rd, nil)
		// ... and the appchain manager's own admin -> chain record (AppchainManager.getChainIdByAdmin: PermissionSelf)
		cd, _ := json.Marshal(s.Chain)
		l.SetState(constant.AppchainMgrContractAddr.Address(), []byte(appchainmgr.AppchainAdminKey(addr)), cd, nil)
	case "rules": // the rule list of a chain as the proof pool will read it: [[address, status, master], ...]
		ok, data := c.Ledger.GetState(constant.RuleManagerContractAddr.Address(), []byte(ruleMgr.RuleKey(s.Chain)))
		var rl []*ruleMgr.Rule
		if ok {
			_ = json.Unmarshal(data, &rl)
		}
		var lst [][]interface{}
		for _, r := range rl {
			lst = append(lst, []interface{}{strings.ToLower(r.Address), string(r.Status), r.Master})
		}
		out["rules"] = lst
	case "drop_chain":
		c.Ledger.SetState(constant.AppchainMgrContractAddr.Address(), []byte(appchainmgr.AppchainKey(s.Chain)), nil, nil)
	case "seed_service":
		st := governance.GovernanceAvailable
		if s.Status != "" {
			st = governance.GovernanceStatus(s.Status)
		}
		c.SeedService(s.Chain, s.Svc, s.Ordered, st, nil)
	case "fund":
		v, ok := new(big.Int).SetString(s.Amt, 10)
		if !ok {
			panic("bad fund amount")
		}
		c.Ledger.SetBalance(w.addr(s.Acct), v)
	case "set_code":
		c.Ledger.SetCode(w.addr(s.Acct), unhex(s.Hex))
	case "set_wasm_rule": // account code := JSON wasm.Contract around a module file of the repository (or around junk bytes)
		var code []byte
		if s.Key != "" {
			root := os.Getenv("VERIF_REPO")
			if root == "" {
				root = "/repo"
			}
			var err error
			code, err = os.ReadFile(root + "/" + s.Key)
			if err != nil {
				panic(err)
			}
		} else {
			code = unhex(s.Hex)
		}
		data, _ := json.Marshal(map[string]interface{}{"code": code})
		c.Ledger.SetCode(w.addr(s.Acct), data)
	case "set_state":
		var val []byte
		if s.Hex != "nil" {
			val = unhex(s.Hex)
		}
		c.Ledger.SetState(w.addr(s.Acct), []byte(s.Key), val, nil)
	case "restart":
		if err := c.Restart(); err != nil {
			out["err"] = errClass(err.Error())
			out["text"] = err.Error()
		}
		w.prev = nil
		w.ownCh = nil
	case "blocks": // several blocks delivered back to back (pipelined): {"group": [[tx...], [tx...]], "chain": readback}
		var groups [][]pb.Transaction
		for gi := range s.Group {
			var txs []pb.Transaction
			for i := range s.Group[gi] {
				txs = append(txs, w.buildTx(&s.Group[gi][i]))
			}
			groups = append(groups, txs)
		}
		before := w.dump()
		hBefore := c.Height()
		dl := 12000
		if s.Deadline > 0 {
			dl = s.Deadline
		}
		evs := w.deliver(groups, true, time.Duration(dl)*time.Millisecond)
		if len(evs) != len(groups) {
			out["hang"] = true
			return out
		}
		out["hang"] = false
		var bl []map[string]interface{}
		for gi, ev := range evs {
			bl = append(bl, map[string]interface{}{"height": ev.Block.BlockHeader.Number, "receipts": w.receiptsOf(groups[gi], ev),
				"counter": w.counter(ev.InterchainMeta.Counter), "ntimeout": len(ev.InterchainMeta.TimeoutCounter)})
		}
		out["blocks"] = bl
		out["height"] = []uint64{hBefore, c.Height()}
		after := w.dump()
		ac, st, oth := w.diff(before, after)
		out["accts"], out["state"], out["other"] = ac, st, oth
		if s.Chain != "" {
			ok, data := c.Ledger.GetState(constant.RuleManagerContractAddr.Address(), []byte(ruleMgr.RuleKey(s.Chain)))
			var rl []*ruleMgr.Rule
			if ok {
				_ = json.Unmarshal(data, &rl)
			}
			lst := [][]interface{}{}
			for _, r := range rl {
				lst = append(lst, []interface{}{strings.ToLower(r.Address), string(r.Status), r.Master})
			}
			out["rules"] = lst
		}
	case "block":
		var txs []pb.Transaction
		for i := range s.Txs {
			txs = append(txs, w.buildTx(&s.Txs[i]))
		}
		before := w.dump()
		hBefore := c.Height()
		local := true
		if s.Local != nil {
			local = *s.Local
		}
		dl := 8000
		if s.Deadline > 0 {
			dl = s.Deadline
		}
		var ev *events.ExecutedEvent
		if w.ownCh != nil {
			if evs := w.deliver([][]pb.Transaction{txs}, local, time.Duration(dl)*time.Millisecond); len(evs) == 1 {
				ev = evs[0]
			}
		} else {
			ev = c.ExecBlock(txs, local, time.Duration(dl)*time.Millisecond)
		}
		if ev == nil {
			out["hang"] = true
			return out
		}
		out["hang"] = false
		out["height"] = []uint64{hBefore, c.Height(), ev.Block.BlockHeader.Number}
		out["ntx"] = len(txs)
		out["nhash"] = len(ev.TxHashList)
		recs := w.receiptsOf(txs, ev)
		out["receipts"] = recs
		out["counter"] = w.counter(ev.InterchainMeta.Counter)
		out["ntimeout"] = len(ev.InterchainMeta.TimeoutCounter)
		after := w.dump()
		ac, st, oth := w.diff(before, after)
		out["accts"], out["state"], out["other"] = ac, st, oth
		out["sum"] = []string{sumBalances(before), sumBalances(after)}
		out["hook"] = w.hasHook
	case "view":
		tx := w.buildTx(s.Tx)
		w.nonces[s.Tx.From]-- // a view does not consume a nonce on the main ledger
		before := w.dump()
		mb := c.Ledger.GetChainMeta()
		rs := c.ViewExec.ApplyReadonlyTransactions([]pb.Transaction{tx})
		ma := c.Ledger.GetChainMeta()
		after := w.dump()
		ac, st, oth := w.diff(before, after)
		out["nrec"] = len(rs)
		if len(rs) == 1 {
			sti := 0
			if rs[0].Status != pb.Receipt_SUCCESS {
				sti = 1
			}
			out["status"] = sti
			out["cls"] = errClass(string(rs[0].Ret))
		}
		out["meta_same"] = mb.Height == ma.Height && mb.BlockHash.String() == ma.BlockHash.String()
		out["ndiff"] = len(ac) + len(st) + oth
		// the view ledger's own overlay must be empty afterwards, too
		if rs2, ok := interface{}(c.ViewLdg.StateLedger).(rawStater); ok {
			a2, s2, o2 := w.diff(after, rs2.VerifRawState())
			out["view_ndiff"] = len(a2) + len(s2) + o2
		}
	case "checkproof":
		tx := w.buildTx(s.Tx)
		w.nonces[s.Tx.From]--
		v := proof.New(c.Ledger, c.Logger, c.Opts.ChainID, c.Cfg.GasLimit)
		var ok bool
		var err error
		func() {
			// the executor guards this call (BlockExecutor.checkProof); a panicking rule engine is a rejection
			defer func() {
				if r := recover(); r != nil {
					ok, err = false, fmt.Errorf("proof verify failed: %v", r)
				}
			}()
			ok, _, err = v.CheckProof(tx)
		}()
		out["ok"] = ok
		if err != nil {
			out["cls"] = errClass(err.Error())
			out["errnil"] = false
		} else {
			out["errnil"] = true
			out["cls"] = "none"
		}
	default:
		panic("bad step " + s.Op)
	}
	return out
}

func retText(b []byte) string {
	s := string(b)
	if len(s) > 90 {
		s = s[:90]
	}
	return printable(s)
}

type history struct {
	Cfg struct {
		Admins  int    `json:"admins"`
		Gas     int64  `json:"gas"`
		Audit   bool   `json:"audit"`
		Bal     string `json:"bal"`
		Proof   string `json:"proof"`   // "" / "serial" / "parallel": proof verification grouping
		Ledger  string `json:"ledger"`  // "" / "simple" / "complex": state ledger type
		Plugins bool   `json:"plugins"` // register the two plugin contracts of plugins.go (relay -> emitter)
	} `json:"cfg"`
	Steps   []step `json:"steps"`
	Timeout int    `json:"timeout_ms"`
}

// receiptsOf projects the receipts of the transactions of one executed block
func (w *world) receiptsOf(txs []pb.Transaction, ev *events.ExecutedEvent) [][]interface{} {
	c := w.c
	var recs [][]interface{}
	for i, tx := range txs {
		r, err := c.Ledger.GetReceipt(tx.GetHash())
		if err != nil {
			recs = append(recs, []interface{}{-1, "no_receipt", ""})
			continue
		}
		st := 0
		if r.Status != pb.Receipt_SUCCESS {
			st = 1
		}
		ordered := i < len(ev.TxHashList) && ev.TxHashList[i].String() == tx.GetHash().String()
		var retv interface{}
		if st == 0 {
			retv = valCode(r.Ret, len(r.Ret) > 0)
		}
		// the interchain events the receipt carries: [destination chain, index the event is stamped with, isBatch]
		posted := [][]interface{}{}
		for _, ev := range r.Events {
			if ev.EventType != pb.Event_INTERCHAIN {
				continue
			}
			m := map[string]*pb.EventWrapper{}
			if json.Unmarshal(ev.Data, &m) != nil {
				posted = append(posted, []interface{}{"?", -1, false})
				continue
			}
			ks := make([]string, 0, len(m))
			for k := range m {
				ks = append(ks, k)
			}
			sort.Strings(ks)
			for _, k := range ks {
				posted = append(posted, []interface{}{k, m[k].Index, m[k].IsBatch})
			}
		}
		recs = append(recs, []interface{}{st, errClass(string(r.Ret)), retText(r.Ret), ordered, len(r.Events), retv, posted, r.GasUsed})
	}
	return recs
}

// deliver sends the given blocks to the executor BACK TO BACK, without waiting for the executed
// event of one before sending the next (consensus faster than execution, catch-up), through the
// exported Executor.ExecuteBlock, and then collects their executed events from a subscription
// of its own.  hx.Chain.ExecBlock's channel is not drained by this, so from the first use on
// every block of this executor instance goes through here.
func (w *world) deliver(groups [][]pb.Transaction, local bool, deadline time.Duration) []*events.ExecutedEvent {
	c := w.c
	if w.ownCh == nil {
		w.ownCh = make(chan events.ExecutedEvent, 64)
		c.Exec.SubscribeBlockEvent(w.ownCh)
	}
	h := c.Height()
	for i, txs := range groups {
		c.NextTime += 1_000_000_000
		block := &pb.Block{
			BlockHeader:  &pb.BlockHeader{Version: []byte("1.0.0"), Number: h + 1 + uint64(i), Timestamp: c.NextTime},
			Transactions: &pb.Transactions{Transactions: txs},
		}
		ll := make([]bool, len(txs))
		for j := range ll {
			ll[j] = local
		}
		c.Exec.ExecuteBlock(&pb.CommitEvent{Block: block, LocalList: ll})
	}
	var evs []*events.ExecutedEvent
	for range groups {
		select {
		case ev := <-w.ownCh:
			e := ev
			evs = append(evs, &e)
		case <-time.After(deadline):
			return evs
		}
	}
	// the executed event is posted before the executor's trailing Clear(): wait for it (see hx.Chain.waitCleared)
	if sl, ok := c.Ledger.StateLedger.(interface{ VerifLoadedAccounts() int }); ok {
		for i := 0; i < 4000 && sl.VerifLoadedAccounts() != 0; i++ {
			time.Sleep(500 * time.Microsecond)
		}
	}
	return evs
}

// runOne is the child: one history from stdin, one JSON line per step on stdout.
func runOne(_ []string) error {
	data, err := io.ReadAll(os.Stdin)
	if err != nil {
		return err
	}
	var h history
	if err := json.Unmarshal(data, &h); err != nil {
		return err
	}
	if h.Cfg.Plugins {
		registerPlugins() // before the executor is built: it collects the registered contracts then
	}
	c, err := hx.NewChain(hx.ChainOpts{NumAdmins: h.Cfg.Admins, GasPrice: h.Cfg.Gas, EnableAudit: h.Cfg.Audit, Balance: h.Cfg.Bal, Quiet: true, ProofType: h.Cfg.Proof, LedgerType: h.Cfg.Ledger})
	if err != nil {
		return err
	}
	w := &world{c: c, nonces: map[string]uint64{}}
	w.buildRev()
	enc := json.NewEncoder(os.Stdout)
	for i := range h.Steps {
		o := w.doStep(&h.Steps[i])
		if err := enc.Encode(o); err != nil {
			return err
		}
	}
	// do not wait for stores to close: remove the directory and leave
	_ = os.RemoveAll(c.Dir)
	os.Exit(0)
	return nil
}

var panicRe = regexp.MustCompile(`(?m)^(panic: .*|fatal error: .*)$`)

func panicClass(stderr string) string {
	m := panicRe.FindString(stderr)
	if m == "" {
		return ""
	}
	cls := errClass(m)
	if cls == "other" || cls == "none" {
		if len(m) > 100 {
			m = m[:100]
		}
		return m
	}
	return cls
}

// where the crash happened: first frame of /repo code in the goroutine that panicked
var frameRe = regexp.MustCompile(`(?m)^github\.com/meshplus/bitxhub/([A-Za-z0-9_/.\-]+)\.([A-Za-z0-9_().*]+)\(`)

func panicSite(stderr string) []string {
	loc := panicRe.FindStringIndex(stderr)
	if loc == nil {
		return nil
	}
	seg := stderr[loc[0]:]
	i := strings.Index(seg, "goroutine ")
	if i < 0 {
		return nil
	}
	seg = seg[i:]
	if j := strings.Index(seg, "\n\n"); j > 0 {
		seg = seg[:j]
	}
	var out []string
	for _, m := range frameRe.FindAllStringSubmatch(seg, 6) {
		out = append(out, m[1]+"."+m[2])
	}
	return out
}

func runChild(line []byte) map[string]interface{} {
	var h history
	_ = json.Unmarshal(line, &h)
	to := 60000
	if h.Timeout > 0 {
		to = h.Timeout
	}
	cmd := exec.Command(os.Args[0], "one")
	cmd.Stdin = bytes.NewReader(line)
	var so, se bytes.Buffer
	cmd.Stdout, cmd.Stderr = &so, &se
	res := map[string]interface{}{}
	if err := cmd.Start(); err != nil {
		res["crash"], res["panic"] = true, "start: "+err.Error()
		return res
	}
	done := make(chan error, 1)
	go func() { done <- cmd.Wait() }()
	var werr error
	timedOut := false
	select {
	case werr = <-done:
	case <-time.After(time.Duration(to) * time.Millisecond):
		_ = cmd.Process.Kill()
		werr = <-done
		timedOut = true
	}
	var steps []interface{}
	sc := bufio.NewScanner(&so)
	sc.Buffer(make([]byte, 1<<20), 1<<28)
	for sc.Scan() {
		var o interface{}
		if json.Unmarshal(sc.Bytes(), &o) == nil {
			steps = append(steps, o)
		}
	}
	res["steps"] = steps
	res["nsteps"] = len(h.Steps)
	res["killed"] = timedOut
	res["crash"] = werr != nil && !timedOut
	if werr != nil {
		st := se.String()
		res["panic"] = panicClass(st)
		res["site"] = panicSite(st)
		if res["panic"] == "" {
			tail := st
			if len(tail) > 300 {
				tail = tail[len(tail)-300:]
			}
			res["panic"] = "exit: " + werr.Error() + " " + printable(tail)
		}
	}
	return res
}

func runAll(_ []string) error {
	sc := bufio.NewScanner(os.Stdin)
	sc.Buffer(make([]byte, 1<<20), 1<<28)
	var lines [][]byte
	for sc.Scan() {
		if len(bytes.TrimSpace(sc.Bytes())) == 0 {
			continue
		}
		lines = append(lines, append([]byte(nil), sc.Bytes()...))
	}
	results := make([]map[string]interface{}, len(lines))
	par := runtime.NumCPU() / 2
	if v := os.Getenv("EXECFRAME_PAR"); v != "" {
		par, _ = strconv.Atoi(v)
	}
	if par < 1 {
		par = 1
	}
	sem := make(chan struct{}, par)
	var wg sync.WaitGroup
	for i := range lines {
		wg.Add(1)
		sem <- struct{}{}
		go func(i int) {
			defer wg.Done()
			defer func() { <-sem }()
			results[i] = runChild(lines[i])
		}(i)
	}
	wg.Wait()
	w := bufio.NewWriterSize(os.Stdout, 1<<20)
	defer w.Flush()
	enc := json.NewEncoder(w)
	for _, r := range results {
		if err := enc.Encode(r); err != nil {
			return err
		}
	}
	return nil
}

// surface prints, per registered contract, every method reachable through reflect.MethodByName
// with its parameter kinds and whether the single result is a *boltvm.Response.
func surface(_ []string) error {
	c, err := hx.NewChain(hx.ChainOpts{Quiet: true})
	if err != nil {
		return err
	}
	rev := map[string]string{}
	for n, a := range contractNames {
		rev[strings.ToLower(a.Address().String())] = n
	}
	type meth struct {
		Name     string   `json:"name"`
		In       []string `json:"in"`
		Variadic bool     `json:"variadic"`
		Out      []string `json:"out"`
		Promoted bool     `json:"promoted"`
	}
	out := map[string][]meth{}
	for addr, con := range c.Exec.GetBoltContracts() {
		name, ok := rev[strings.ToLower(addr)]
		if !ok {
			name = "x:" + addr
		}
		t := reflect.TypeOf(con)
		stubT, _ := t.Elem().FieldByName("Stub")
		var ms []meth
		for i := 0; i < t.NumMethod(); i++ {
			m := t.Method(i)
			mm := meth{Name: m.Name, Variadic: m.Type.IsVariadic()}
			for j := 1; j < m.Type.NumIn(); j++ {
				mm.In = append(mm.In, m.Type.In(j).String())
			}
			for j := 0; j < m.Type.NumOut(); j++ {
				mm.Out = append(mm.Out, m.Type.Out(j).String())
			}
			if stubT.Type != nil {
				if _, ok := stubT.Type.MethodByName(m.Name); ok {
					// declared on the embedded Stub interface and not shadowed by the contract type
					if _, own := reflect.PtrTo(t.Elem()).MethodByName(m.Name); own {
						mm.Promoted = isPromoted(t, m.Name)
					}
				}
			}
			ms = append(ms, mm)
		}
		out[name] = ms
	}
	b, _ := json.Marshal(out)
	fmt.Println(string(b))
	_ = os.RemoveAll(c.Dir)
	os.Exit(0)
	return nil
}

// isPromoted: the method set entry comes from the embedded interface field (its function is a
// compiler-generated wrapper whose name carries the embedding type but the source file is "<autogenerated>")
func isPromoted(t reflect.Type, name string) bool {
	m, _ := t.MethodByName(name)
	f := runtime.FuncForPC(m.Func.Pointer())
	if f == nil {
		return false
	}
	file, _ := f.FileLine(m.Func.Pointer())
	return file == "<autogenerated>"
}

func main() {
	hx.Main(map[string]func(args []string) error{"run": runAll, "one": runOne, "surface": surface, "digest": runDigest})
}
