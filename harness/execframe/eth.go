package main

// Ethereum transactions (t = "eth"): a legacy transaction with an unprotected (pre EIP-155)
// signature by the sender's key; value = amt, gas limit = gas, gas price = gasprice, data = hex;
// no "to" = contract creation.

import (
	"math/big"
	"time"

	"github.com/ethereum/go-ethereum/common"
	ethcrypto "github.com/ethereum/go-ethereum/crypto"
	"github.com/meshplus/bitxhub-kit/crypto"
	kitecdsa "github.com/meshplus/bitxhub-kit/crypto/asym/ecdsa"
	"github.com/meshplus/bitxhub-kit/types"
	"github.com/meshplus/bitxhub-model/pb"
	ethtypes "github.com/meshplus/eth-kit/types"
)

func buildEthTx(k crypto.PrivateKey, nonce uint64, to *types.Address, s *txSpec) pb.Transaction {
	ek, ok := k.(*kitecdsa.PrivateKey)
	if !ok {
		panic("eth tx: not an ecdsa key")
	}
	val, _ := new(big.Int).SetString(s.Amt, 10)
	if val == nil {
		val = big.NewInt(0)
	}
	gp, _ := new(big.Int).SetString(s.GasP, 10)
	if gp == nil {
		gp = big.NewInt(0)
	}
	var toAddr *common.Address
	if to != nil {
		a := common.BytesToAddress(to.Bytes())
		toAddr = &a
	}
	var data []byte
	if s.Hex != "" {
		data = unhex(s.Hex)
	}
	txData := &ethtypes.LegacyTx{Nonce: nonce, GasPrice: gp, Gas: s.Gas, To: toAddr, Value: val, Data: data}
	hash := ethtypes.RlpHash([]interface{}{txData.GetNonce(), txData.GetGasPrice(), txData.GetGas(), txData.GetTo(), txData.GetValue(), txData.GetData()})
	sig, err := ethcrypto.Sign(hash.Bytes(), ek.K)
	if err != nil {
		panic(err)
	}
	txData.R = new(big.Int).SetBytes(sig[:32])
	txData.S = new(big.Int).SetBytes(sig[32:64])
	txData.V = big.NewInt(int64(sig[64]) + 27)
	tx := &ethtypes.EthTransaction{Inner: txData, Time: time.Unix(1700000000, 0)}
	if tx.GetFrom() == nil {
		panic("eth tx: signature not recoverable")
	}
	return tx
}
