package main

// Really endorsed proofs for the built-in simulated-fabric rule (0x..a1): a minimal fabric
// "chaincode action payload" as the broker chaincode of an appchain produces it, signed with the
// chain's (per-process) P-256 key whose self-signed certificate is seeded as the chain's trust root
// (seed_chain "fabcert": true).  The rule checks the endorsement signature against the trust root
// and the out-message (index, function, arguments) against the IBTP's content.

import (
	"crypto/ecdsa"
	"crypto/elliptic"
	"crypto/rand"
	"crypto/sha256"
	"crypto/x509"
	"crypto/x509/pkix"
	"encoding/binary"
	"encoding/json"
	"encoding/pem"
	"math/big"
	"time"
)

type fabChain struct {
	key  *ecdsa.PrivateKey
	cert []byte
}

var fabChains = map[string]*fabChain{}

func fabChainOf(name string) *fabChain {
	if c, ok := fabChains[name]; ok {
		return c
	}
	key, err := ecdsa.GenerateKey(elliptic.P256(), rand.Reader)
	if err != nil {
		panic(err)
	}
	tpl := &x509.Certificate{SerialNumber: big.NewInt(1), Subject: pkix.Name{CommonName: "peer0." + name},
		NotBefore: time.Now().Add(-time.Hour), NotAfter: time.Now().Add(24 * time.Hour)}
	der, err := x509.CreateCertificate(rand.Reader, tpl, tpl, &key.PublicKey, key)
	if err != nil {
		panic(err)
	}
	c := &fabChain{key: key, cert: pem.EncodeToMemory(&pem.Block{Type: "CERTIFICATE", Bytes: der})}
	fabChains[name] = c
	return c
}

func pbField(number int, data []byte) []byte {
	buf := make([]byte, binary.MaxVarintLen64)
	out := []byte{byte(number<<3 | 2)}
	out = append(out, buf[:binary.PutUvarint(buf, uint64(len(data)))]...)
	return append(out, data...)
}

type fabCallFunc struct {
	Func string   `json:"func"`
	Args [][]byte `json:"args"`
}

type fabOutMessage struct {
	Index     uint64      `json:"index"`
	DstFullID string      `json:"dst_full_id"`
	SrcFullID string      `json:"src_full_id"`
	Encrypt   bool        `json:"encrypt"`
	CallFunc  fabCallFunc `json:"call_func"`
}

// fabEndorse: the proof an honest pier of the chain attaches for the out-message
func fabEndorse(chain string, index uint64, src, dst, fn string, args []string) []byte {
	c := fabChainOf(chain)
	msg := &fabOutMessage{Index: index, DstFullID: dst, SrcFullID: src, CallFunc: fabCallFunc{Func: fn}}
	for _, a := range args {
		msg.CallFunc.Args = append(msg.CallFunc.Args, []byte(a))
	}
	out, _ := json.Marshal(msg)
	response := pbField(3, out)
	action := append(pbField(3, response), pbField(4, pbField(2, []byte("broker")))...)
	prp := pbField(2, action)
	endorser := []byte("peer0 of the chain")
	digest := sha256.Sum256(append(append([]byte{}, prp...), endorser...))
	sig, err := ecdsa.SignASN1(rand.Reader, c.key, digest[:])
	if err != nil {
		panic(err)
	}
	endorsement := append(pbField(1, endorser), pbField(2, sig)...)
	endorsed := append(pbField(1, prp), pbField(2, endorsement)...)
	return pbField(2, endorsed)
}
