// Driver "ibtp": executor-level histories for the IBTP protocol properties C02 C04 C05 C06.
//
// stdin : one JSON object per line (an abstract history, integers only)
//
//	{"audit":0|1,
//	 "svcs":[[hub,chain,ordered,avail,registered,[blacklisted service numbers]],...],   service k = entry k-1, k in 1..9
//	 "hubs":[[k,avail],...],                     remote hub k (k>=1) has bitxhub id 1356+k, registered as relay-chain appchain
//	 "groups":[[from,tag,[[dst,"index"],...]],...]  optional: the Group map carried by the IBTPs of group (from,tag)
//	 "qids":[[from,to,"index"],...], "qgids":[[from,g,count],...], "qhs":["height",...],   what to query after each block
//	 "blocks":[ [op,...] | 0 , ... ]}            0 = restart the node (no block)
//
//	op = [1,from,to,index,T,g,count,proofok]     request (g=0: no group; else Group with `count` keys identified by g)
//	     [2,from,to,index,kind,proofok]          receipt, kind 1 success 2 failure 3 rollback 4 rollback_end
//	     [2,from,to,index,kind,proofok,g,count]  the same receipt carrying a Group field
//	     [3]                                     unrelated transfer
//	     [4,m,a,b,c,d]                           public BVM call, m: 1 GetInterchain(svc a) 2 DeleteInterchain(svc a) 3 Register(svc a)
//	                                             4 GetIBTPByID(id a,b,c ; isReq d) 5 HandleIBTPData(request a,b,c) 6 TransactionMgr.Begin(id a,b,c) by an outsider
//	                                             7 TransactionMgr.Report(id a,b,c, kind d) by an outsider 8 GetStatus(id a,b,c) as a transaction
//	     [5,from,to,index,st,proofok]            inter-hub notification: request-type IBTP whose Extra is BxhProof{TxStatus: st}
//	     [6,from,to,index,T]                     request whose transaction is addressed to the transaction-manager contract instead of the interchain contract
//
// "gas":p (optional) sets the bvm gas price; the IBTP sender then cannot pay (used for one finding witness only)
//
// stdout: one JSON object per history: {"err":"", "blocks":[obs,...]} with one obs per executed block (restarts produce none):
//
//	rc  per tx [ok, errclass, retclass]            retclass 0 none 1 "begin_failure" 2 "batch_ibtp" 3 other bytes
//	st  per queried id / gid: status or -1
//	ch  per queried gid: [exists, global, height(as string), count, [[from,to,index,status]...sorted]]
//	ic  per service: [exists, [[other, IC, RC, SIC, SRC]...]] (all decimal strings for counters)
//	ix  per queried id: [reqSerial, rcptSerial]    serial = 1000*height + txindex of the tx whose hash is recorded, -1 none, -2 unknown hash
//	cnt InterchainMeta.Counter sorted by chain: [chain, [[txindex, valid, batch]...]]
//	to  TimeoutCounter  [chain, [id...]]   mt MultiTxCounter [chain, [id...]]   (list order as produced)
//	tr  TimeoutRoot non-zero
//	tl  per queried height: [exists, [token...]] token = [0] empty | [1,from,to,index] | [2,from,g,count] | [3] unknown
package main

import (
	"bytes"
	"crypto/sha256"
	"encoding/json"
	"fmt"
	"os"
	"regexp"
	"sort"
	"strconv"
	"strings"
	"time"

	appchainmgr "github.com/meshplus/bitxhub-core/appchain-mgr"
	"github.com/meshplus/bitxhub-core/governance"
	ruleMgr "github.com/meshplus/bitxhub-core/rule-mgr"
	servicemgr "github.com/meshplus/bitxhub-core/service-mgr"
	"github.com/meshplus/bitxhub-core/validator"
	"github.com/meshplus/bitxhub-kit/types"
	"github.com/meshplus/bitxhub-model/constant"
	"github.com/meshplus/bitxhub-model/pb"
	"github.com/meshplus/bitxhub/internal/executor/contracts"
	"github.com/meshplus/bitxhub/verifharness/hx"
)

type history struct {
	Audit  int               `json:"audit"`
	Gas    int64             `json:"gas"` // bvm gas price; with gas>0 the IBTP sender (balance 1000) cannot pay the fee
	Svcs   []json.RawMessage `json:"svcs"`
	Hubs   [][]int           `json:"hubs"`
	Qids   [][]json.Number   `json:"qids"`
	Qgids  [][]json.Number   `json:"qgids"`
	Qhs    []json.Number     `json:"qhs"`
	Blocks []json.RawMessage `json:"blocks"`
	// optional declarations of one-to-many groups: [from, tag, [[dst, "index"], ...]]: the IBTPs of group
	// (from, tag) carry Group = {full id of dst -> index}; groups without a declaration carry {"k1".."kn" -> tag}
	Groups []json.RawMessage `json:"groups"`
}

type svc struct {
	hub, chain              int
	ordered, avail, reg     bool
	bl                      []int
	chainName, name, fullID string
}

type world struct {
	svcs   []svc                // index k-1
	byFull map[string]int       // full id -> k
	gids   map[string][3]uint64 // global id string (as stored by the contract) -> declared group
	chains map[string]int       // chain name -> number (for output)
	decl   map[[2]uint64]*pb.StringUint64Map
	kids   map[[3]uint64][]string // declared group -> ids of the requests that carried it, in order of appearance
	kidSet map[string]bool
	sticky map[[3]uint64]string // declared group -> global id found for it
}

type retainedEv struct {
	block  int
	height uint64
	meta   *pb.InterchainMeta
	at     string
}

// the three per-chain maps of a block's InterchainMeta in the driver's output form
func (w *world) renderMeta(meta *pb.InterchainMeta) (interface{}, interface{}, interface{}) {
	var cnt []interface{}
	{
		keys := []string{}
		for k := range meta.Counter {
			keys = append(keys, k)
		}
		sort.Slice(keys, func(i, j int) bool { return w.chainNo(keys[i]) < w.chainNo(keys[j]) })
		for _, k := range keys {
			var l [][]int
			for _, vi := range meta.Counter[k].Slice {
				b2i := func(b bool) int {
					if b {
						return 1
					}
					return 0
				}
				l = append(l, []int{int(vi.Index), b2i(vi.Valid), b2i(vi.IsBatch)})
			}
			cnt = append(cnt, []interface{}{w.chainNo(k), l})
		}
	}
	idmap := func(m map[string]*pb.StringSlice) []interface{} {
		keys := []string{}
		for k := range m {
			keys = append(keys, k)
		}
		sort.Slice(keys, func(i, j int) bool { return w.chainNo(keys[i]) < w.chainNo(keys[j]) })
		var res []interface{}
		for _, k := range keys {
			var l []interface{}
			for _, id := range m[k].Slice {
				l = append(l, w.token(id))
			}
			res = append(res, []interface{}{w.chainNo(k), orEmpty(l)})
		}
		return orEmpty(res)
	}
	return orEmpty(cnt), idmap(meta.TimeoutCounter), idmap(meta.MultiTxCounter)
}

type pendKid struct {
	q  [3]uint64
	id string
	tx int
}

// the Group field of the IBTPs of group (from, tag)
func (w *world) group(from int, g, count uint64) *pb.StringUint64Map {
	if g == 0 {
		return nil
	}
	if m, ok := w.decl[[2]uint64{uint64(from), g}]; ok {
		return m
	}
	return groupOf(g, count)
}

// the global id the contract filed the declared group under.  Never trusted from a recomputation alone:
// (1) what was found earlier stays (a later duplicate of a child id, accepted e.g. by an Ordered=false destination,
// re-files the child under another group); (2) the documented derivation sha256(From || json(Group)) counts only if a
// record really exists under it; (3) otherwise the id is read back through the group's own children
// (child id -> global id), so a changed derivation is judged by who shares a record with whom.
func (w *world) resolve(c *hx.Chain, tm *types.Address, q [3]uint64) (string, bool) {
	if gid, ok := w.sticky[q]; ok {
		return gid, true
	}
	if grp := w.group(int(q[0]), q[1], q[2]); grp != nil {
		m := make(map[string]uint64)
		for i, key := range grp.Keys {
			m[key] = grp.Vals[i]
		}
		data, _ := json.Marshal(m)
		hsh := sha256.Sum256(append([]byte(w.full(int(q[0]))), data...))
		rid := types.NewHash(hsh[:]).String()
		if ok, _ := c.ViewLdg.GetState(tm, []byte(contracts.GlobalTxInfoKey(rid))); ok {
			w.sticky[q] = rid
			return rid, true
		}
	}
	for _, id := range w.kids[q] {
		if ok, val := c.ViewLdg.GetState(tm, []byte(id)); ok && len(val) > 0 {
			w.sticky[q] = string(val)
			return string(val), true
		}
	}
	return "", false
}

const localHub = 1356

func chainName(c int) string { return "chain" + string(rune('A'+c-1)) }

func (w *world) full(k int) string {
	if k >= 1 && k <= len(w.svcs) {
		return w.svcs[k-1].fullID
	}
	return fmt.Sprintf("bad%d", k) // malformed service id (not three parts)
}

func u64(n json.Number) uint64 {
	v, err := strconv.ParseUint(n.String(), 10, 64)
	if err != nil {
		i, _ := strconv.ParseInt(n.String(), 10, 64)
		return uint64(i)
	}
	return v
}
func i64(n json.Number) int64 { v, _ := strconv.ParseInt(n.String(), 10, 64); return v }
func in(n json.Number) int    { return int(i64(n)) }

func groupOf(g, count uint64) *pb.StringUint64Map {
	if g == 0 {
		return nil
	}
	m := &pb.StringUint64Map{}
	for i := uint64(1); i <= count; i++ {
		m.Keys = append(m.Keys, fmt.Sprintf("k%d", i))
		m.Vals = append(m.Vals, g)
	}
	return m
}

var codeRe = regexp.MustCompile(`[12][01][0-9]{5}`)

// errClass: small stable enum of a failed receipt's text (see Model/IbtpExec.v for the numbering)
func errClass(ret string) int {
	switch {
	case strings.Contains(ret, "proof verify failed") || strings.Contains(ret, "appchain not available") || strings.Contains(ret, "get appchain"):
		return 1
	case strings.Contains(ret, "post audit interchain event error"):
		return 14
	case strings.Contains(ret, "not such method"):
		return 17
	}
	codes := codeRe.FindAllString(ret, -1)
	has := func(c string) bool {
		for _, x := range codes {
			if x == c {
				return true
			}
		}
		return false
	}
	switch {
	case has("1100005"):
		return 9
	case has("1100002"):
		return 10
	case has("1100003"):
		return 11
	case has("1100004"):
		return 12
	case has("1100001"):
		return 20
	case has("1100006"):
		return 22
	case has("1080013"):
		return 2
	case has("1080014"):
		return 3
	case has("1080007"):
		return 4
	case has("1080005"):
		return 5
	case has("1080004"):
		return 6
	case has("1080011"):
		return 7
	case has("1080002") || has("1080003"):
		return 16
	case has("1080001"):
		return 18
	case has("1080016"):
		return 19
	case has("1080015"):
		return 21
	case has("2100000"):
		return 13
	}
	return 15
}

func retClass(ret []byte) int {
	switch {
	case len(ret) == 0:
		return 0
	case string(ret) == "begin_failure":
		return 1
	case string(ret) == "batch_ibtp":
		return 2
	}
	return 3
}

// "from-to-index" back to service numbers; service names may themselves contain '-', so the known full ids are
// matched as prefixes instead of splitting
func (w *world) parseID(id string) []interface{} {
	for k1 := range w.svcs {
		f := w.svcs[k1].fullID + "-"
		if !strings.HasPrefix(id, f) {
			continue
		}
		rest := id[len(f):]
		for k2 := range w.svcs {
			t := w.svcs[k2].fullID + "-"
			if !strings.HasPrefix(rest, t) {
				continue
			}
			idx := rest[len(t):]
			if idx == "" || strings.Trim(idx, "0123456789") != "" {
				continue
			}
			return []interface{}{1, k1 + 1, k2 + 1, idx}
		}
	}
	return []interface{}{3}
}

func (w *world) token(s string) []interface{} {
	if s == "" {
		return []interface{}{0}
	}
	if g, ok := w.gids[s]; ok {
		return []interface{}{2, g[0], strconv.FormatUint(g[1], 10), g[2]}
	}
	return w.parseID(s)
}

func (w *world) chainNo(name string) int {
	if n, ok := w.chains[name]; ok {
		return n
	}
	if name == contracts.DEFAULT_UNION_PIER_ID {
		return 99
	}
	if name == "" {
		return 0
	}
	return 98
}

func seedChain(c *hx.Chain, id, typ string, status governance.GovernanceStatus) {
	chain := &appchainmgr.Appchain{ID: id, ChainName: "chain-" + id, ChainType: typ, TrustRoot: nil, Broker: []byte("0x857133c5C69e6Ce66F7AD46F200B9B3573e77582"),
		Status: status, Desc: "seeded", Version: 0}
	data, _ := json.Marshal(chain)
	c.Ledger.SetState(constant.AppchainMgrContractAddr.Address(), []byte(appchainmgr.AppchainKey(id)), data, nil)
	rules := []*ruleMgr.Rule{{Address: validator.HappyRuleAddr, ChainID: id, Master: true, Default: true, Status: governance.GovernanceAvailable}}
	rd, _ := json.Marshal(rules)
	c.Ledger.SetState(constant.RuleManagerContractAddr.Address(), []byte(ruleMgr.RuleKey(id)), rd, nil)
}

// like hx.SeedService but with the invoke-record map initialised the way ServiceManager.Register leaves it
// (RecordInvokeService writes into that map)
func seedService(c *hx.Chain, chainID, serviceID string, ordered bool, status governance.GovernanceStatus, blacklist map[string]struct{}) {
	sv := &servicemgr.Service{ChainID: chainID, ServiceID: serviceID, Name: "svc-" + chainID + "-" + serviceID, Type: "CallContract", Ordered: ordered,
		Permission: blacklist, Status: status, Details: "seeded", Intro: "seeded",
		InvokeRecords: map[string]*governance.InvokeRecord{}, EvaluationRecords: map[string]*governance.EvaluationRecord{}}
	data, _ := json.Marshal(sv)
	c.Ledger.SetState(constant.ServiceMgrContractAddr.Address(), []byte(servicemgr.ServiceKey(chainID+":"+serviceID)), data, nil)
}

func runHistory(line []byte) (interface{}, error) {
	var h history
	dec := json.NewDecoder(bytes.NewReader(line))
	dec.UseNumber()
	if err := dec.Decode(&h); err != nil {
		return nil, err
	}
	out := map[string]interface{}{"err": ""}
	fail := func(msg string) (interface{}, error) {
		out["err"] = msg
		out["blocks"] = []interface{}{}
		return out, nil
	}

	w := &world{byFull: map[string]int{}, gids: map[string][3]uint64{}, chains: map[string]int{}, decl: map[[2]uint64]*pb.StringUint64Map{},
		kids: map[[3]uint64][]string{}, kidSet: map[string]bool{}, sticky: map[[3]uint64]string{}}
	hubAvail := map[int]bool{}
	for _, hb := range h.Hubs {
		hubAvail[hb[0]] = hb[1] != 0
	}
	for k, raw := range h.Svcs {
		var a []json.RawMessage
		if err := json.Unmarshal(raw, &a); err != nil || (len(a) != 6 && len(a) != 7) {
			return fail("bad service entry")
		}
		var v [5]int
		for i := 0; i < 5; i++ {
			_ = json.Unmarshal(a[i], &v[i])
		}
		var bl []int
		_ = json.Unmarshal(a[5], &bl)
		s := svc{hub: v[0], chain: v[1], ordered: v[2] != 0, avail: v[3] != 0, reg: v[4] != 0, bl: bl}
		s.chainName = chainName(s.chain)
		s.name = fmt.Sprintf("svc%d", k+1)
		if len(a) == 7 {
			// optional service name (e.g. one containing the id separator '-', like a Fabric "channel-1&cc" id)
			var nm string
			if json.Unmarshal(a[6], &nm) == nil && nm != "" {
				s.name = nm
			}
		}
		s.fullID = fmt.Sprintf("%d:%s:%s", localHub+s.hub, s.chainName, s.name)
		w.svcs = append(w.svcs, s)
		w.byFull[s.fullID] = k + 1
	}
	for c := 1; c <= 8; c++ {
		w.chains[chainName(c)] = c
	}
	for _, raw := range h.Groups {
		var a []json.RawMessage
		if err := json.Unmarshal(raw, &a); err != nil || len(a) != 3 {
			return fail("bad group declaration")
		}
		var from, tag json.Number
		var ents [][]json.Number
		if json.Unmarshal(a[0], &from) != nil || json.Unmarshal(a[1], &tag) != nil || json.Unmarshal(a[2], &ents) != nil {
			return fail("bad group declaration")
		}
		m := &pb.StringUint64Map{}
		for _, e := range ents {
			if len(e) != 2 {
				return fail("bad group declaration entry")
			}
			m.Keys = append(m.Keys, w.full(in(e[0])))
			m.Vals = append(m.Vals, u64(e[1]))
		}
		w.decl[[2]uint64{uint64(in(from)), u64(tag)}] = m
	}

	c, err := hx.NewChain(hx.ChainOpts{Quiet: true, EnableAudit: h.Audit != 0, GasPrice: h.Gas})
	if err != nil {
		return nil, err
	}
	defer c.Close()
	// appchains 1..3 are registered and available, chain 4 is registered but frozen (irrelevant to the interchain
	// contract, which does not look at appchain status), chains >= 5 are not registered at all
	for ch := 1; ch <= 3; ch++ {
		seedChain(c, chainName(ch), "ETH", governance.GovernanceAvailable)
	}
	seedChain(c, chainName(4), "ETH", governance.GovernanceFrozen)
	for k, av := range hubAvail {
		st := governance.GovernanceAvailable
		if !av {
			st = governance.GovernanceFrozen
		}
		seedChain(c, strconv.Itoa(localHub+k), appchainmgr.RelaychainType, st)
	}
	for _, s := range w.svcs {
		if s.hub != 0 || !s.reg {
			continue
		}
		st := governance.GovernanceAvailable
		if !s.avail {
			st = governance.GovernanceFrozen
		}
		bl := map[string]struct{}{}
		for _, b := range s.bl {
			bl[w.full(b)] = struct{}{}
		}
		seedService(c, s.chainName, s.name, s.ordered, st, bl)
	}
	user := hx.Key(1)
	outsider := hx.Key(2)
	var nonceU, nonceO, nonceA uint64
	ev := c.ExecBlock([]pb.Transaction{hx.TransferTx(c.Admins[0], nonceA, hx.Addr(user), "1000")}, true, 20*time.Second)
	nonceA++
	if ev == nil {
		return fail("seed block not executed")
	}
	serial := map[string]int64{} // tx hash -> 1000*height+index

	idOf := func(f, t int, idx uint64) string { return fmt.Sprintf("%s-%s-%d", w.full(f), w.full(t), idx) }
	proofSeq := 0
	ibtpTo := constant.InterchainContractAddr.Address()
	mkIBTP := func(f, t int, idx uint64, typ pb.IBTP_Type, T int64, grp *pb.StringUint64Map, extra []byte, proofok bool) pb.Transaction {
		proofSeq++
		proof := []byte(fmt.Sprintf("proof-%d", proofSeq))
		ph := sha256.Sum256(proof)
		if !proofok {
			ph[0] ^= 0xff
		}
		ib := &pb.IBTP{From: w.full(f), To: w.full(t), Index: idx, Type: typ, TimeoutHeight: T, Proof: ph[:], Group: grp, Extra: extra}
		tx := hx.IBTPTx(user, nonceU, ib, proof)
		if ibtpTo.String() != constant.InterchainContractAddr.Address().String() {
			tx.To = ibtpTo
			if err := tx.Sign(user); err != nil {
				panic(err)
			}
			tx.TransactionHash = nil
			tx.TransactionHash = tx.Hash()
		}
		nonceU++
		return tx
	}
	ic := constant.InterchainContractAddr.Address()
	tm := constant.TransactionMgrContractAddr.Address()

	var blocksOut []interface{}
	var retained []retainedEv
	for bi, raw := range h.Blocks {
		if string(bytes.TrimSpace(raw)) == "0" {
			if err := c.Restart(); err != nil {
				return fail(fmt.Sprintf("restart failed at item %d: %v", bi, err))
			}
			continue
		}
		var ops [][]json.Number
		d := json.NewDecoder(bytes.NewReader(raw))
		d.UseNumber()
		if err := d.Decode(&ops); err != nil {
			return fail("bad block")
		}
		var txs []pb.Transaction
		var pendKids []pendKid
		for _, op := range ops {
			if len(op) == 0 {
				return fail("empty op")
			}
			switch in(op[0]) {
			case 1:
				if len(op) != 8 {
					return fail("bad request op")
				}
				grp := w.group(in(op[1]), u64(op[5]), u64(op[6]))
				if grp != nil {
					q := [3]uint64{uint64(in(op[1])), u64(op[5]), u64(op[6])}
					id := idOf(in(op[1]), in(op[2]), u64(op[3]))
					pendKids = append(pendKids, pendKid{q, id, len(txs)})
				}
				txs = append(txs, mkIBTP(in(op[1]), in(op[2]), u64(op[3]), pb.IBTP_INTERCHAIN, i64(op[4]), grp, nil, in(op[7]) != 0))
			case 2:
				if len(op) != 6 && len(op) != 8 {
					return fail("bad receipt op")
				}
				typ := map[int]pb.IBTP_Type{1: pb.IBTP_RECEIPT_SUCCESS, 2: pb.IBTP_RECEIPT_FAILURE, 3: pb.IBTP_RECEIPT_ROLLBACK, 4: pb.IBTP_RECEIPT_ROLLBACK_END}[in(op[4])]
				var rgrp *pb.StringUint64Map
				if len(op) == 8 {
					rgrp = w.group(in(op[1]), u64(op[6]), u64(op[7])) // a receipt that carries a Group field
				}
				txs = append(txs, mkIBTP(in(op[1]), in(op[2]), u64(op[3]), typ, 0, rgrp, nil, in(op[5]) != 0))
			case 3:
				txs = append(txs, hx.TransferTx(c.Admins[0], nonceA, hx.Addr(outsider), "1"))
				nonceA++
			case 4:
				if len(op) != 6 {
					return fail("bad call op")
				}
				a, b, cc, dd := in(op[2]), in(op[3]), u64(op[4]), in(op[5])
				var tx pb.Transaction
				switch in(op[1]) {
				case 1:
					tx = hx.BvmTx(outsider, nonceO, ic, "GetInterchain", pb.String(w.full(a)))
				case 2:
					tx = hx.BvmTx(outsider, nonceO, ic, "DeleteInterchain", pb.String(w.full(a)))
				case 3:
					s := w.full(a)
					if i := strings.Index(s, ":"); i >= 0 {
						s = s[i+1:]
					}
					tx = hx.BvmTx(outsider, nonceO, ic, "Register", pb.String(s))
				case 4:
					tx = hx.BvmTx(outsider, nonceO, ic, "GetIBTPByID", pb.String(idOf(a, b, cc)), pb.Bool(dd != 0))
				case 5:
					ib := &pb.IBTP{From: w.full(a), To: w.full(b), Index: cc, Type: pb.IBTP_INTERCHAIN}
					data, _ := ib.Marshal()
					tx = hx.BvmTx(outsider, nonceO, ic, "HandleIBTPData", pb.Bytes(data))
				case 6:
					tx = hx.BvmTx(outsider, nonceO, tm, "Begin", pb.String(idOf(a, b, cc)), pb.Uint64(5), pb.Bool(false))
				case 7:
					tx = hx.BvmTx(outsider, nonceO, tm, "Report", pb.String(idOf(a, b, cc)), pb.Int32(int32(dd)))
				case 8:
					tx = hx.BvmTx(outsider, nonceO, tm, "GetStatus", pb.String(idOf(a, b, cc)))
				default:
					return fail("bad call kind")
				}
				nonceO++
				txs = append(txs, tx)
			case 6:
				// an IBTP transaction addressed to another bolt contract (the transaction manager)
				if len(op) != 5 {
					return fail("bad misaddressed op")
				}
				ibtpTo = constant.TransactionMgrContractAddr.Address()
				txs = append(txs, mkIBTP(in(op[1]), in(op[2]), u64(op[3]), pb.IBTP_INTERCHAIN, i64(op[4]), nil, nil, true))
				ibtpTo = constant.InterchainContractAddr.Address()
			case 5:
				if len(op) != 6 {
					return fail("bad notification op")
				}
				bp := &pb.BxhProof{TxStatus: pb.TransactionStatus(in(op[4]))}
				extra, _ := bp.Marshal()
				txs = append(txs, mkIBTP(in(op[1]), in(op[2]), u64(op[3]), pb.IBTP_INTERCHAIN, 0, nil, extra, in(op[5]) != 0))
			default:
				return fail("bad op kind")
			}
		}
		ev := c.ExecBlock(txs, true, 30*time.Second)
		if ev == nil {
			return fail(fmt.Sprintf("block item %d not executed (executor did not answer)", bi))
		}
		height := ev.Block.BlockHeader.Number
		ob := map[string]interface{}{}
		// receipts
		rc := [][]int{}
		for i, tx := range txs {
			serial[tx.GetHash().String()] = int64(height)*1000 + int64(i)
			r, err := c.Ledger.GetReceipt(tx.GetHash())
			if err != nil {
				return fail("receipt missing")
			}
			if r.Status == pb.Receipt_SUCCESS {
				rc = append(rc, []int{1, 0, retClass(r.Ret)})
				// an accepted request that carried a Group is a member of that declared group
				for _, pk := range pendKids {
					if pk.tx == i && !w.kidSet[fmt.Sprint(pk.q, pk.id)] {
						w.kidSet[fmt.Sprint(pk.q, pk.id)] = true
						w.kids[pk.q] = append(w.kids[pk.q], pk.id)
					}
				}
			} else {
				rc = append(rc, []int{0, errClass(string(r.Ret)), 0})
			}
		}
		ob["rc"] = rc
		// learn the global ids the contract uses for the declared groups seen so far (first claim wins)
		c.ViewLdg.Clear()
		{
			qs := make([][3]uint64, 0, len(w.kids))
			for q := range w.kids {
				qs = append(qs, q)
			}
			sort.Slice(qs, func(i, j int) bool {
				if qs[i][0] != qs[j][0] {
					return qs[i][0] < qs[j][0]
				}
				if qs[i][1] != qs[j][1] {
					return qs[i][1] < qs[j][1]
				}
				return qs[i][2] < qs[j][2]
			})
			for _, q := range qs {
				if gid, ok := w.resolve(c, tm, q); ok {
					if _, taken := w.gids[gid]; !taken {
						w.gids[gid] = q
					}
				}
			}
		}
		if os.Getenv("IBTP_DEBUG") != "" {
			var dbg []string
			for _, tx := range txs {
				r, _ := c.Ledger.GetReceipt(tx.GetHash())
				dbg = append(dbg, string(r.Ret))
			}
			ob["dbg"] = dbg
		}
		// block metadata
		meta := ev.InterchainMeta
		cntV, toV, mtV := w.renderMeta(meta)
		ob["cnt"], ob["to"], ob["mt"] = cntV, toV, mtV
		// the event stays with us: what a subscriber was handed must never change afterwards
		atDelivery, _ := json.Marshal([]interface{}{cntV, toV, mtV})
		retained = append(retained, retainedEv{len(blocksOut), height, meta, string(atDelivery)})
		tr := 0
		if ev.Block.BlockHeader.TimeoutRoot != nil && *ev.Block.BlockHeader.TimeoutRoot != (types.Hash{}) {
			tr = 1
		}
		ob["tr"] = tr
		// queries on committed state
		c.ViewLdg.Clear()
		st := []int{}
		status := func(id string) int {
			ok, ret := c.View(tm, "GetStatus", pb.String(id))
			if !ok {
				return -1
			}
			v, err := strconv.Atoi(string(ret))
			if err != nil {
				return -3
			}
			return v
		}
		ix := [][]int64{}
		for _, q := range h.Qids {
			id := idOf(in(q[0]), in(q[1]), u64(q[2]))
			st = append(st, status(id))
			pair := []int64{-1, -1}
			for j, isReq := range []bool{true, false} {
				ok, ret := c.View(ic, "GetIBTPByID", pb.String(id), pb.Bool(isReq))
				if !ok && strings.Count(id, "-") != 2 {
					// GetIBTPByID refuses ids that do not split into exactly three parts (a service name containing
					// '-'): read the index record from the contract's storage instead
					key := contracts.IndexMapKey(id)
					if !isReq {
						key = contracts.IndexReceiptMapKey(id)
					}
					c.ViewLdg.Clear()
					if found, val := c.ViewLdg.GetState(ic, []byte(key)); found {
						var hh types.Hash
						if json.Unmarshal(val, &hh) == nil {
							ok, ret = true, hh.Bytes()
						}
					}
				}
				if ok {
					if s, known := serial[types.NewHash(ret).String()]; known {
						pair[j] = s
					} else {
						pair[j] = -2
					}
				}
			}
			ix = append(ix, pair)
		}
		ch := []interface{}{}
		for _, q := range h.Qgids {
			c.ViewLdg.Clear()
			gid, found := w.resolve(c, tm, [3]uint64{uint64(in(q[0])), u64(q[1]), u64(q[2])})
			if !found {
				// no child of this declared group is filed anywhere: the group does not exist
				st = append(st, -1)
				ch = append(ch, []interface{}{0, 0, "0", 0, []interface{}{}})
				continue
			}
			st = append(st, status(gid))
			c.ViewLdg.Clear()
			ok, val := c.ViewLdg.GetState(tm, []byte(contracts.GlobalTxInfoKey(gid)))
			if !ok {
				ch = append(ch, []interface{}{0, 0, "0", 0, []interface{}{}})
				continue
			}
			var info contracts.TransactionInfo
			if err := json.Unmarshal(val, &info); err != nil {
				ch = append(ch, []interface{}{2, 0, "0", 0, []interface{}{}})
				continue
			}
			ids := []string{}
			for id := range info.ChildTxInfo {
				ids = append(ids, id)
			}
			sort.Strings(ids)
			var kids []interface{}
			for _, id := range ids {
				p := w.parseID(id)
				kids = append(kids, append(p, int(info.ChildTxInfo[id])))
			}
			ch = append(ch, []interface{}{1, int(info.GlobalState), strconv.FormatUint(info.Height, 10), info.ChildTxCount, orEmpty(kids)})
		}
		ob["st"], ob["ix"], ob["ch"] = st, ix, ch
		icl := []interface{}{}
		for k := range w.svcs {
			ok, ret := c.View(ic, "GetInterchain", pb.String(w.full(k+1)))
			if !ok {
				icl = append(icl, []interface{}{0, []interface{}{}})
				continue
			}
			var rec pb.Interchain
			if err := rec.Unmarshal(ret); err != nil {
				icl = append(icl, []interface{}{2, []interface{}{}})
				continue
			}
			var rows []interface{}
			for j := range w.svcs {
				o := w.full(j + 1)
				a, b2, c2, d2 := rec.InterchainCounter[o], rec.ReceiptCounter[o], rec.SourceInterchainCounter[o], rec.SourceReceiptCounter[o]
				if a|b2|c2|d2 != 0 {
					rows = append(rows, []interface{}{j + 1, strconv.FormatUint(a, 10), strconv.FormatUint(b2, 10), strconv.FormatUint(c2, 10), strconv.FormatUint(d2, 10)})
				}
			}
			icl = append(icl, []interface{}{1, orEmpty(rows)})
		}
		ob["ic"] = icl
		tl := []interface{}{}
		c.ViewLdg.Clear()
		for _, q := range h.Qhs {
			ok, val := c.ViewLdg.GetState(tm, []byte(contracts.TimeoutKey(u64(q))))
			if !ok {
				tl = append(tl, []interface{}{0, []interface{}{}})
				continue
			}
			var toks []interface{}
			for _, s := range strings.Split(string(val), ",") {
				toks = append(toks, w.token(s))
			}
			tl = append(tl, []interface{}{1, toks})
		}
		c.ViewLdg.Clear()
		ob["tl"] = tl
		ob["h"] = height
		blocksOut = append(blocksOut, ob)
	}
	// "an event, once delivered, never changes": look at every retained event again now that all later blocks have
	// run, and at the persisted meta of its height
	var mut []interface{}
	for _, r := range retained {
		c1, t1, m1 := w.renderMeta(r.meta)
		late, _ := json.Marshal([]interface{}{c1, t1, m1})
		if string(late) != r.at {
			mut = append(mut, []interface{}{r.block, "event", json.RawMessage(r.at), json.RawMessage(late)})
		}
		if pm, err := c.Ledger.GetInterchainMeta(r.height); err == nil && pm != nil {
			c2, t2, m2 := w.renderMeta(pm)
			pers, _ := json.Marshal([]interface{}{c2, t2, m2})
			if string(pers) != r.at {
				mut = append(mut, []interface{}{r.block, "persisted", json.RawMessage(r.at), json.RawMessage(pers)})
			}
		}
	}
	out["mut"] = orEmpty(mut)
	out["blocks"] = orEmpty(blocksOut)
	return out, nil
}

func orEmpty(l []interface{}) []interface{} {
	if l == nil {
		return []interface{}{}
	}
	return l
}

func main() {
	hx.Main(map[string]func(args []string) error{
		"ibtp": func(args []string) error { return hx.Lines(runHistory) },
	})
}
