// Driver for property C15 (governance voting).
//
// sub-command "gov": one JSON history per input line, run against the REAL RoleManager +
// Governance + NodeManager + ProposalStrategy contracts through the real executor stack of
// hx.NewChain; one JSON line of projected observables per history.
//
// sub-command "decide": pure differential driver for repo.MakeStrategyDecision and
// repo.CheckStrategyExpression; one JSON object per input line.
//
// Integer coding (shared with checks/C15.py and coq/theories/Model/Gov.v):
//   accounts   0..n-1 genesis admins | 100+i candidates | 200+i outsiders | 300+j node accounts
//   modules    0 role_mgr | 1 node_mgr | 2 proposal_strategy_mgr
//   events     0 register 1 update 2 freeze 3 activate 4 logout
//   p.status   0 proposed 1 paused 2 approve 3 reject
//   reasons    0 none 1 normal 2 zero-permission 3 withdrawn 4 priority 5 electorate 6 cleared 7 other
//   obj status 0 none(absent) 1 unavailable 2 registering 3 available 4 freezing 5 frozen
//              6 activating 7 logouting 8 forbidden 9 updating 10 other
//   errors     0 ok 1 no-permission 2 voter-not-available-admin 3 no-such-proposal 4 vote-on-ended
//              5 repeated-vote 6 illegal-ballot 7 not-in-electorate 8 end-ended 9 other
package main

import (
	"bufio"
	"encoding/json"
	"fmt"
	"math"
	"os"
	"regexp"
	"sort"
	"strings"
	"time"

	"github.com/meshplus/bitxhub-core/governance"
	nodemgr "github.com/meshplus/bitxhub-core/node-mgr"
	"github.com/meshplus/bitxhub-kit/crypto"
	"github.com/meshplus/bitxhub-model/constant"
	"github.com/meshplus/bitxhub-model/pb"
	"github.com/meshplus/bitxhub/internal/executor/contracts"
	"github.com/meshplus/bitxhub/internal/repo"
	"github.com/meshplus/bitxhub/verifharness/hx"
)

type op struct {
	K string `json:"k"` // kind
	C int    `json:"c"` // caller account
	X int    `json:"x"` // target account / node index / module
	P int    `json:"p"` // proposal index (creation order)
	B int    `json:"b"` // ballot 0 reject 1 approve 2.. garbage | strategy type | guarded method
	E int    `json:"e"` // expression index
	N uint64 `json:"n"` // number argument for guarded calls
}

type history struct {
	N       int      `json:"n"`
	Weights []uint64 `json:"weights"`
	Strat   [][2]int `json:"strat"` // per module (0,1,2): [type(0 vote,1 zero,-1 unset), exprIdx]
	Exprs   []string `json:"exprs"`
	Blocks  [][]op   `json:"blocks"`
	Audit   bool     `json:"audit"`
	Accts   []int    `json:"accts"` // further accounts to observe from the start
	NNodes  int      `json:"nodes"` // node indexes 0..NNodes-1 observed from the start
}

type propObs struct {
	From    int      `json:"from"`
	Seq     int      `json:"seq"`
	Kind    int      `json:"kind"`
	Ev      int      `json:"ev"`
	St      int      `json:"st"`
	Obj     int      `json:"obj"`
	A       uint64   `json:"a"`
	R       uint64   `json:"r"`
	T       uint64   `json:"t"`
	Av      uint64   `json:"av"`
	Th      uint64   `json:"th"`
	Reason  int      `json:"reason"`
	Special bool     `json:"special"`
	Super   bool     `json:"super"`
	Lock    int      `json:"lock"`
	Zero    bool     `json:"zero"`
	Expr    int      `json:"expr"`
	Ballots [][2]int `json:"ballots"`
	Elect   [][2]int `json:"elect"`
	Last    int      `json:"last"`
}

type stepObs struct {
	Rc    [][2]int  `json:"rc"` // per tx: [success(1)/fail(0), error class]
	Props []propObs `json:"props"`
	Roles [][3]int  `json:"roles"` // [account, status, weight]
	Nodes [][2]int  `json:"nodes"` // [node index, status]
	Strat [][3]int  `json:"strat"` // per module: [type, exprIdx, status]
	PL    []int     `json:"pl"`    // status index "proposed": proposal indexes in the contract's order
	QL    []int     `json:"ql"`    // status index "pause"
}

type histOut struct {
	Err      string    `json:"err,omitempty"`
	Admitted []int     `json:"admitted"` // per expression: CheckStrategyExpression(expr, n) == nil
	Init     stepObs   `json:"init"`
	Steps    []stepObs `json:"steps"`
	Raw      []string  `json:"raw,omitempty"`
}

var modules = []string{repo.RoleMgr, repo.NodeMgr, repo.ProposalStrategyMgr}
var evCodes = map[string]int{"register": 0, "update": 1, "freeze": 2, "activate": 3, "logout": 4}
var stCodes = map[string]int{"proposed": 0, "pause": 1, "approve": 2, "reject": 3}
var objCodes = map[string]int{"": 0, "unavailable": 1, "registering": 2, "available": 3, "freezing": 4, "frozen": 5,
	"activating": 6, "logouting": 7, "forbidden": 8, "updating": 9}

func reasonCode(r string) int {
	switch {
	case r == "":
		return 0
	case r == string(contracts.NormalReason):
		return 1
	case r == string(contracts.ZeroPermissionReason):
		return 2
	case r == string(contracts.WithdrawnReason):
		return 3
	case strings.HasPrefix(r, string(contracts.PriorityReason)):
		return 4
	case r == string(contracts.ElectorateReason):
		return 5
	case r == string(contracts.ClearReason):
		return 6
	}
	return 7
}

var codeRe = regexp.MustCompile(`[12]\d{6}`)

func errClass(ret string) int {
	m := codeRe.FindString(ret)
	switch m {
	case "1010001", "1040001", "1050001", "1130001":
		return 1
	case "1010007":
		return 2
	case "1010002":
		return 3
	case "1010008":
		return 4
	case "1010009":
		return 5
	case "1010010":
		return 6
	case "1010011":
		return 7
	case "1010003":
		return 8
	}
	if m == "" && strings.Contains(ret, "does not have the permission") {
		return 1
	}
	return 9
}

type world struct {
	c      *hx.Chain
	h      *history
	keys   map[int]crypto.PrivateKey
	addr2  map[string]int // address -> account code
	nonces map[int]uint64
	pids   []string
	pidIdx map[string]int
	exprIx map[string]int
	raw    []string
}

func (w *world) key(acct int) crypto.PrivateKey {
	if k, ok := w.keys[acct]; ok {
		return k
	}
	var k crypto.PrivateKey
	switch {
	case acct < 100:
		k = hx.Key(hx.AdminKeyID(acct))
	case acct < 200:
		k = hx.Key(2000 + acct - 100)
	case acct < 300:
		k = hx.Key(4000 + acct - 200)
	default:
		k = hx.Key(3000 + acct - 300)
	}
	w.keys[acct] = k
	w.addr2[hx.Addr(k).String()] = acct
	return k
}

func (w *world) addr(acct int) string { return hx.Addr(w.key(acct)).String() }

func (w *world) pid(i int) string {
	if i >= 0 && i < len(w.pids) {
		return w.pids[i]
	}
	return fmt.Sprintf("0x00000000000000000000000000000000000000ee-%d", 900+i)
}

func normExpr(s string) string { return strings.ReplaceAll(s, " ", "") }

func (w *world) tx(o op) pb.Transaction {
	k := w.key(o.C)
	n := w.nonces[o.C]
	w.nonces[o.C] = n + 1
	gov := constant.GovernanceContractAddr.Address()
	role := constant.RoleContractAddr.Address()
	node := constant.NodeManagerContractAddr.Address()
	psm := constant.ProposalStrategyMgrContractAddr.Address()
	switch o.K {
	case "reg_role":
		return hx.BvmTx(k, n, role, "RegisterRole", pb.String(w.addr(o.X)), pb.String(string(contracts.GovernanceAdmin)), pb.String(""), pb.String("r"))
	case "freeze":
		return hx.BvmTx(k, n, role, "FreezeRole", pb.String(w.addr(o.X)), pb.String("r"))
	case "activate":
		return hx.BvmTx(k, n, role, "ActivateRole", pb.String(w.addr(o.X)), pb.String("r"))
	case "logout":
		return hx.BvmTx(k, n, role, "LogoutRole", pb.String(w.addr(o.X)), pb.String("r"))
	case "reg_node":
		return hx.BvmTx(k, n, node, "RegisterNode", pb.String(w.addr(300+o.X)), pb.String(string(nodemgr.NVPNode)), pb.String(""), pb.Uint64(0),
			pb.String(fmt.Sprintf("nvp%d", o.X)), pb.String("chainA"), pb.String("r"))
	case "logout_node":
		return hx.BvmTx(k, n, node, "LogoutNode", pb.String(w.addr(300+o.X)), pb.String("r"))
	case "vote":
		b := "approve"
		switch o.B {
		case 0:
			b = "reject"
		case 1:
			b = "approve"
		case 2:
			b = "maybe"
		case 3:
			b = ""
		case 4:
			b = "Approve"
		default:
			b = "approve "
		}
		return hx.BvmTx(k, n, gov, "Vote", pb.String(w.pid(o.P)), pb.String(b), pb.String("r"))
	case "withdraw":
		return hx.BvmTx(k, n, gov, "WithdrawProposal", pb.String(w.pid(o.P)), pb.String("r"))
	case "zero":
		return hx.BvmTx(k, n, gov, "ZeroPermission", pb.String(w.pid(o.P)))
	case "upd_strategy":
		typ := repo.SimpleMajority
		if o.B == 1 {
			typ = repo.ZeroPermission
		}
		mod, ex := "no_such_mgr", "a > 0.5 * t"
		if o.X >= 0 && o.X < len(modules) {
			mod = modules[o.X]
		}
		if o.E >= 0 && o.E < len(w.h.Exprs) {
			ex = w.h.Exprs[o.E]
		}
		return hx.BvmTx(k, n, psm, "UpdateProposalStrategy", pb.String(mod), pb.String(typ), pb.String(ex), pb.String("r"))
	case "guarded":
		obj := w.addr(o.X)
		switch o.B {
		case 0:
			return hx.BvmTx(k, n, gov, "UpdateAvailableElectorateNum", pb.String(w.pid(o.P)), pb.Uint64(o.N))
		case 1:
			return hx.BvmTx(k, n, gov, "EndObjProposal", pb.String(obj), pb.String(string(contracts.ClearReason)), pb.Bytes(nil))
		case 2:
			return hx.BvmTx(k, n, gov, "LockLowPriorityProposal", pb.String(obj), pb.String("logout"))
		case 3:
			return hx.BvmTx(k, n, gov, "UnLockLowPriorityProposal", pb.String(obj), pb.String("unpause"))
		case 4:
			return hx.BvmTx(k, n, gov, "SubmitProposal", pb.String(w.addr(o.C)), pb.String("register"), pb.String(repo.RoleMgr), pb.String(obj),
				pb.String("unavailable"), pb.String("r"), pb.Bytes(nil))
		case 5:
			return hx.BvmTx(k, n, role, "Manage", pb.String("register"), pb.String("approve"), pb.String("unavailable"), pb.String(obj), pb.Bytes(nil))
		default:
			return hx.BvmTx(k, n, psm, "UpdateProposalStrategyByRolesChange", pb.Uint64(o.N))
		}
	}
	// unknown op: a harmless view-like call that fails
	return hx.BvmTx(k, n, gov, "NoSuchMethod")
}

func isSubmit(k string) bool {
	switch k {
	case "reg_role", "freeze", "activate", "logout", "reg_node", "logout_node", "upd_strategy":
		return true
	}
	return false
}

func (w *world) acctOf(a string) int {
	if v, ok := w.addr2[a]; ok {
		return v
	}
	return 999
}

// statusList reads GetProposalsByStatus(status) and maps the ids to creation indexes (998 = unknown id)
func (w *world) statusList(status string) []int {
	out := []int{}
	ok, ret := w.c.View(constant.GovernanceContractAddr.Address(), "GetProposalsByStatus", pb.String(status))
	if !ok {
		return []int{997}
	}
	var ps []*contracts.Proposal
	if err := json.Unmarshal(ret, &ps); err != nil {
		return []int{996}
	}
	for _, p := range ps {
		if i, ok := w.pidIdx[p.Id]; ok {
			out = append(out, i)
		} else {
			out = append(out, 998)
		}
	}
	return out
}

func (w *world) observe(rc [][2]int) stepObs {
	c := w.c
	out := stepObs{Rc: rc, Props: []propObs{}, Roles: [][3]int{}, Nodes: [][2]int{}, Strat: [][3]int{}}
	gov := constant.GovernanceContractAddr.Address()
	for _, id := range w.pids {
		ok, ret := c.View(gov, "GetProposal", pb.String(id))
		po := propObs{Lock: -1, Expr: -1, Ballots: [][2]int{}, Elect: [][2]int{}}
		if !ok {
			po.St = 9
			out.Props = append(out.Props, po)
			continue
		}
		p := &contracts.Proposal{}
		if err := json.Unmarshal(ret, p); err != nil {
			po.St = 8
			out.Props = append(out.Props, po)
			continue
		}
		parts := strings.SplitN(p.Id, "-", 2)
		po.From = w.acctOf(parts[0])
		fmt.Sscanf(parts[1], "%d", &po.Seq)
		po.Kind = 9
		for i, m := range modules {
			if string(p.Typ) == m {
				po.Kind = i
			}
		}
		if v, ok := evCodes[string(p.EventType)]; ok {
			po.Ev = v
		} else {
			po.Ev = 9
		}
		if v, ok := stCodes[string(p.Status)]; ok {
			po.St = v
		} else {
			po.St = 7
		}
		if po.Kind == 2 {
			po.Obj = 9
			for i, m := range modules {
				if p.ObjId == m {
					po.Obj = 400 + i
				}
			}
		} else {
			po.Obj = w.acctOf(p.ObjId)
		}
		po.A, po.R, po.T, po.Av, po.Th = p.ApproveNum, p.AgainstNum, p.InitialElectorateNum, p.AvailableElectorateNum, p.ThresholdApproveNum
		po.Reason = reasonCode(string(p.EndReason))
		po.Special, po.Super = p.IsSpecial, p.IsSuperAdminVoted
		if p.LockProposalId != "" {
			if i, ok := w.pidIdx[p.LockProposalId]; ok {
				po.Lock = i
			} else {
				po.Lock = 998
			}
		}
		po.Zero = p.StrategyType == contracts.ZeroPermission
		if i, ok := w.exprIx[normExpr(p.StrategyExpression)]; ok {
			po.Expr = i
		}
		if v, ok := objCodes[string(p.ObjLastStatus)]; ok {
			po.Last = v
		} else {
			po.Last = 10
		}
		for voter, b := range p.BallotMap {
			v := 2
			if b.Approve == contracts.BallotApprove {
				v = 1
			} else if b.Approve == contracts.BallotReject {
				v = 0
			}
			po.Ballots = append(po.Ballots, [2]int{w.acctOf(voter), v})
		}
		sort.Slice(po.Ballots, func(i, j int) bool { return po.Ballots[i][0] < po.Ballots[j][0] })
		for _, e := range p.ElectorateList {
			po.Elect = append(po.Elect, [2]int{w.acctOf(e.ID), int(e.Weight)})
		}
		sort.Slice(po.Elect, func(i, j int) bool { return po.Elect[i][0] < po.Elect[j][0] })
		out.Props = append(out.Props, po)
	}
	out.PL, out.QL = w.statusList(string(contracts.PROPOSED)), w.statusList(string(contracts.PAUSED))
	role := constant.RoleContractAddr.Address()
	var accts []int
	for a := range w.keys {
		if a < 300 {
			accts = append(accts, a)
		}
	}
	sort.Ints(accts)
	for _, a := range accts {
		ok, ret := c.View(role, "GetRoleInfoById", pb.String(w.addr(a)))
		if !ok {
			out.Roles = append(out.Roles, [3]int{a, 0, 0})
			continue
		}
		r := &contracts.Role{}
		_ = json.Unmarshal(ret, r)
		s, ok2 := objCodes[string(r.Status)]
		if !ok2 {
			s = 10
		}
		out.Roles = append(out.Roles, [3]int{a, s, int(r.Weight)})
	}
	nodeC := constant.NodeManagerContractAddr.Address()
	var nodes []int
	for a := range w.keys {
		if a >= 300 {
			nodes = append(nodes, a-300)
		}
	}
	sort.Ints(nodes)
	for _, j := range nodes {
		ok, ret := c.View(nodeC, "GetNode", pb.String(w.addr(300+j)))
		if !ok {
			out.Nodes = append(out.Nodes, [2]int{j, 0})
			continue
		}
		nd := &nodemgr.Node{}
		_ = json.Unmarshal(ret, nd)
		s, ok2 := objCodes[string(nd.Status)]
		if !ok2 {
			s = 10
		}
		out.Nodes = append(out.Nodes, [2]int{j, s})
	}
	psm := constant.ProposalStrategyMgrContractAddr.Address()
	for i, m := range modules {
		ok, ret := c.View(psm, "GetProposalStrategy", pb.String(m))
		if !ok {
			out.Strat = append(out.Strat, [3]int{-1, -1, 0})
			continue
		}
		ps := &contracts.ProposalStrategy{}
		_ = json.Unmarshal(ret, ps)
		t := 0
		if ps.Typ == contracts.ZeroPermission {
			t = 1
		}
		e := -1
		if ix, ok := w.exprIx[normExpr(ps.Extra)]; ok {
			e = ix
		}
		s, ok2 := objCodes[string(ps.Status)]
		if !ok2 {
			s = 10
		}
		_ = i
		out.Strat = append(out.Strat, [3]int{t, e, s})
	}
	return out
}

type session struct {
	w       *world
	c       *hx.Chain
	verbose bool
}

func (s *session) close() {
	if s.c != nil {
		s.c.Close()
		s.c = nil
	}
}

// start creates the chain, seeds weights, executes the seed block; returns admitted flags and the first observation
func startSession(h *history, verbose bool) (s *session, admitted []int, init stepObs, err error) {
	var strategies []*repo.Strategy
	for i, m := range modules {
		if i < len(h.Strat) && h.Strat[i][0] >= 0 {
			typ := repo.SimpleMajority
			if h.Strat[i][0] == 1 {
				typ = repo.ZeroPermission
			}
			strategies = append(strategies, &repo.Strategy{Module: m, Typ: typ, Extra: h.Exprs[h.Strat[i][1]]})
		}
	}
	if strategies == nil {
		strategies = []*repo.Strategy{}
	}
	c, e := hx.NewChain(hx.ChainOpts{NumAdmins: h.N, AdminWeight: 2, Strategy: strategies, Quiet: true, EnableAudit: h.Audit})
	if e != nil {
		return nil, nil, stepObs{}, e
	}
	w := &world{c: c, h: h, keys: map[int]crypto.PrivateKey{}, addr2: map[string]int{}, nonces: map[int]uint64{}, pidIdx: map[string]int{}, exprIx: map[string]int{}}
	s = &session{w: w, c: c, verbose: verbose}
	for i, e := range h.Exprs {
		if _, dup := w.exprIx[normExpr(e)]; !dup {
			w.exprIx[normExpr(e)] = i
		}
		if admittedSafe(e, h.N) {
			admitted = append(admitted, 1)
		} else {
			admitted = append(admitted, 0)
		}
	}
	for i := 0; i < h.N; i++ {
		w.key(i)
	}
	// mixed weights: rewrite the role records the way genesis.Initialize writes them
	for i := 0; i < h.N && i < len(h.Weights); i++ {
		if h.Weights[i] != 2 {
			r := &contracts.Role{ID: w.addr(i), RoleType: contracts.GovernanceAdmin, Weight: h.Weights[i], Status: governance.GovernanceAvailable}
			data, _ := json.Marshal(r)
			c.Ledger.SetState(constant.RoleContractAddr.Address(), []byte(contracts.RoleKey(r.ID)), data, nil)
		}
	}
	for _, a := range h.Accts {
		w.key(a)
	}
	for j := 0; j < h.NNodes; j++ {
		w.key(300 + j)
	}
	// register every account mentioned by the history so that it is observed from the start
	for _, b := range h.Blocks {
		for _, o := range b {
			s.mention(o)
		}
	}
	// NVP nodes need a permitted appchain that exists
	c.SeedAppchain("chainA", "", "", governance.GovernanceAvailable)
	// an empty block commits the seeded weights
	if ev := c.ExecBlock(nil, true, 20*time.Second); ev == nil {
		s.close()
		return nil, nil, stepObs{}, fmt.Errorf("executor did not answer (seed block)")
	}
	return s, admitted, w.observe([][2]int{}), nil
}

func (s *session) mention(o op) {
	w := s.w
	w.key(o.C)
	switch o.K {
	case "reg_role", "freeze", "activate", "logout":
		w.key(o.X)
	case "reg_node", "logout_node":
		w.key(300 + o.X)
	case "guarded":
		w.key(o.X)
	}
}

func (s *session) block(b []op) (stepObs, error) {
	w, c := s.w, s.c
	var txs []pb.Transaction
	for _, o := range b {
		s.mention(o)
		txs = append(txs, w.tx(o))
	}
	ev := c.ExecBlock(txs, true, 30*time.Second)
	if ev == nil {
		return stepObs{}, fmt.Errorf("executor did not answer")
	}
	rc := [][2]int{}
	for i, o := range b {
		r, err := c.Ledger.GetReceipt(txs[i].GetHash())
		if err != nil {
			rc = append(rc, [2]int{0, 9})
			continue
		}
		if s.verbose {
			w.raw = append(w.raw, fmt.Sprintf("%s c=%d x=%d p=%d b=%d -> %v %s", o.K, o.C, o.X, o.P, o.B, r.Status, string(r.Ret)))
		}
		if r.Status == pb.Receipt_SUCCESS {
			rc = append(rc, [2]int{1, 0})
			if isSubmit(o.K) {
				gr := &governance.GovernanceResult{}
				if json.Unmarshal(r.Ret, gr) == nil && gr.ProposalID != "" {
					if _, seen := w.pidIdx[gr.ProposalID]; !seen {
						w.pidIdx[gr.ProposalID] = len(w.pids)
					}
					// (an id handed out twice would be an orphan overwritten: still recorded as a new index)
					w.pids = append(w.pids, gr.ProposalID)
				}
			}
		} else {
			rc = append(rc, [2]int{0, errClass(string(r.Ret))})
		}
	}
	return w.observe(rc), nil
}

func runHistory(h *history, verbose bool) (out histOut) {
	defer func() {
		if e := recover(); e != nil {
			out.Err = fmt.Sprintf("panic: %v", e)
		}
	}()
	s, adm, init, err := startSession(h, verbose)
	if err != nil {
		out.Err = err.Error()
		return
	}
	defer s.close()
	out.Admitted, out.Init = adm, init
	for _, b := range h.Blocks {
		so, err := s.block(b)
		if err != nil {
			out.Err = err.Error()
			return
		}
		out.Steps = append(out.Steps, so)
	}
	out.Raw = s.w.raw
	return
}

func admittedSafe(e string, n int) (ok bool) {
	defer func() {
		if r := recover(); r != nil {
			ok = false
		}
	}()
	return repo.CheckStrategyExpression(e, n) == nil
}

// ---------------------------------------------------------------------------------------
// pure differential driver

type decideIn struct {
	Expr  string `json:"expr"`
	A     uint64 `json:"a"`
	R     uint64 `json:"r"`
	T     uint64 `json:"t"`
	Avail uint64 `json:"avail"`
	N     int    `json:"n"` // admin count for CheckStrategyExpression
}
type decideOut struct {
	End      bool `json:"end"`
	Pass     bool `json:"pass"`
	Err      bool `json:"err"`
	Panic    bool `json:"panic"`
	Admitted bool `json:"admitted"`
	AdmPanic bool `json:"adm_panic"`
}

func decideOne(in decideIn) (out decideOut) {
	func() {
		defer func() {
			if e := recover(); e != nil {
				out.Panic = true
			}
		}()
		end, pass, err := repo.MakeStrategyDecision(in.Expr, in.A, in.R, in.T, in.Avail)
		out.End, out.Pass, out.Err = end, pass, err != nil
	}()
	func() {
		defer func() {
			if e := recover(); e != nil {
				out.AdmPanic = true
			}
		}()
		out.Admitted = repo.CheckStrategyExpression(in.Expr, in.N) == nil
	}()
	return
}

// linesFlush is hx.Lines with a flush after every answer (interactive use)
func linesFlush(f func(line []byte) (interface{}, error)) error {
	sc := bufio.NewScanner(os.Stdin)
	sc.Buffer(make([]byte, 1<<20), 1<<28)
	w := bufio.NewWriterSize(os.Stdout, 1<<20)
	enc := json.NewEncoder(w)
	for sc.Scan() {
		if len(sc.Bytes()) == 0 {
			continue
		}
		out, err := f(sc.Bytes())
		if err != nil {
			return err
		}
		if err := enc.Encode(out); err != nil {
			return err
		}
		if err := w.Flush(); err != nil {
			return err
		}
	}
	return sc.Err()
}

func main() {
	_ = math.MaxInt64
	cmds := map[string]func(args []string) error{}
	cmds["gov"] = func(args []string) error {
		verbose := len(args) > 0 && args[0] == "-v"
		return hx.Lines(func(line []byte) (interface{}, error) {
			h := &history{}
			if err := json.Unmarshal(line, h); err != nil {
				return nil, err
			}
			return runHistory(h, verbose), nil
		})
	}
	// interactive: header line -> {"init":..,"admitted":..}; {"ops":[..]} -> step observation; {"end":true} -> {"end":true}
	cmds["gov-i"] = func(args []string) error {
		var cur *session
		defer func() {
			if cur != nil {
				cur.close()
			}
		}()
		return linesFlush(func(line []byte) (res interface{}, err error) {
			defer func() {
				if e := recover(); e != nil {
					res, err = map[string]interface{}{"err": fmt.Sprintf("panic: %v", e)}, nil
				}
			}()
			var probe struct {
				Ops []op `json:"ops"`
				End bool `json:"end"`
				N   int  `json:"n"`
			}
			if err := json.Unmarshal(line, &probe); err != nil {
				return nil, err
			}
			switch {
			case probe.End:
				if cur != nil {
					cur.close()
					cur = nil
				}
				return map[string]interface{}{"end": true}, nil
			case probe.N > 0:
				if cur != nil {
					cur.close()
					cur = nil
				}
				h := &history{}
				if err := json.Unmarshal(line, h); err != nil {
					return nil, err
				}
				s, adm, init, err := startSession(h, false)
				if err != nil {
					return map[string]interface{}{"err": err.Error()}, nil
				}
				cur = s
				return map[string]interface{}{"init": init, "admitted": adm}, nil
			default:
				if cur == nil {
					return map[string]interface{}{"err": "no session"}, nil
				}
				so, err := cur.block(probe.Ops)
				if err != nil {
					return map[string]interface{}{"err": err.Error()}, nil
				}
				return so, nil
			}
		})
	}
	cmds["decide"] = func(args []string) error {
		return hx.Lines(func(line []byte) (interface{}, error) {
			var in decideIn
			if err := json.Unmarshal(line, &in); err != nil {
				return nil, err
			}
			return decideOne(in), nil
		})
	}
	hx.Main(cmds)
}
