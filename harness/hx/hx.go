// Package hx: helpers shared by all drivers (JSON-lines I/O, sub-command table).
package hx

import (
	"bufio"
	"encoding/json"
	"fmt"
	"os"
)

// Lines calls f for every non-empty input line of stdin and writes whatever f returns as one
// JSON line on stdout.
func Lines(f func(line []byte) (interface{}, error)) error {
	sc := bufio.NewScanner(os.Stdin)
	sc.Buffer(make([]byte, 1<<20), 1<<28)
	w := bufio.NewWriterSize(os.Stdout, 1<<20)
	defer w.Flush()
	enc := json.NewEncoder(w)
	for sc.Scan() {
		if len(sc.Bytes()) == 0 {
			continue
		}
		out, err := f(sc.Bytes())
		if err != nil {
			return err
		}
		if err := enc.Encode(out); err != nil {
			return err
		}
	}
	return sc.Err()
}

// Main dispatches os.Args[1] over the given sub-commands (or runs "" when there is one).
func Main(cmds map[string]func(args []string) error) {
	name := ""
	var rest []string
	if len(os.Args) > 1 {
		name, rest = os.Args[1], os.Args[2:]
	}
	f, ok := cmds[name]
	if !ok {
		fmt.Fprintln(os.Stderr, "unknown sub-command", name)
		os.Exit(2)
	}
	if err := f(rest); err != nil {
		fmt.Fprintln(os.Stderr, "driver error:", err)
		os.Exit(3)
	}
}
