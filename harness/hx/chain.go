package hx

// Real relay-chain stack in a temp dir: leveldb x2 + blockfile + ledger.New + genesis.Initialize
// + executor.New (block executor and view executor), exactly the way internal/app wires them.

import (
	"crypto/sha256"
	"encoding/json"
	"fmt"
	"io/ioutil"
	"math/big"
	"os"
	"path/filepath"
	"strings"
	"time"

	appchainmgr "github.com/meshplus/bitxhub-core/appchain-mgr"
	"github.com/meshplus/bitxhub-core/governance"
	ruleMgr "github.com/meshplus/bitxhub-core/rule-mgr"
	servicemgr "github.com/meshplus/bitxhub-core/service-mgr"
	"github.com/meshplus/bitxhub-core/validator"
	"github.com/meshplus/bitxhub-kit/crypto"
	"github.com/meshplus/bitxhub-kit/crypto/asym"
	"github.com/meshplus/bitxhub-kit/crypto/asym/ecdsa"
	"github.com/meshplus/bitxhub-kit/log"
	"github.com/meshplus/bitxhub-kit/storage"
	"github.com/meshplus/bitxhub-kit/storage/blockfile"
	"github.com/meshplus/bitxhub-kit/types"
	"github.com/meshplus/bitxhub-model/constant"
	"github.com/meshplus/bitxhub-model/pb"
	"github.com/meshplus/bitxhub/internal/executor"
	"github.com/meshplus/bitxhub/internal/executor/oracle/appchain"
	"github.com/meshplus/bitxhub/internal/ledger"
	"github.com/meshplus/bitxhub/internal/ledger/genesis"
	"github.com/meshplus/bitxhub/internal/model/events"
	"github.com/meshplus/bitxhub/internal/repo"
	ledger2 "github.com/meshplus/eth-kit/ledger"
	"github.com/sirupsen/logrus"
)

// ChainOpts configures a chain.
type ChainOpts struct {
	NumAdmins   int    // governance admins created by genesis (>=1)
	AdminWeight uint64 // weight of every genesis admin (default 2 = super admin in this code base)
	Balance     string // genesis balance of every admin
	GasPrice    int64  // bvm gas price (0 = no fees)
	EnableAudit bool
	ChainID     uint64
	Strategy    []*repo.Strategy
	Quiet       bool
	LedgerType  string // "simple" (default here) or "complex" (repo.DefaultConfig's value: trie-based eth-kit state ledger)
	LeveldbType string // "normal" (default) or "multi"
	ProofType   string // "serial" (default here) or "parallel" (repo.DefaultConfig's value)
}

// Chain is a running single-node stack without ordering and networking.
type Chain struct {
	Dir      string
	Opts     ChainOpts
	Cfg      *repo.Config
	Repo     *repo.Repo
	Ledger   *ledger.Ledger
	ViewLdg  *ledger.Ledger
	Exec     *executor.BlockExecutor
	ViewExec *executor.BlockExecutor
	Admins   []crypto.PrivateKey
	Logger   logrus.FieldLogger
	blockCh  chan events.ExecutedEvent
	sub      interface{ Unsubscribe() }
	bc, st   storage.Storage
	stAny    interface{}
	bf       *blockfile.BlockFile
	NextTime int64
}

// Key returns a deterministic secp256k1 key for a small integer id (ids >= 1).
func Key(id int) crypto.PrivateKey {
	h := sha256.Sum256([]byte(fmt.Sprintf("verif-key-%d", id)))
	k, err := ecdsa.UnmarshalPrivateKey(h[:], crypto.Secp256k1)
	if err != nil {
		panic(err)
	}
	return k
}

// Addr returns the address of a key.
func Addr(k crypto.PrivateKey) *types.Address {
	a, err := k.PublicKey().Address()
	if err != nil {
		panic(err)
	}
	return a
}

// AdminKeyID is the Key id of genesis admin i (0-based).
func AdminKeyID(i int) int { return 1000 + i }

func quietLogger() logrus.FieldLogger {
	l := logrus.New()
	l.SetOutput(ioutil.Discard)
	l.SetLevel(logrus.PanicLevel)
	return l
}

// NewChain creates a fresh chain in a new temp dir and executes genesis.
func NewChain(o ChainOpts) (*Chain, error) {
	dir, err := os.MkdirTemp("", "verif-chain-")
	if err != nil {
		return nil, err
	}
	if o.NumAdmins == 0 {
		o.NumAdmins = 4
	}
	if o.AdminWeight == 0 {
		o.AdminWeight = 2
	}
	if o.Balance == "" {
		o.Balance = "100000000000000000000000000000000000"
	}
	if o.ChainID == 0 {
		o.ChainID = 1356
	}
	c := &Chain{Dir: dir, Opts: o, NextTime: 1_700_000_000_000_000_000}
	if err := asym.ConfiguredKeyType([]string{"Secp256k1"}); err != nil {
		return nil, err
	}
	cfg, err := repo.DefaultConfig()
	if err != nil {
		return nil, err
	}
	cfg.RepoRoot = dir
	cfg.Ledger.Type = "simple"
	if o.LedgerType != "" {
		cfg.Ledger.Type = o.LedgerType
	}
	if o.LeveldbType != "" {
		cfg.Ledger.LeveldbType = o.LeveldbType
	}
	cfg.Executor.Type = "serial"
	cfg.Executor.ProofType = "serial"
	if o.ProofType != "" {
		cfg.Executor.ProofType = o.ProofType
	}
	cfg.Executor.EnableAudit = o.EnableAudit
	cfg.Genesis.ChainID = o.ChainID
	cfg.Genesis.Balance = o.Balance
	cfg.Genesis.BvmGasPrice = uint64(o.GasPrice)
	cfg.ChainID = o.ChainID
	cfg.GasLimit = cfg.Genesis.GasLimit
	cfg.Genesis.Admins = nil
	for i := 0; i < o.NumAdmins; i++ {
		k := Key(AdminKeyID(i))
		c.Admins = append(c.Admins, k)
		cfg.Genesis.Admins = append(cfg.Genesis.Admins, &repo.Admin{Address: Addr(k).String(), Weight: o.AdminWeight})
	}
	if o.Strategy != nil {
		cfg.Genesis.Strategy = o.Strategy
	} else {
		cfg.Genesis.Strategy = defaultStrategies()
	}
	c.Cfg = cfg
	c.Repo = &repo.Repo{Config: cfg, Key: &repo.Key{PrivKey: c.Admins[0], Address: Addr(c.Admins[0]).String()}, NetworkConfig: &repo.NetworkConfig{}}
	c.Logger = quietLogger()
	if !o.Quiet {
		c.Logger = log.NewWithModule("executor")
		c.Logger.(*logrus.Entry).Logger.SetLevel(logrus.ErrorLevel)
		c.Logger.(*logrus.Entry).Logger.SetOutput(os.Stderr)
	}
	if err := c.open(true); err != nil {
		return nil, err
	}
	return c, nil
}

func defaultStrategies() []*repo.Strategy {
	var out []*repo.Strategy
	for _, m := range []string{repo.AppchainMgr, repo.RuleMgr, repo.NodeMgr, repo.ServiceMgr, repo.RoleMgr, repo.ProposalStrategyMgr, repo.DappMgr} {
		out = append(out, &repo.Strategy{Module: m, Typ: repo.SuperMajorityApprove, Extra: repo.DefaultSimpleMajorityExpression})
	}
	return out
}

func (c *Chain) open(first bool) error {
	var err error
	// stores are opened the way internal/app/bitxhub.go opens them
	c.bc, err = ledger.OpenChainDB(filepath.Join(c.Dir, "storage", "blockchain"), &c.Cfg.Ledger)
	if err != nil {
		return err
	}
	st, err := ledger.OpenStateDB(filepath.Join(c.Dir, "storage", "ledger"), &c.Cfg.Ledger)
	if err != nil {
		return err
	}
	c.stAny = st
	c.bf, err = blockfile.NewBlockFile(c.Dir, c.Logger)
	if err != nil {
		return err
	}
	c.Ledger, err = ledger.New(c.Repo, c.bc, st, c.bf, nil, c.Logger)
	if err != nil {
		return fmt.Errorf("ledger.New: %w", err)
	}
	c.ViewLdg = &ledger.Ledger{ChainLedger: c.Ledger.ChainLedger}
	if c.Cfg.Ledger.Type == ledger.SimpleLedgerTyp {
		c.st = st.(storage.Storage)
		c.ViewLdg.StateLedger, err = ledger.NewSimpleLedger(c.Repo, c.st, nil, c.Logger)
		if err != nil {
			return err
		}
	} else {
		cl, ok := c.Ledger.StateLedger.(*ledger2.ComplexStateLedger)
		if !ok {
			return fmt.Errorf("config wrong ledger type")
		}
		c.ViewLdg.StateLedger = cl.Copy()
	}
	c.ViewExec, err = executor.New(c.ViewLdg, c.Logger, &appchain.Client{}, c.Cfg, big.NewInt(0))
	if err != nil {
		return err
	}
	if c.Ledger.GetChainMeta().Height == 0 {
		if err := genesis.Initialize(&c.Cfg.Genesis, nil, 0, c.Ledger, c.ViewExec); err != nil {
			return fmt.Errorf("genesis: %w", err)
		}
	}
	c.Exec, err = executor.New(c.Ledger, c.Logger, &appchain.Client{}, c.Cfg, big.NewInt(c.Opts.GasPrice))
	if err != nil {
		return err
	}
	c.blockCh = make(chan events.ExecutedEvent, 16)
	c.sub = c.Exec.SubscribeBlockEvent(c.blockCh)
	return c.Exec.Start()
}

// Height returns the committed chain height.
func (c *Chain) Height() uint64 { return c.Ledger.GetChainMeta().Height }

// ExecBlock executes one block made of txs at the next height and waits for the executed
// event.  local[i]=true skips signature verification for tx i (as for API-submitted txs).
// Returns nil when the executor did not answer within the deadline.
func (c *Chain) ExecBlock(txs []pb.Transaction, allLocal bool, deadline time.Duration) *events.ExecutedEvent {
	h := c.Height() + 1
	c.NextTime += 1_000_000_000
	block := &pb.Block{
		BlockHeader:  &pb.BlockHeader{Version: []byte("1.0.0"), Number: h, Timestamp: c.NextTime},
		Transactions: &pb.Transactions{Transactions: txs},
	}
	local := make([]bool, len(txs))
	for i := range local {
		local[i] = allLocal
	}
	c.Exec.ExecuteBlock(&pb.CommitEvent{Block: block, LocalList: local})
	select {
	case ev := <-c.blockCh:
		c.waitCleared()
		return &ev
	case <-time.After(deadline):
		return nil
	}
}

// waitCleared waits for the executor's trailing ledger.Clear(): the executed-block event is
// posted BEFORE processExecuteEvent clears the in-block account objects, so a seeding write
// issued right after the event could otherwise be wiped.  Every block loads at least the
// transaction-manager account (getTimeoutList), so "no loaded account" means Clear() has run.
func (c *Chain) waitCleared() {
	sl, ok := c.Ledger.StateLedger.(*ledger.SimpleLedger)
	if !ok {
		return
	}
	for i := 0; i < 4000; i++ {
		if sl.VerifLoadedAccounts() == 0 {
			return
		}
		time.Sleep(500 * time.Microsecond)
	}
}

// Restart stops the executor, closes every store and reopens the stack from disk
// (all in-memory state of ledger, caches and executor is dropped).
func (c *Chain) Restart() error {
	c.closeStores()
	return c.open(false)
}

func (c *Chain) closeStores() {
	if c.sub != nil {
		c.sub.Unsubscribe()
	}
	if c.Exec != nil {
		_ = c.Exec.Stop() // persistData goroutine closes the ledger (and its stores)
		time.Sleep(50 * time.Millisecond)
	}
	// Stop() closes the ledger asynchronously through persistC; make sure files are released.
	func() {
		defer func() { _ = recover() }()
		c.Ledger.Close()
	}()
	func() {
		defer func() { _ = recover() }()
		_ = c.bf.Close()
	}()
}

// Close stops everything and removes the directory.
func (c *Chain) Close() {
	c.closeStores()
	_ = os.RemoveAll(c.Dir)
}

// ----------------------------------------------------------------------------------------
// transactions

// BvmTx builds a signed BVM invocation.
func BvmTx(k crypto.PrivateKey, nonce uint64, to *types.Address, method string, args ...*pb.Arg) *pb.BxhTransaction {
	pl := &pb.InvokePayload{Method: method, Args: args}
	data, _ := pl.Marshal()
	td := &pb.TransactionData{Type: pb.TransactionData_INVOKE, VmType: pb.TransactionData_BVM, Payload: data}
	return rawTx(k, nonce, to, td, nil)
}

// TransferTx builds a signed native transfer with the amount given as a decimal string
// (any string: the executor parses it).
func TransferTx(k crypto.PrivateKey, nonce uint64, to *types.Address, amount string) *pb.BxhTransaction {
	td := &pb.TransactionData{Type: pb.TransactionData_NORMAL, Amount: amount}
	return rawTx(k, nonce, to, td, nil)
}

// IBTPTx builds a signed IBTP transaction; extra is the proof (tx.Extra), ibtp.Proof should be
// sha256(extra) for a well-formed one.
func IBTPTx(k crypto.PrivateKey, nonce uint64, ibtp *pb.IBTP, extra []byte) *pb.BxhTransaction {
	tx := &pb.BxhTransaction{From: Addr(k), To: constant.InterchainContractAddr.Address(), Timestamp: 1, Nonce: nonce, IBTP: ibtp, Extra: extra}
	if err := tx.Sign(k); err != nil {
		panic(err)
	}
	tx.TransactionHash = tx.Hash()
	return tx
}

// RawPayloadTx builds a signed tx with an arbitrary payload (for malformed streams).
func RawPayloadTx(k crypto.PrivateKey, nonce uint64, to *types.Address, payload []byte) *pb.BxhTransaction {
	tx := &pb.BxhTransaction{From: Addr(k), To: to, Payload: payload, Timestamp: 1, Nonce: nonce}
	if err := tx.Sign(k); err != nil {
		panic(err)
	}
	tx.TransactionHash = tx.Hash()
	return tx
}

func rawTx(k crypto.PrivateKey, nonce uint64, to *types.Address, td *pb.TransactionData, ibtp *pb.IBTP) *pb.BxhTransaction {
	payload, _ := td.Marshal()
	tx := &pb.BxhTransaction{From: Addr(k), To: to, Payload: payload, Timestamp: 1, Nonce: nonce, IBTP: ibtp}
	if err := tx.Sign(k); err != nil {
		panic(err)
	}
	tx.TransactionHash = tx.Hash()
	return tx
}

// View runs a read-only BVM call on the view executor and returns (ok, ret).
func (c *Chain) View(to *types.Address, method string, args ...*pb.Arg) (bool, []byte) {
	tx := BvmTx(Key(999999), 0, to, method, args...)
	rs := c.ViewExec.ApplyReadonlyTransactions([]pb.Transaction{tx})
	if len(rs) != 1 {
		return false, nil
	}
	return rs[0].Status == pb.Receipt_SUCCESS, rs[0].Ret
}

// ----------------------------------------------------------------------------------------
// seeding shortcut: write appchain / rule / service records straight into contract state, the
// way genesis.Initialize writes admins.  The writes land in the next executed block.

// SeedAppchain registers chainID as an available appchain whose master rule is the
// always-accepting HappyRule (or ruleAddr if given) and whose admin is adminAddr.
func (c *Chain) SeedAppchain(chainID, adminAddr, ruleAddr string, ruleStatus governance.GovernanceStatus) {
	l := c.Ledger
	if ruleAddr == "" {
		ruleAddr = validator.HappyRuleAddr
	}
	chain := &appchainmgr.Appchain{ID: chainID, ChainName: "chain-" + chainID, ChainType: "ETH", TrustRoot: nil, Broker: []byte("0x857133c5C69e6Ce66F7AD46F200B9B3573e77582"),
		Status: governance.GovernanceAvailable, Desc: "seeded", Version: 0}
	data, _ := json.Marshal(chain)
	l.SetState(constant.AppchainMgrContractAddr.Address(), []byte(appchainmgr.AppchainKey(chainID)), data, nil)
	rules := []*ruleMgr.Rule{{Address: ruleAddr, ChainID: chainID, Master: true, Default: true, Status: ruleStatus}}
	rd, _ := json.Marshal(rules)
	l.SetState(constant.RuleManagerContractAddr.Address(), []byte(ruleMgr.RuleKey(chainID)), rd, nil)
	// appchain admin role record
	_ = adminAddr
}

// SeedService registers chainID:serviceID as a service with the given status and ordering.
func (c *Chain) SeedService(chainID, serviceID string, ordered bool, status governance.GovernanceStatus, blacklist map[string]struct{}) {
	svc := &servicemgr.Service{ChainID: chainID, ServiceID: serviceID, Name: "svc-" + chainID + "-" + serviceID, Type: "CallContract", Ordered: ordered,
		Permission: blacklist, Status: status, Details: "seeded", Intro: "seeded",
		EvaluationRecords: map[string]*governance.EvaluationRecord{}, InvokeRecords: map[string]*governance.InvokeRecord{}}
	if svc.Permission == nil {
		svc.Permission = map[string]struct{}{}
	}
	data, _ := json.Marshal(svc)
	c.Ledger.SetState(constant.ServiceMgrContractAddr.Address(), []byte(servicemgr.ServiceKey(chainID+":"+serviceID)), data, nil)
}

// ----------------------------------------------------------------------------------------
// canonicalisation helpers

// ErrClass maps a receipt return text to a small stable enum.
func ErrClass(ret string) string {
	r := strings.ToLower(ret)
	switch {
	case strings.Contains(r, "index already exists") || strings.Contains(r, "has been handled") || strings.Contains(r, "repeat"):
		return "index_exists"
	case strings.Contains(r, "wrong index") || strings.Contains(r, "required"):
		return "index_wrong"
	case strings.Contains(r, "no permission") || strings.Contains(r, "permission"):
		return "no_permission"
	case strings.Contains(r, "not sufficient funds"), strings.Contains(r, "insufficient balance"):
		return "insufficient"
	case strings.Contains(r, "not such method"):
		return "no_method"
	case strings.Contains(r, "proof"):
		return "proof"
	case strings.Contains(r, "not available") || strings.Contains(r, "unavailable"):
		return "unavailable"
	}
	return "other"
}
