// Package clx: helpers shared by the chain (C09) and crash (C11) drivers: opening the REAL
// ledger (leveldb x2 + blockfile) in a directory, fabricating blocks the way the executor
// seals them, interning 32-byte hashes into small integers, and reading every lookup back
// in canonical form.
package clx

import (
	"crypto/sha256"
	"encoding/json"
	"fmt"
	"io"
	"math/big"
	"os"
	"path/filepath"
	"sort"

	"github.com/cbergoon/merkletree"
	"github.com/meshplus/bitxhub-kit/crypto"
	"github.com/meshplus/bitxhub-kit/crypto/asym"
	"github.com/meshplus/bitxhub-kit/storage"
	"github.com/meshplus/bitxhub-kit/storage/blockfile"
	"github.com/meshplus/bitxhub-kit/types"
	"github.com/meshplus/bitxhub-model/pb"
	"github.com/meshplus/bitxhub/internal/executor"
	"github.com/meshplus/bitxhub/internal/ledger"
	"github.com/meshplus/bitxhub/internal/repo"
	"github.com/sirupsen/logrus"
)

// ---------------------------------------------------------------- interning

// Interner maps 32-byte hashes to small integers in order of first appearance; the zero hash
// and nil are 0.
type Interner struct {
	ids  map[string]uint64
	next uint64
}

func NewInterner() *Interner { return &Interner{ids: map[string]uint64{}, next: 1} }

func (in *Interner) Bytes(b []byte) uint64 {
	zero := true
	for _, x := range b {
		if x != 0 {
			zero = false
			break
		}
	}
	if zero {
		return 0
	}
	k := string(b)
	if id, ok := in.ids[k]; ok {
		return id
	}
	id := in.next
	in.next++
	in.ids[k] = id
	return id
}

func (in *Interner) Hash(h *types.Hash) uint64 {
	if h == nil {
		return 0
	}
	return in.Bytes(h.Bytes())
}

// ---------------------------------------------------------------- opening the real ledger

func Logger() logrus.FieldLogger {
	l := logrus.New()
	l.SetOutput(io.Discard)
	return l
}

var theKey crypto.PrivateKey

func Repo() *repo.Repo {
	if theKey == nil {
		k, err := asym.GenerateKeyPair(crypto.Secp256k1)
		if err != nil {
			panic(err)
		}
		theKey = k
	}
	addr, _ := theKey.PublicKey().Address()
	cfg := &repo.Config{}
	cfg.Ledger.Type = "simple"
	cfg.Executor.Type = "serial"
	return &repo.Repo{Config: cfg, Key: &repo.Key{PrivKey: theKey, Address: addr.String()}, NetworkConfig: &repo.NetworkConfig{}}
}

// Stores is everything that is open on one data directory.
type Stores struct {
	Dir    string
	Chain  storage.Storage // as handed to the ledger (possibly wrapped)
	State  storage.Storage
	BF     *blockfile.BlockFile
	Ledger *ledger.Ledger          // full mode
	CL     *ledger.ChainLedgerImpl // always
	Repo   *repo.Repo
}

type Wrap func(storage.Storage) storage.Storage

// ledgerConf: the [ledger] section of bitxhub.toml; kind is leveldb_type: "normal" (goleveldb,
// ordered batches) or "multi" (bitxhub-kit multi-layer leveldb: a batch applies all Puts, then
// all Deletes).  "" means "normal".
func ledgerConf(kind string) *repo.Ledger {
	if kind == "" {
		kind = ledger.NormalLeveldb
	}
	return &repo.Ledger{Type: "simple", LeveldbType: kind}
}

// OpenFull = what app.GenerateBitXHubWithoutOrder does: ledger.OpenChainDB, ledger.OpenStateDB (both
// through the configured leveldb_type), NewBlockFile, ledger.New; layout <root>/storage/{blockchain,ledger,blockfile}.
func OpenFull(dir, kind string, wrapChain, wrapState Wrap) (*Stores, error) {
	lc := ledgerConf(kind)
	cs, err := ledger.OpenChainDB(repo.GetStoragePath(dir, "blockchain"), lc)
	if err != nil {
		return nil, fmt.Errorf("open chain db: %w", err)
	}
	ssI, err := ledger.OpenStateDB(repo.GetStoragePath(dir, "ledger"), lc)
	if err != nil {
		cs.Close()
		return nil, fmt.Errorf("open state db: %w", err)
	}
	ss := ssI.(storage.Storage)
	bf, err := blockfile.NewBlockFile(dir, Logger())
	if err != nil {
		cs.Close()
		ss.Close()
		return nil, fmt.Errorf("open blockfile: %w", err)
	}
	var c, s storage.Storage = cs, ss
	if wrapChain != nil {
		c = wrapChain(cs)
	}
	if wrapState != nil {
		s = wrapState(ss)
	}
	rp := Repo()
	rp.Config.Ledger = *lc
	l, err := ledger.New(rp, c, s, bf, nil, Logger())
	if err != nil {
		cs.Close()
		ss.Close()
		bf.Close()
		return nil, err
	}
	st := &Stores{Dir: dir, Chain: c, State: s, BF: bf, Ledger: l, Repo: rp}
	st.CL = l.ChainLedger.(*ledger.ChainLedgerImpl)
	return st, nil
}

// OpenView creates the read-only view ledger the way app.GenerateBitXHubWithoutOrder does right
// after ledger.New: a second SimpleLedger on the SAME state store.
func (s *Stores) OpenView() error {
	_, err := ledger.NewSimpleLedger(s.Repo, s.State, nil, Logger())
	return err
}

// OpenChain opens the chain ledger alone (NewChainLedgerImpl).
func OpenChain(dir, kind string) (*Stores, error) {
	cs, err := ledger.OpenChainDB(repo.GetStoragePath(dir, "blockchain"), ledgerConf(kind))
	if err != nil {
		return nil, err
	}
	bf, err := blockfile.NewBlockFile(dir, Logger())
	if err != nil {
		cs.Close()
		return nil, err
	}
	rp := Repo()
	cl, err := ledger.NewChainLedgerImpl(cs, bf, rp, Logger())
	if err != nil {
		cs.Close()
		bf.Close()
		return nil, err
	}
	return &Stores{Dir: dir, Chain: cs, BF: bf, CL: cl, Repo: rp}, nil
}

func (s *Stores) Close() {
	if s.Ledger != nil {
		s.Ledger.Close() // chain store + blockfile + state store
		return
	}
	s.CL.Close()
}

// ---------------------------------------------------------------- fabricating blocks

var addrFrom = types.NewAddress([]byte("verif-from-address--"))
var addrTo = types.NewAddress([]byte("verif-to-address----"))

// Tx i: a deterministic transaction; equal i gives an equal hash (a "duplicate").
func Tx(i int) *pb.BxhTransaction {
	return &pb.BxhTransaction{From: addrFrom, To: addrTo, Nonce: uint64(i), Timestamp: int64(1000 + i),
		Payload: []byte(fmt.Sprintf("payload-%d", i)), Amount: "1"}
}

// Receipt of the transaction at position pos of the block made by op number opIdx
func Receipt(tx pb.Transaction, opIdx, pos int) *pb.Receipt {
	return &pb.Receipt{TxHash: tx.GetHash(), Ret: []byte(fmt.Sprintf("ret-%d-%d", opIdx, pos)), Status: pb.Receipt_SUCCESS}
}

// InterchainMeta from [[key,[idx...]],...] and a tag standing for the other fields
func InterchainMeta(counter []ICEntry, tag uint64) *pb.InterchainMeta {
	m := &pb.InterchainMeta{Counter: map[string]*pb.VerifiedIndexSlice{}}
	for _, e := range counter {
		sl := &pb.VerifiedIndexSlice{}
		for _, x := range e.Idx {
			sl.Slice = append(sl.Slice, &pb.VerifiedIndex{Index: x, Valid: x%2 == 0})
		}
		m.Counter[fmt.Sprintf("k%06d", e.Key)] = sl
	}
	if tag != 0 {
		m.TimeoutCounter = map[string]*pb.StringSlice{"t": {Slice: []string{fmt.Sprintf("tag%d", tag)}}}
	}
	return m
}

type ICEntry struct {
	Key uint64
	Idx []uint64
}

func (e *ICEntry) UnmarshalJSON(b []byte) error {
	var raw []json.RawMessage
	if err := json.Unmarshal(b, &raw); err != nil || len(raw) != 2 {
		return fmt.Errorf("bad ic entry %s", b)
	}
	if err := json.Unmarshal(raw[0], &e.Key); err != nil {
		return err
	}
	return json.Unmarshal(raw[1], &e.Idx)
}
func (e ICEntry) MarshalJSON() ([]byte, error) {
	idx := e.Idx
	if idx == nil {
		idx = []uint64{}
	}
	return json.Marshal([]interface{}{e.Key, idx})
}

var icKeys = map[string]uint64{}

// ICKeyID: the driver's own keys "k000123" are 123; any other key (real chain / service ids of
// executor-level runs) gets 1000, 1001, ... in order of first appearance (process-wide).
func ICKeyID(k string) uint64 {
	var key uint64
	if n, _ := fmt.Sscanf(k, "k%06d", &key); n == 1 && len(k) == 7 {
		return key
	}
	if id, ok := icKeys[k]; ok {
		return id
	}
	id := uint64(1000 + len(icKeys))
	icKeys[k] = id
	return id
}

// SortIC orders counter entries by key id
func SortIC(es []ICEntry) []ICEntry {
	sort.SliceStable(es, func(i, j int) bool { return es[i].Key < es[j].Key })
	if es == nil {
		es = []ICEntry{}
	}
	return es
}

// CanonIC reads an interchain meta back into (sorted counter, tag)
func CanonIC(m *pb.InterchainMeta) ([]ICEntry, uint64) {
	var out []ICEntry
	keys := make([]string, 0, len(m.Counter))
	for k := range m.Counter {
		keys = append(keys, k)
	}
	sort.Strings(keys)
	for _, k := range keys {
		key := ICKeyID(k)
		e := ICEntry{Key: key, Idx: []uint64{}}
		if m.Counter[k] != nil {
			for _, v := range m.Counter[k].Slice {
				e.Idx = append(e.Idx, v.Index)
			}
		}
		out = append(out, e)
	}
	var tag uint64
	if ts, ok := m.TimeoutCounter["t"]; ok && ts != nil && len(ts.Slice) == 1 {
		fmt.Sscanf(ts.Slice[0], "tag%d", &tag)
	}
	return SortIC(out), tag
}

// ExecutedIC recomputes the interchain counter of a block from what was ACTUALLY EXECUTED: the
// interchain events in the receipts of its transactions, in transaction order (a failed
// transaction delivers nothing) -- independently of the executor's per-block counter and of
// the stored interchain meta.
func ExecutedIC(receipts []*pb.Receipt) []ICEntry {
	byKey := map[uint64]*ICEntry{}
	var order []uint64
	for _, r := range receipts {
		if r.Status == pb.Receipt_FAILED {
			continue
		}
		for _, ev := range r.Events {
			if ev.EventType != pb.Event_INTERCHAIN {
				continue
			}
			m := map[string]*pb.EventWrapper{}
			if err := json.Unmarshal(ev.Data, &m); err != nil {
				continue
			}
			ks := make([]string, 0, len(m))
			for k := range m {
				ks = append(ks, k)
			}
			sort.Strings(ks)
			for _, k := range ks {
				id := ICKeyID(k)
				if byKey[id] == nil {
					byKey[id] = &ICEntry{Key: id, Idx: []uint64{}}
					order = append(order, id)
				}
				byKey[id].Idx = append(byKey[id].Idx, m[k].Index)
			}
		}
	}
	var out []ICEntry
	for _, id := range order {
		out = append(out, *byKey[id])
	}
	return SortIC(out)
}

// ExecRoot is the executor's OWN helper (calcMerkleRoot through the add-only hook): what the
// executor would put into TxRoot / ReceiptRoot when sealing.
func ExecRoot(hs []*types.Hash) *types.Hash {
	r, err := executor.VerifCalcMerkleRoot(hs)
	if err != nil {
		panic(err)
	}
	return r
}

// MerkleRoot: independent recomputation with the Merkle library itself (cbergoon/merkletree
// over the hashes as contents; the zero hash for the empty list); used for everything READ BACK.
func MerkleRoot(hs []*types.Hash) *types.Hash {
	if len(hs) == 0 {
		return &types.Hash{}
	}
	cs := make([]merkletree.Content, 0, len(hs))
	for _, h := range hs {
		cs = append(cs, h)
	}
	tree, err := merkletree.NewTree(cs)
	if err != nil {
		panic(err)
	}
	return types.NewHash(tree.MerkleRoot())
}

// ---------------------------------------------------------------- canonical observations

// R is a lookup result: [status, payload]; status 0 ok, 1 not found, 2 failed, 3 panic
type R [2]interface{}

func rOK(p interface{}) R { return R{0, p} }
func rErr(err error) R {
	if err == storage.ErrorNotFound {
		return R{1, nil}
	}
	return R{2, nil}
}

// Tables: the hash/root oracle the judge instantiates the abstract hash functions with
type Tables struct {
	In      *Interner
	HashTbl map[string]uint64 // "num,parent,state,txroot,rcroot" -> id
	HashKey map[string][5]uint64
	RootTbl map[string]uint64
	RootKey map[string][]uint64
}

func NewTables() *Tables {
	return &Tables{In: NewInterner(), HashTbl: map[string]uint64{}, HashKey: map[string][5]uint64{},
		RootTbl: map[string]uint64{}, RootKey: map[string][]uint64{}}
}

func (t *Tables) Header(h *pb.BlockHeader) [5]uint64 {
	f := [5]uint64{h.Number, t.In.Hash(h.ParentHash), t.In.Hash(h.StateRoot), t.In.Hash(h.TxRoot), t.In.Hash(h.ReceiptRoot)}
	k := fmt.Sprint(f)
	if _, ok := t.HashTbl[k]; !ok {
		t.HashTbl[k] = t.In.Hash(h.Hash()) // the REAL header hash of what was read
		t.HashKey[k] = f
	}
	return f
}

func (t *Tables) Root(hs []*types.Hash) []uint64 {
	ids := make([]uint64, 0, len(hs))
	for _, h := range hs {
		ids = append(ids, t.In.Hash(h))
	}
	k := fmt.Sprint(ids)
	if _, ok := t.RootTbl[k]; !ok {
		t.RootTbl[k] = t.In.Hash(MerkleRoot(hs))
		t.RootKey[k] = ids
	}
	return ids
}

func (t *Tables) HashTable() [][2]interface{} {
	keys := make([]string, 0, len(t.HashTbl))
	for k := range t.HashTbl {
		keys = append(keys, k)
	}
	sort.Strings(keys)
	out := make([][2]interface{}, 0, len(keys))
	for _, k := range keys {
		out = append(out, [2]interface{}{t.HashKey[k], t.HashTbl[k]})
	}
	return out
}

func (t *Tables) RootTable() [][2]interface{} {
	keys := make([]string, 0, len(t.RootTbl))
	for k := range t.RootTbl {
		keys = append(keys, k)
	}
	sort.Strings(keys)
	out := make([][2]interface{}, 0, len(keys))
	for _, k := range keys {
		out = append(out, [2]interface{}{t.RootKey[k], t.RootTbl[k]})
	}
	return out
}

// Block payload: [[num,parent,state,txroot,rcroot], hash, [tx hashes]]
func (t *Tables) block(b *pb.Block, recompute bool) interface{} {
	hdr := t.Header(b.BlockHeader)
	var hs []*types.Hash
	if b.Transactions != nil {
		for _, tx := range b.Transactions.Transactions {
			if bt, ok := tx.(*pb.BxhTransaction); ok && recompute {
				hs = append(hs, bt.Hash()) // recomputed from the stored fields
			} else {
				hs = append(hs, tx.GetHash())
			}
		}
	}
	ids := t.Root(hs)
	return []interface{}{hdr, t.In.Hash(b.BlockHash), ids}
}

func guard(f func() R) (r R) {
	defer func() {
		if e := recover(); e != nil {
			r = R{3, nil}
		}
	}()
	return f()
}

type HObs struct {
	Full R      `json:"full"`
	Idx  R      `json:"idx"`
	BH   uint64 `json:"bh"`
	IC   R      `json:"ic"`
	RC   R      `json:"rc"`
	SG   R      `json:"sg"`
}
type TObs struct {
	Tx   R `json:"tx"`
	Meta R `json:"meta"`
	RC   R `json:"rc"`
}
type Obs struct {
	Meta   [3]uint64 `json:"meta"`
	Stored [3]uint64 `json:"stored"` // LoadChainMeta: what a fresh process would read from the store
	HS     []HObs    `json:"hs"`
	XS     []R       `json:"xs"`
	TS     []TObs    `json:"ts"`
}

// Observe performs every lookup of the chain ledger over the universe.
func Observe(s *Stores, t *Tables, kh int, hashes []*types.Hash, txs []*types.Hash) Obs {
	cl := s.CL
	var o Obs
	m := cl.GetChainMeta()
	o.Meta = [3]uint64{m.Height, t.In.Hash(m.BlockHash), m.InterchainTxCount}
	func() {
		defer func() {
			if recover() != nil {
				o.Stored = [3]uint64{^uint64(0), 0, 0}
			}
		}()
		sm := cl.LoadChainMeta()
		o.Stored = [3]uint64{sm.Height, t.In.Hash(sm.BlockHash), sm.InterchainTxCount}
	}()
	for h := uint64(0); h <= uint64(kh); h++ {
		var ho HObs
		ho.Full = guard(func() R {
			b, err := cl.GetBlock(h, true)
			if err != nil {
				return rErr(err)
			}
			return rOK(t.block(b, true))
		})
		ho.Idx = guard(func() R {
			b, err := cl.GetBlock(h, false)
			if err != nil {
				return rErr(err)
			}
			return rOK(t.block(b, false))
		})
		func() {
			defer func() {
				if recover() != nil {
					ho.BH = ^uint64(0)
				}
			}()
			ho.BH = t.In.Hash(cl.GetBlockHash(h))
		}()
		ho.IC = guard(func() R {
			im, err := cl.GetInterchainMeta(h)
			if err != nil {
				return rErr(err)
			}
			c, tag := CanonIC(im)
			return rOK([]interface{}{c, tag})
		})
		ho.RC = guard(func() R {
			if s.BF == nil {
				// no blockfile handle (executor-level runs): the receipts of the block's transactions
				b, err := cl.GetBlock(h, true)
				if err != nil {
					return rErr(err)
				}
				var hs []*types.Hash
				for _, tx := range b.Transactions.Transactions {
					r, err := cl.GetReceipt(tx.GetHash())
					if err != nil {
						return rErr(err)
					}
					hs = append(hs, r.Hash())
				}
				return rOK(t.Root(hs))
			}
			data, err := s.BF.Get(blockfile.BlockFileReceiptTable, h)
			if err != nil {
				return rErr(err)
			}
			rs := &pb.Receipts{}
			if err := rs.Unmarshal(data); err != nil {
				return R{2, nil}
			}
			var hs []*types.Hash
			for _, r := range rs.Receipts {
				hs = append(hs, r.Hash())
			}
			return rOK(t.Root(hs))
		})
		ho.SG = guard(func() R {
			sig, err := cl.GetBlockSign(h)
			if err != nil {
				return rErr(err)
			}
			b, err := cl.GetBlock(h, false)
			if err != nil {
				return rErr(err)
			}
			ok, err := asym.Verify(crypto.Secp256k1, sig, b.BlockHash.Bytes(), *types.NewAddressByStr(s.Repo.Key.Address))
			if err != nil || !ok {
				return rOK(uint64(0))
			}
			return rOK(t.In.Hash(b.BlockHash))
		})
		o.HS = append(o.HS, ho)
	}
	o.XS = []R{}
	for _, x := range hashes {
		x := x
		o.XS = append(o.XS, guard(func() R {
			b, err := cl.GetBlockByHash(x, true)
			if err != nil {
				return rErr(err)
			}
			return rOK(t.block(b, true))
		}))
	}
	o.TS = []TObs{}
	for _, x := range txs {
		x := x
		var to TObs
		to.Tx = guard(func() R {
			tx, err := cl.GetTransaction(x)
			if err != nil {
				return rErr(err)
			}
			if bt, ok := tx.(*pb.BxhTransaction); ok {
				return rOK(t.In.Hash(bt.Hash()))
			}
			return rOK(t.In.Hash(tx.GetHash()))
		})
		to.Meta = guard(func() R {
			m, err := cl.GetTransactionMeta(x)
			if err != nil {
				return rErr(err)
			}
			return rOK([]uint64{m.BlockHeight, t.In.Bytes(m.BlockHash), m.Index})
		})
		to.RC = guard(func() R {
			r, err := cl.GetReceipt(x)
			if err != nil {
				return rErr(err)
			}
			return rOK(t.In.Hash(r.Hash()))
		})
		o.TS = append(o.TS, to)
	}
	return o
}

// ---------------------------------------------------------------- a sealed block

// Entry is what one persist is given, in interned form (for the Coq side)
type Entry struct {
	Op    int       `json:"op"`
	Hdr   [5]uint64 `json:"hdr"`
	Hash  uint64    `json:"hash"`
	Txs   []uint64  `json:"txs"`
	Rcpts []uint64  `json:"rcpts"`
	IC    []ICEntry `json:"ic"`
	Tag   uint64    `json:"tag"`
}

// Seal fills the header the way executor.processExecuteEvent does (roots, parent, state
// root, hash computed last); bad: 1 wrong block hash, 2 wrong tx root, 4 wrong receipt root.
func Seal(t *Tables, opIdx int, number uint64, parent, stateRoot *types.Hash, txIdx []int, nrc int,
	ic []ICEntry, tag uint64, bad int) (*pb.Block, []*pb.Receipt, *pb.InterchainMeta, Entry) {
	var txs []pb.Transaction
	var txh []*types.Hash
	for _, i := range txIdx {
		tx := Tx(i)
		txs = append(txs, tx)
		txh = append(txh, tx.GetHash())
	}
	if nrc < 0 {
		nrc = len(txs)
	}
	var rcs []*pb.Receipt
	var rch []*types.Hash
	for p := 0; p < nrc; p++ {
		var tx pb.Transaction = Tx(900000 + p)
		if p < len(txs) {
			tx = txs[p]
		}
		r := Receipt(tx, opIdx, p)
		rcs = append(rcs, r)
		rch = append(rch, r.Hash())
	}
	txRoot, rcRoot := ExecRoot(txh), ExecRoot(rch)
	if bad&2 != 0 {
		txRoot = MerkleRoot(append([]*types.Hash{sha("bad-tx-root", opIdx)}, txh...))
	}
	if bad&4 != 0 {
		rcRoot = MerkleRoot(append([]*types.Hash{sha("bad-rc-root", opIdx)}, rch...))
	}
	if parent == nil {
		parent = &types.Hash{}
	}
	blk := &pb.Block{
		BlockHeader: &pb.BlockHeader{Number: number, ParentHash: parent, StateRoot: stateRoot, TxRoot: txRoot,
			ReceiptRoot: rcRoot, Timestamp: int64(1700000000 + opIdx), Version: []byte("1.0.0")},
		Transactions: &pb.Transactions{Transactions: txs},
	}
	blk.BlockHash = blk.Hash()
	if bad&1 != 0 {
		blk.BlockHash = sha("bad-block-hash", opIdx)
	}
	im := InterchainMeta(ic, tag)
	e := Entry{Op: opIdx, Hdr: t.Header(blk.BlockHeader), Hash: t.In.Hash(blk.BlockHash), Txs: t.Root(txh), Rcpts: t.Root(rch), IC: ic, Tag: tag}
	if e.IC == nil {
		e.IC = []ICEntry{}
	}
	return blk, rcs, im, e
}

// ---------------------------------------------------------------- files

func CopyDir(src, dst string) error {
	return filepath.Walk(src, func(p string, info os.FileInfo, err error) error {
		if err != nil {
			return err
		}
		rel, _ := filepath.Rel(src, p)
		target := filepath.Join(dst, rel)
		if info.IsDir() {
			return os.MkdirAll(target, 0755)
		}
		if info.Name() == "LOCK" || info.Name() == "FLOCK" {
			return nil
		}
		data, err := os.ReadFile(p)
		if err != nil {
			return err
		}
		return os.WriteFile(target, data, 0644)
	})
}

// StateRootOf makes a distinguishable fake state root (chain-only mode)
func FakeRoot(tag string, i int) *types.Hash {
	return sha(tag, i)
}

func sha(tag string, i int) *types.Hash {
	d := sha256.Sum256([]byte(fmt.Sprintf("%s-%d", tag, i)))
	return types.NewHash(d[:])
}

var _ = big.NewInt
