package main

import (
	"fmt"

	"github.com/meshplus/bitxhub/internal/ledger"
	"github.com/meshplus/bitxhub/pkg/order/mempool"
)

func init() {
	drivers["probe"] = func(args []string) error {
		fmt.Println(ledger.ErrorRollbackToHigherNumber, mempool.DefaultPoolSize)
		return nil
	}
}
