#!/usr/bin/env python3
import json, jsonschema, glob, sys
m = json.load(open('/verif/MANIFEST.json'))
jsonschema.validate(m, json.load(open('/root/.vp/MANIFEST.schema.json')))
es = json.load(open('/root/.vp/EVIDENCE.schema.json'))
for c in m['checks']:
    try:
        jsonschema.validate(json.load(open('/verif/' + c['evidence_file'])), es)
    except Exception as e:
        print("EVIDENCE INVALID", c['property_id'], str(e)[:300])
print("validated", len(m['checks']), "checks")
