package main

// govconsts.go -> coq/gen/Gen_GovConsts.v   (property C15, governance voting)
//
// Tables of internal/executor/contracts/governance.go, role.go, proposal_strategy.go,
// internal/repo/config.go and bitxhub-core node-mgr that the governance model depends on:
// the proposal `priority` map, the special-proposal event / type lists, strategy type names,
// admin weights, the default strategy expression, proposal status / end-reason / ballot
// strings, and the role / node / strategy state machines with their pre-check maps and
// availability sets.  Own helpers (prefix gc) so that this file does not depend on the
// helpers of other generated tables.

import (
	"fmt"
	"go/ast"
	"go/token"
	"path/filepath"
	"strconv"
	"strings"
)

const gcLast = "$last"

func gcVarLit(files []*ast.File, name string) *ast.CompositeLit {
	var found *ast.CompositeLit
	for _, f := range files {
		for _, d := range f.Decls {
			gd, ok := d.(*ast.GenDecl)
			if !ok || gd.Tok != token.VAR {
				continue
			}
			for _, s := range gd.Specs {
				vs := s.(*ast.ValueSpec)
				for i, n := range vs.Names {
					if n.Name != name || i >= len(vs.Values) {
						continue
					}
					cl, ok := vs.Values[i].(*ast.CompositeLit)
					if !ok {
						fatalf("govconsts: %s is not a composite literal", name)
					}
					if found != nil {
						fatalf("govconsts: %s declared twice", name)
					}
					found = cl
				}
			}
		}
	}
	if found == nil {
		fatalf("govconsts: variable %s not found", name)
	}
	return found
}

// gcAliases resolves constants whose value is another constant (RoleMgr ProposalType = repo.RoleMgr).
func gcAliases(files []*ast.File, lc *consts) {
	for pass := 0; pass < 3; pass++ {
		for _, f := range files {
			for _, d := range f.Decls {
				gd, ok := d.(*ast.GenDecl)
				if !ok || gd.Tok != token.CONST {
					continue
				}
				for _, s := range gd.Specs {
					vs := s.(*ast.ValueSpec)
					for i, n := range vs.Names {
						if i >= len(vs.Values) {
							continue
						}
						var ref string
						switch v := vs.Values[i].(type) {
						case *ast.Ident:
							ref = v.Name
						case *ast.SelectorExpr:
							ref = v.Sel.Name
						default:
							continue
						}
						if sv, ok := lc.str[ref]; ok {
							if _, have := lc.str[n.Name]; !have || ref != n.Name {
								lc.str[n.Name] = sv
							}
						}
						if iv, ok := lc.num[ref]; ok {
							lc.num[n.Name] = iv
						}
					}
				}
			}
		}
	}
}

func gcStr(ev *strEval, x ast.Expr, what string) string {
	s, err := ev.eval(x)
	if err != nil {
		fatalf("govconsts: %s: %v", what, err)
	}
	return s
}

// map[K]int literal -> ordered (key, value)
func gcIntMap(files []*ast.File, name string, ev *strEval) [][2]string {
	var out [][2]string
	for _, el := range gcVarLit(files, name).Elts {
		kv, ok := el.(*ast.KeyValueExpr)
		if !ok {
			fatalf("govconsts: %s: element without key", name)
		}
		bl, ok := kv.Value.(*ast.BasicLit)
		if !ok || bl.Kind != token.INT {
			fatalf("govconsts: %s: non-literal value at %s", name, fset.Position(kv.Value.Pos()))
		}
		n, err := strconv.ParseInt(bl.Value, 0, 64)
		if err != nil || n < 0 {
			fatalf("govconsts: %s: bad value %s", name, bl.Value)
		}
		out = append(out, [2]string{gcStr(ev, kv.Key, name), fmt.Sprint(n)})
	}
	return out
}

// []T literal -> strings
func gcStrList(files []*ast.File, name string, ev *strEval) []string {
	var out []string
	for _, el := range gcVarLit(files, name).Elts {
		out = append(out, gcStr(ev, el, name))
	}
	return out
}

// map[K][]V literal -> ordered (key, values)
func gcListMap(files []*ast.File, name string, ev *strEval) []struct {
	k  string
	vs []string
} {
	var out []struct {
		k  string
		vs []string
	}
	for _, el := range gcVarLit(files, name).Elts {
		kv, ok := el.(*ast.KeyValueExpr)
		if !ok {
			fatalf("govconsts: %s: element without key", name)
		}
		cl, ok := kv.Value.(*ast.CompositeLit)
		if !ok {
			fatalf("govconsts: %s: value is not a list literal", name)
		}
		var vs []string
		for _, x := range cl.Elts {
			vs = append(vs, gcStr(ev, x, name))
		}
		out = append(out, struct {
			k  string
			vs []string
		}{gcStr(ev, kv.Key, name), vs})
	}
	return out
}

// map[K]struct{} literal -> keys
func gcKeySet(files []*ast.File, name string, ev *strEval) []string {
	var out []string
	for _, el := range gcVarLit(files, name).Elts {
		kv, ok := el.(*ast.KeyValueExpr)
		if !ok {
			fatalf("govconsts: %s: element without key", name)
		}
		out = append(out, gcStr(ev, kv.Key, name))
	}
	return out
}

func gcWriteListMap(v *vfile, name string, m []struct {
	k  string
	vs []string
}) {
	fmt.Fprintf(&v.b, "Definition %s : list (string * list string) :=\n  [", name)
	for i, e := range m {
		if i > 0 {
			v.b.WriteString(";\n   ")
		}
		fmt.Fprintf(&v.b, "(%s, %s)", gstr(e.k), glistStr(e.vs))
	}
	v.b.WriteString("].\n\n")
}

func gcNeedStr(lc *consts, name string) string {
	s, ok := lc.str[name]
	if !ok {
		fatalf("govconsts: string constant %s not found", name)
	}
	return s
}

func gcNeedNum(lc *consts, name string) int64 {
	n, ok := lc.num[name]
	if !ok {
		fatalf("govconsts: integer constant %s not found", name)
	}
	return n
}

func genConsts(coreDir string) {
	cdir := filepath.Join(*repo, "internal/executor/contracts")
	govF := []*ast.File{parseFile(filepath.Join(cdir, "governance.go"))}
	roleF := []*ast.File{parseFile(filepath.Join(cdir, "role.go"))}
	psF := []*ast.File{parseFile(filepath.Join(cdir, "proposal_strategy.go"))}
	cfgF := []*ast.File{parseFile(filepath.Join(*repo, "internal/repo/config.go"))}
	coreGov := parseDir(filepath.Join(coreDir, "governance"))
	nodeF := parseDir(filepath.Join(coreDir, "node-mgr"))

	lc := newConsts()
	lc.collect(coreGov)
	lc.collect(cfgF)
	lc.collect(govF)
	lc.collect(roleF)
	lc.collect(psF)
	all := append(append(append(append([]*ast.File{}, cfgF...), govF...), roleF...), psF...)
	gcAliases(all, lc)
	lc.str["lastStatus"] = gcLast
	ev := &strEval{local: lc, pbPrefix: map[string]bool{}}

	v := newV("Gen_GovConsts.v", "source: internal/executor/contracts/{governance,role,proposal_strategy}.go, internal/repo/config.go, bitxhub-core node-mgr + governance")

	// priority map and special lists (governance.go)
	v.b.WriteString("Definition gov_priority : list (string * N) :=\n  [")
	for i, kv := range gcIntMap(govF, "priority", ev) {
		if i > 0 {
			v.b.WriteString("; ")
		}
		fmt.Fprintf(&v.b, "(%s, %s)", gstr(kv[0]), kv[1])
	}
	v.b.WriteString("].\n\n")
	fmt.Fprintf(&v.b, "Definition gov_special_events : list string := %s.\n\n", glistStr(gcStrList(govF, "SpecialProposalEventType", ev)))
	fmt.Fprintf(&v.b, "Definition gov_special_types : list string := %s.\n\n", glistStr(gcStrList(govF, "SpecialProposalProposalType", ev)))

	// names
	for _, c := range [][2]string{
		{"gov_mod_role", "RoleMgr"}, {"gov_mod_node", "NodeMgr"}, {"gov_mod_strategy", "ProposalStrategyMgr"},
		{"gov_strategy_simple", "SimpleMajority"}, {"gov_strategy_zero", "ZeroPermission"},
		{"gov_default_expression", "DefaultSimpleMajorityExpression"},
		{"gov_status_proposed", "PROPOSED"}, {"gov_status_paused", "PAUSED"}, {"gov_status_approved", "APPROVED"}, {"gov_status_rejected", "REJECTED"},
		{"gov_ballot_approve", "BallotApprove"}, {"gov_ballot_reject", "BallotReject"},
		{"gov_reason_normal", "NormalReason"}, {"gov_reason_zero", "ZeroPermissionReason"}, {"gov_reason_withdrawn", "WithdrawnReason"},
		{"gov_reason_priority", "PriorityReason"}, {"gov_reason_electorate", "ElectorateReason"}, {"gov_reason_clear", "ClearReason"},
		{"gov_ev_register", "EventRegister"}, {"gov_ev_update", "EventUpdate"}, {"gov_ev_freeze", "EventFreeze"}, {"gov_ev_activate", "EventActivate"},
		{"gov_ev_logout", "EventLogout"}, {"gov_ev_approve", "EventApprove"}, {"gov_ev_reject", "EventReject"},
		{"gov_st_available", "GovernanceAvailable"}, {"gov_st_unavailable", "GovernanceUnavailable"}, {"gov_st_registering", "GovernanceRegisting"},
		{"gov_st_updating", "GovernanceUpdating"},
	} {
		fmt.Fprintf(&v.b, "Definition %s : string := %s.\n", c[0], gstr(gcNeedStr(lc, c[1])))
	}
	fmt.Fprintf(&v.b, "\nDefinition gov_super_weight : N := %d.\nDefinition gov_normal_weight : N := %d.\n\n", gcNeedNum(lc, "SuperAdminWeight"), gcNeedNum(lc, "NormalAdminWeight"))

	// the approve / reject statuses double as the event names passed to Manage
	if gcNeedStr(lc, "APPROVED") != gcNeedStr(lc, "EventApprove") || gcNeedStr(lc, "REJECTED") != gcNeedStr(lc, "EventReject") {
		fatalf("govconsts: proposal status names no longer equal the approve/reject event names")
	}

	// state machines
	writeEvents(v, "gov_role_fsm", fsmEventsOf(roleF, "setFSM", "Role", ev))
	writeEvents(v, "gov_node_fsm", fsmEventsOf(nodeF, "setFSM", "Node", ev))
	writeEvents(v, "gov_strategy_fsm", fsmEventsOf(psF, "setFSM", "ProposalStrategy", ev))
	fmt.Fprintf(&v.b, "Definition gov_last_marker : string := %s.\n\n", gstr(gcLast))
	gcWriteListMap(v, "gov_role_pre", gcListMap(roleF, "roleStateMap", ev))
	gcWriteListMap(v, "gov_node_pre", gcListMap(nodeF, "nodeStateMap", ev))
	gcWriteListMap(v, "gov_strategy_pre", gcListMap(psF, "strategyStateMap", ev))
	fmt.Fprintf(&v.b, "Definition gov_role_available : list string := %s.\n\n", glistStr(gcKeySet(roleF, "roleAvailableMap", ev)))

	// structural facts the model relies on: re-checked here so that a change is a broken tie
	src := nodeSrc(govF[0])
	for _, must := range []string{"func (g *Governance) ZeroPermission(", "func (g *Governance) UpdateAvailableElectorateNum(", "func (g *Governance) setVote(", "func (g *Governance) countVote("} {
		if !strings.Contains(src, must) {
			fatalf("govconsts: %q not found in governance.go", must)
		}
	}
	v.write()
}

func nodeSrc(f *ast.File) string {
	var sb strings.Builder
	for _, d := range f.Decls {
		if fd, ok := d.(*ast.FuncDecl); ok {
			if fd.Recv != nil && len(fd.Recv.List) == 1 {
				fmt.Fprintf(&sb, "func (g %s) %s(\n", exprString(fd.Recv.List[0].Type), fd.Name.Name)
			}
		}
	}
	return sb.String()
}
