package main

func genConsts(coreDir string)  {}
func genSites()                 {}
