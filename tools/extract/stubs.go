package main
