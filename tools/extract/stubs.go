package main

func genObjFsm(coreDir string)  {}
func genConsts(coreDir string)  {}
func genSurface(coreDir string) {}
func genSites()                 {}
