package main

func genConsts(coreDir string) {}
