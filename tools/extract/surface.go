package main

// surface.go -> coq/gen/Gen_Surface.v
//
// The dispatch surface of the bolt VM: boltvm.InvokeBVM resolves the callee contract object
// registered in executor.registerBoltContracts and calls reflect.Value.MethodByName(payload
// method) on it.  Every exported method in the method set of the registered pointer type is
// therefore callable by name from a plain transaction, INCLUDING the methods promoted from
// embedded fields (the boltvm.Stub interface; the bitxhub-core manager structs).
//
// For every registered contract: address constant, Go type, Enabled expression; for every
// exported method of its method set: where it comes from, parameter kinds as seen by
// boltvm.parseArgs/reflect.Call, number of results, whether the first result is
// *boltvm.Response, and - for methods with a body in the contracts package - the syntactic
// guard found at the top of the body.

import (
	"bytes"
	"crypto/sha256"
	"encoding/hex"
	"fmt"
	"go/ast"
	"go/printer"
	"go/token"
	"os"
	"path/filepath"
	"sort"
	"strconv"
	"strings"
)

func nodeHash(n ast.Node) string {
	var buf bytes.Buffer
	cfg := printer.Config{Mode: printer.RawFormat}
	if err := cfg.Fprint(&buf, token.NewFileSet(), n); err != nil {
		fatalf("print node: %v", err)
	}
	s := strings.Join(strings.Fields(buf.String()), " ")
	h := sha256.Sum256([]byte(s))
	return hex.EncodeToString(h[:8])
}

// ---------------------------------------------------------------------------------------
// package loading (syntactic)

type pkgInfo struct {
	path    string
	dir     string
	files   []*ast.File
	types   map[string]*ast.TypeSpec
	tfile   map[string]*ast.File         // file declaring the type (for import resolution)
	methods map[string][]*ast.FuncDecl   // receiver base type name -> methods
	mfile   map[*ast.FuncDecl]*ast.File
	funcs   map[string]*ast.FuncDecl     // package level functions
}

type loader struct {
	coreDir string
	pkgs    map[string]*pkgInfo
}

func (l *loader) dirOf(importPath string) string {
	const own = "github.com/meshplus/bitxhub/"
	const core = "github.com/meshplus/bitxhub-core/"
	switch {
	case strings.HasPrefix(importPath, own):
		return filepath.Join(*repo, strings.TrimPrefix(importPath, own))
	case strings.HasPrefix(importPath, core):
		return filepath.Join(l.coreDir, strings.TrimPrefix(importPath, core))
	}
	return ""
}

func (l *loader) load(importPath string) *pkgInfo {
	if p, ok := l.pkgs[importPath]; ok {
		return p
	}
	dir := l.dirOf(importPath)
	if dir == "" {
		fatalf("surface: embedded type from package %s: do not know where its source is", importPath)
	}
	p := &pkgInfo{path: importPath, dir: dir, types: map[string]*ast.TypeSpec{}, tfile: map[string]*ast.File{},
		methods: map[string][]*ast.FuncDecl{}, mfile: map[*ast.FuncDecl]*ast.File{}, funcs: map[string]*ast.FuncDecl{}}
	for _, f := range parseDir(dir) {
		if hasBuildTag(f, "verif") {
			continue // add-only harness hooks are not part of the product
		}
		p.files = append(p.files, f)
		for _, d := range f.Decls {
			switch x := d.(type) {
			case *ast.GenDecl:
				if x.Tok != token.TYPE {
					continue
				}
				for _, s := range x.Specs {
					ts := s.(*ast.TypeSpec)
					p.types[ts.Name.Name] = ts
					p.tfile[ts.Name.Name] = f
				}
			case *ast.FuncDecl:
				if x.Recv == nil {
					p.funcs[x.Name.Name] = x
					continue
				}
				if len(x.Recv.List) != 1 {
					fatalf("surface: odd receiver at %s", fset.Position(x.Pos()))
				}
				rt := x.Recv.List[0].Type
				if st, ok := rt.(*ast.StarExpr); ok {
					rt = st.X
				}
				id, ok := rt.(*ast.Ident)
				if !ok {
					fatalf("surface: unsupported receiver type at %s", fset.Position(x.Pos()))
				}
				p.methods[id.Name] = append(p.methods[id.Name], x)
				p.mfile[x] = f
			}
		}
	}
	l.pkgs[importPath] = p
	return p
}

func hasBuildTag(f *ast.File, tag string) bool {
	for _, cg := range f.Comments {
		if cg.Pos() > f.Package {
			break
		}
		for _, c := range cg.List {
			if strings.HasPrefix(c.Text, "//go:build") && strings.Contains(c.Text, tag) {
				return true
			}
		}
	}
	return false
}

func importPathOf(f *ast.File, alias string) string {
	for _, im := range f.Imports {
		p, _ := strconv.Unquote(im.Path.Value)
		name := ""
		if im.Name != nil {
			name = im.Name.Name
		} else {
			name = p[strings.LastIndex(p, "/")+1:]
			// directory names with '-' : the package name differs; the files here always alias them
		}
		if name == alias {
			return p
		}
	}
	return ""
}

// ---------------------------------------------------------------------------------------
// method sets

type methodInfo struct {
	Name    string
	Origin  string // "own" | "stub" (promoted from an embedded interface) | "core:<pkg>.<Type>" (promoted from an embedded struct)
	Depth   int
	Params  []string
	PNames  []string
	NRes    int
	Resp    bool
	Decl    *ast.FuncDecl // nil for interface methods
	DeclPkg *pkgInfo
	Guard   guardPat
}

func paramKind(t ast.Expr) string {
	switch s := exprString(t); s {
	case "string":
		return "string"
	case "[]byte":
		return "bytes"
	case "uint64":
		return "u64"
	case "int32":
		return "i32"
	case "int64":
		return "i64"
	case "bool":
		return "bool"
	case "float64":
		return "f64"
	case "interface{}":
		return "any"
	default:
		if strings.HasPrefix(s, "...") {
			return "variadic:" + strings.TrimPrefix(s, "...")
		}
		return "other:" + s
	}
}

func paramNames(ft *ast.FuncType) (names []string) {
	if ft.Params != nil {
		for _, fld := range ft.Params.List {
			if len(fld.Names) == 0 {
				names = append(names, "_")
			}
			for _, n := range fld.Names {
				names = append(names, n.Name)
			}
		}
	}
	return
}

func sigOf(ft *ast.FuncType, inBoltvmPkg bool) (params []string, nres int, resp bool) {
	if ft.Params != nil {
		for _, fld := range ft.Params.List {
			n := len(fld.Names)
			if n == 0 {
				n = 1
			}
			for i := 0; i < n; i++ {
				params = append(params, paramKind(fld.Type))
			}
		}
	}
	if ft.Results != nil {
		for i, fld := range ft.Results.List {
			n := len(fld.Names)
			if n == 0 {
				n = 1
			}
			nres += n
			if i == 0 {
				s := exprString(fld.Type)
				resp = s == "*boltvm.Response" || (inBoltvmPkg && s == "*Response")
			}
		}
	}
	return
}

// methodSet computes the exported methods of *T (declared in pkg) by the Go promotion rules:
// shallowest depth wins; two candidates at the same shallowest depth cancel each other.
func (l *loader) methodSet(pkg *pkgInfo, typeName string) []*methodInfo {
	type cand struct {
		m     *methodInfo
		count int
	}
	best := map[string]*cand{}
	add := func(m *methodInfo) {
		c, ok := best[m.Name]
		switch {
		case !ok || m.Depth < c.m.Depth:
			best[m.Name] = &cand{m: m, count: 1}
		case m.Depth == c.m.Depth:
			c.count++
		}
	}
	seen := map[string]bool{}
	var walk func(p *pkgInfo, tn string, depth int, origin string)
	walk = func(p *pkgInfo, tn string, depth int, origin string) {
		key := p.path + "." + tn
		if seen[key] {
			return
		}
		seen[key] = true
		ts, ok := p.types[tn]
		if !ok {
			fatalf("surface: type %s not found in %s", tn, p.path)
		}
		switch tt := ts.Type.(type) {
		case *ast.InterfaceType:
			org := origin
			if org == "" {
				fatalf("surface: registered contract %s is an interface", tn)
			}
			for _, fld := range tt.Methods.List {
				if len(fld.Names) == 0 {
					// embedded interface
					ep, en := l.resolveType(p, p.tfile[tn], fld.Type)
					walk(ep, en, depth, origin)
					continue
				}
				ft, ok := fld.Type.(*ast.FuncType)
				if !ok {
					fatalf("surface: interface %s: unsupported element", tn)
				}
				for _, n := range fld.Names {
					if !n.IsExported() {
						continue
					}
					ps, nr, rs := sigOf(ft, strings.HasSuffix(p.path, "/boltvm"))
					add(&methodInfo{Name: n.Name, Origin: origin, Depth: depth, Params: ps, PNames: paramNames(ft), NRes: nr, Resp: rs, DeclPkg: p})
				}
			}
		case *ast.StructType:
			for _, fd := range p.methods[tn] {
				if !fd.Name.IsExported() {
					continue
				}
				ps, nr, rs := sigOf(fd.Type, strings.HasSuffix(p.path, "/boltvm"))
				org := origin
				if org == "" {
					org = "own"
				}
				add(&methodInfo{Name: fd.Name.Name, Origin: org, Depth: depth, Params: ps, PNames: paramNames(fd.Type), NRes: nr, Resp: rs, Decl: fd, DeclPkg: p})
			}
			for _, fld := range tt.Fields.List {
				if len(fld.Names) != 0 {
					continue
				}
				ep, en := l.resolveType(p, p.tfile[tn], fld.Type)
				eo := "core:" + ep.path[strings.LastIndex(ep.path, "/")+1:] + "." + en
				if _, isIface := ep.types[en].Type.(*ast.InterfaceType); isIface {
					eo = "stub"
					if ep.path[strings.LastIndex(ep.path, "/")+1:]+"."+en != "boltvm.Stub" {
						eo = "iface:" + ep.path[strings.LastIndex(ep.path, "/")+1:] + "." + en
					}
				}
				walk(ep, en, depth+1, eo)
			}
		default:
			fatalf("surface: type %s.%s: unsupported kind of type", p.path, tn)
		}
	}
	walk(pkg, typeName, 0, "")
	var out []*methodInfo
	for _, c := range best {
		if c.count == 1 {
			out = append(out, c.m)
		}
	}
	sort.Slice(out, func(i, j int) bool { return out[i].Name < out[j].Name })
	return out
}

func (l *loader) resolveType(p *pkgInfo, f *ast.File, t ast.Expr) (*pkgInfo, string) {
	if st, ok := t.(*ast.StarExpr); ok {
		t = st.X
	}
	switch x := t.(type) {
	case *ast.Ident:
		return p, x.Name
	case *ast.SelectorExpr:
		alias := exprString(x.X)
		ip := importPathOf(f, alias)
		if ip == "" {
			fatalf("surface: cannot resolve package alias %s at %s", alias, fset.Position(t.Pos()))
		}
		ep := l.load(ip)
		if _, ok := ep.types[x.Sel.Name]; !ok {
			fatalf("surface: type %s not found in %s", x.Sel.Name, ip)
		}
		return ep, x.Sel.Name
	}
	fatalf("surface: unsupported embedded field type at %s", fset.Position(t.Pos()))
	return nil, ""
}

// ---------------------------------------------------------------------------------------
// guard patterns

// guardPat describes what stands between the entry of a method and its first effect:
//
//	Kind  none      no recognised caller check
//	      perm      if err := [x.]checkPermission(perms, target, regulator, specific); err != nil { return }
//	      callerIs  if e := x.checkCurrentCaller(); e != nil { return }   (helper compares CurrentCaller with the listed contract addresses)
//	      promoted  no body in the contracts package
//	Perms, Specific, Target, Regulator: arguments of checkPermission (Specific resolved to the constant.XxxContractAddr names)
//	Impl  which checkPermission implementation is used: "common" (package function) or the receiver type's own method
//	Via   helper methods through which the guard is reached (a call such as x.basicGovernance(id, reason, perms, event))
//	Pre   names of the functions called by the statements executed before the guard, in order, without repetition
//	Cmp   comparisons of CurrentCaller()/Caller() with an expression that guard a return, seen before the guard ("==roleId" ...)
type guardPat struct {
	Kind      string
	Perms     []string
	Specific  []string
	Target    string
	Regulator string
	Impl      string
	Via       []string
	Pre       []string
	Cmp       []string
}

var noiseCalls = map[string]bool{
	"Logger": true, "WithFields": true, "Info": true, "Infof": true, "Debug": true, "Debugf": true, "Warning": true, "Warnf": true, "Errorf": true,
	"Sprintf": true, "string": true, "Error": true, "Success": true, "Address": true, "String": true, "Marshal": true, "Errorf2": true,
	"EventType": true, "GovernanceStatus": true, "byte": true, "Fields": true, "len": true, "make": true, "append": true, "new": true,
	"BError": true, "Split": true, "Index": true, "uint64": true, "int": true, "int32": true, "RoleType": true, "ProposalType": true,
}

type guardCtx struct {
	l      *loader
	pkg    *pkgInfo
	recvT  string
	depth  int
	params map[string]ast.Expr // helper parameter name -> call-site argument (for substitution)
}

func calleeName(c *ast.CallExpr) (recv string, name string) {
	switch f := c.Fun.(type) {
	case *ast.Ident:
		return "", f.Name
	case *ast.SelectorExpr:
		return exprString(f.X), f.Sel.Name
	}
	return "", ""
}

func callsIn(n ast.Node) []string {
	var out []string
	ast.Inspect(n, func(x ast.Node) bool {
		if c, ok := x.(*ast.CallExpr); ok {
			_, nm := calleeName(c)
			if nm == "CrossInvoke" && len(c.Args) >= 2 {
				if bl, ok := c.Args[1].(*ast.BasicLit); ok && bl.Kind == token.STRING {
					lit, _ := strconv.Unquote(bl.Value)
					nm = "CrossInvoke:" + lit
				}
			}
			if nm != "" && !noiseCalls[nm] {
				out = append(out, nm)
			}
		}
		return true
	})
	return out
}

func endsWithReturn(b *ast.BlockStmt) bool {
	if b == nil || len(b.List) == 0 {
		return false
	}
	_, ok := b.List[len(b.List)-1].(*ast.ReturnStmt)
	return ok
}

func recvName(fd *ast.FuncDecl) string {
	if fd.Recv == nil || len(fd.Recv.List) != 1 || len(fd.Recv.List[0].Names) != 1 {
		return ""
	}
	return fd.Recv.List[0].Names[0].Name
}

func appendUniq(xs []string, ys ...string) []string {
	for _, y := range ys {
		dup := false
		for _, x := range xs {
			if x == y {
				dup = true
				break
			}
		}
		if !dup {
			xs = append(xs, y)
		}
	}
	return xs
}

// constant.XxxContractAddr.Address().String()  |  constant.XxxContractAddr.String()
func addrConstName(e ast.Expr) (string, bool) {
	c, ok := e.(*ast.CallExpr)
	if !ok {
		return "", false
	}
	sel, ok := c.Fun.(*ast.SelectorExpr)
	if !ok || sel.Sel.Name != "String" {
		return "", false
	}
	x := sel.X
	if c2, ok := x.(*ast.CallExpr); ok {
		s2, ok := c2.Fun.(*ast.SelectorExpr)
		if !ok || s2.Sel.Name != "Address" {
			return "", false
		}
		x = s2.X
	}
	s3, ok := x.(*ast.SelectorExpr)
	if !ok || exprString(s3.X) != "constant" {
		return "", false
	}
	return s3.Sel.Name, true
}

// resolveSpecific finds, among the statements before the guard, `data, err := json.Marshal(src)` and
// `src := []string{constant.A.Address().String(), ...}`.
func resolveSpecific(before []ast.Stmt, arg ast.Expr) []string {
	if id, ok := arg.(*ast.Ident); ok && id.Name == "nil" {
		return nil
	}
	id, ok := arg.(*ast.Ident)
	if !ok {
		fatalf("surface: checkPermission: unsupported specific-address argument at %s", fset.Position(arg.Pos()))
	}
	src := ""
	var inline *ast.CompositeLit
	for _, s := range before {
		as, ok := s.(*ast.AssignStmt)
		if !ok || len(as.Lhs) < 1 || len(as.Rhs) != 1 || exprString(as.Lhs[0]) != id.Name {
			continue
		}
		c, ok := as.Rhs[0].(*ast.CallExpr)
		if !ok {
			continue
		}
		if r, n := calleeName(c); r == "json" && n == "Marshal" && len(c.Args) == 1 {
			src = exprString(c.Args[0])
			inline, _ = c.Args[0].(*ast.CompositeLit) // json.Marshal([]string{constant.X.Address().String(), ...})
		}
	}
	if inline != nil {
		var out []string
		for _, el := range inline.Elts {
			n, ok := addrConstName(el)
			if !ok {
				fatalf("surface: specific addresses: element is not constant.X.Address().String() at %s", fset.Position(el.Pos()))
			}
			out = append(out, n)
		}
		return out
	}
	if src == "" {
		fatalf("surface: checkPermission: cannot find json.Marshal producing %s (at %s)", id.Name, fset.Position(arg.Pos()))
	}
	var out []string
	found := false
	for _, s := range before {
		as, ok := s.(*ast.AssignStmt)
		if !ok || len(as.Lhs) != 1 || len(as.Rhs) != 1 || exprString(as.Lhs[0]) != src {
			continue
		}
		cl, ok := as.Rhs[0].(*ast.CompositeLit)
		if !ok {
			fatalf("surface: %s is not a literal at %s", src, fset.Position(as.Pos()))
		}
		found = true
		out = nil
		for _, el := range cl.Elts {
			n, ok := addrConstName(el)
			if !ok {
				fatalf("surface: %s: element is not constant.X.Address().String() at %s", src, fset.Position(el.Pos()))
			}
			out = append(out, n)
		}
	}
	if !found {
		fatalf("surface: cannot find the literal assigned to %s (at %s)", src, fset.Position(arg.Pos()))
	}
	return out
}

func (g *guardCtx) permList(e ast.Expr) []string {
	if id, ok := e.(*ast.Ident); ok {
		if a, ok := g.params[id.Name]; ok {
			return (&guardCtx{l: g.l, pkg: g.pkg, recvT: g.recvT}).permList(a)
		}
		return []string{"param:" + id.Name}
	}
	cl, ok := e.(*ast.CompositeLit)
	if !ok {
		fatalf("surface: checkPermission: permissions argument is not a literal at %s", fset.Position(e.Pos()))
	}
	var out []string
	for _, el := range cl.Elts {
		c, ok := el.(*ast.CallExpr)
		if !ok || len(c.Args) != 1 || exprString(c.Fun) != "string" {
			fatalf("surface: checkPermission: unsupported permission element at %s", fset.Position(el.Pos()))
		}
		out = append(out, exprString(c.Args[0]))
	}
	return out
}

func (g *guardCtx) subst(e ast.Expr) string {
	if id, ok := e.(*ast.Ident); ok {
		if a, ok := g.params[id.Name]; ok {
			return renderExpr(a)
		}
	}
	return renderExpr(e)
}

func renderExpr(e ast.Expr) string {
	var buf bytes.Buffer
	_ = printer.Fprint(&buf, token.NewFileSet(), e)
	return strings.Join(strings.Fields(buf.String()), " ")
}

// callerCmp recognises  X.CurrentCaller() <op> E   /  E <op> X.Caller()
func callerCmp(cond ast.Expr) (string, bool) {
	be, ok := cond.(*ast.BinaryExpr)
	if !ok || (be.Op != token.EQL && be.Op != token.NEQ) {
		return "", false
	}
	isCaller := func(e ast.Expr) (string, bool) {
		c, ok := e.(*ast.CallExpr)
		if !ok || len(c.Args) != 0 {
			return "", false
		}
		_, n := calleeName(c)
		if n == "CurrentCaller" || n == "Caller" {
			return n, true
		}
		return "", false
	}
	if n, ok := isCaller(be.X); ok {
		other := renderExpr(be.Y)
		if a, ok := addrConstName(be.Y); ok {
			other = "@" + a
		}
		return n + be.Op.String() + other, true
	}
	if n, ok := isCaller(be.Y); ok {
		other := renderExpr(be.X)
		if a, ok := addrConstName(be.X); ok {
			other = "@" + a
		}
		return n + be.Op.String() + other, true
	}
	return "", false
}

// analyse walks the top-level statements of a body.
func (g *guardCtx) analyse(fd *ast.FuncDecl) guardPat {
	pat := guardPat{Kind: "none"}
	if fd.Body == nil {
		return pat
	}
	rn := recvName(fd)
	for i, st := range fd.Body.List {
		before := fd.Body.List[:i]
		// --- direct guard: if err := [x.]checkPermission(...); err != nil { return ... }
		if is, ok := st.(*ast.IfStmt); ok && is.Init != nil && endsWithReturn(is.Body) {
			if as, ok := is.Init.(*ast.AssignStmt); ok && len(as.Rhs) == 1 {
				if c, ok := as.Rhs[0].(*ast.CallExpr); ok {
					r, n := calleeName(c)
					if n == "checkPermission" {
						args := c.Args
						impl := g.recvT
						if r == "" {
							impl = "common"
							if len(args) != 5 {
								fatalf("surface: checkPermission(stub, ...) with %d args at %s", len(args), fset.Position(c.Pos()))
							}
							args = args[1:]
						} else if r != rn {
							fatalf("surface: checkPermission called on %s (receiver %s) at %s", r, rn, fset.Position(c.Pos()))
						}
						if len(args) != 4 {
							fatalf("surface: checkPermission with %d args at %s", len(args), fset.Position(c.Pos()))
						}
						pat.Kind = "perm"
						pat.Impl = impl
						pat.Perms = g.permList(args[0])
						pat.Target = g.subst(args[1])
						pat.Regulator = renderExpr(args[2])
						if _, rn2 := calleeName0(args[2]); rn2 != "" {
							pat.Regulator = rn2
						}
						pat.Specific = resolveSpecific(before, args[3])
						return pat
					}
					if n == "checkCurrentCaller" && r == rn && len(c.Args) == 0 {
						h := g.helper(n)
						if h == nil {
							fatalf("surface: helper %s.%s not found", g.recvT, n)
						}
						pat.Kind = "callerIs"
						pat.Impl = g.recvT
						set, shapeOK := callerIsSet(h)
						pat.Specific = set
						if !shapeOK {
							pat.Kind = "callerIs?"
						}
						return pat
					}
				}
			}
		}
		// --- inline admin check:
		//       a := x.Caller(); res := x.CrossInvoke(role, "IsAnyAvailableAdmin", pb.String(a), ...);
		//       [if !res.Ok { return }]; if string(res.Result) != TRUE { return }
		if as, ok := st.(*ast.AssignStmt); ok && len(as.Rhs) == 1 && len(as.Lhs) == 1 {
			if c, ok := as.Rhs[0].(*ast.CallExpr); ok {
				if r, n := calleeName(c); r == rn && n == "CrossInvoke" && len(c.Args) >= 3 {
					if bl, ok := c.Args[1].(*ast.BasicLit); ok && bl.Value == "\"IsAnyAvailableAdmin\"" {
						who := adminSubject(before, c.Args[2], rn)
						resVar := exprString(as.Lhs[0])
						if who != "" && adminResultChecked(fd.Body.List[i+1:], resVar) {
							pat.Kind = "callerAdmin"
							pat.Impl = g.recvT
							pat.Regulator = who
							pat.Perms = []string{"PermissionAdmin"}
							return pat
						}
					}
				}
			}
		}
		// --- ownership guard: if !x.authorised(name) { return ... }
		if is, ok := st.(*ast.IfStmt); ok && is.Init == nil && endsWithReturn(is.Body) {
			if ue, ok := is.Cond.(*ast.UnaryExpr); ok && ue.Op == token.NOT {
				if c, ok := ue.X.(*ast.CallExpr); ok {
					if r, n := calleeName(c); r == rn && n == "authorised" && len(c.Args) == 1 {
						if g.helper(n) == nil {
							fatalf("surface: helper %s.%s not found", g.recvT, n)
						}
						pat.Kind = "owner"
						pat.Impl = g.recvT
						pat.Target = g.subst(c.Args[0])
						return pat
					}
				}
			}
		}
		// --- comparison of the caller guarding a return
		if is, ok := st.(*ast.IfStmt); ok && is.Init == nil && endsWithReturn(is.Body) {
			if s, ok := callerCmp(is.Cond); ok {
				pat.Cmp = append(pat.Cmp, s)
				continue
			}
		}
		// --- delegation to an unexported helper of the same receiver that contains the guard
		if g.depth < 2 {
			var hit *ast.CallExpr
			var hdecl *ast.FuncDecl
			ast.Inspect(st, func(x ast.Node) bool {
				if hit != nil {
					return false
				}
				if c, ok := x.(*ast.CallExpr); ok {
					r, n := calleeName(c)
					if r == rn && n != "" && !ast.IsExported(n) && n != "checkPermission" {
						if h := g.helper(n); h != nil {
							sub := g.child(h, c)
							if sp := sub.analyse(h); sp.Kind != "none" {
								hit, hdecl = c, h
							}
						}
					}
				}
				return true
			})
			if hit != nil {
				// calls made by this statement *before* the helper call cannot be told apart syntactically;
				// the statement must be a plain `return x.h(..)`, `res := x.h(..)` or `if res := x.h(..); ..`
				if !plainCallStmt(st, hit) {
					fatalf("surface: %s.%s: helper %s with a guard is called from an unsupported statement at %s", g.recvT, fd.Name.Name, hdecl.Name.Name, fset.Position(st.Pos()))
				}
				sub := g.child(hdecl, hit)
				sp := sub.analyse(hdecl)
				sp.Via = append([]string{hdecl.Name.Name}, sp.Via...)
				sp.Pre = appendUniq(append([]string{}, pat.Pre...), sp.Pre...)
				sp.Cmp = append(append([]string{}, pat.Cmp...), sp.Cmp...)
				return sp
			}
		}
		pat.Pre = appendUniq(pat.Pre, callsIn(st)...)
	}
	// no guard found: the calls before "the guard" are of no interest
	return guardPat{Kind: "none", Cmp: pat.Cmp}
}

// adminSubject: the argument pb.String(v) where v := x.Caller() / x.CurrentCaller() earlier in the body
func adminSubject(before []ast.Stmt, arg ast.Expr, rn string) string {
	c, ok := arg.(*ast.CallExpr)
	if !ok || len(c.Args) != 1 {
		return ""
	}
	if r, n := calleeName(c); r != "pb" || n != "String" {
		return ""
	}
	if r, n := calleeName0(c.Args[0]); r == rn && (n == "Caller" || n == "CurrentCaller") {
		return n
	}
	id, ok := c.Args[0].(*ast.Ident)
	if !ok {
		return ""
	}
	who := ""
	for _, s := range before {
		as, ok := s.(*ast.AssignStmt)
		if !ok || len(as.Lhs) != 1 || len(as.Rhs) != 1 || exprString(as.Lhs[0]) != id.Name {
			continue
		}
		who = ""
		if r, n := calleeName0(as.Rhs[0]); r == rn && (n == "Caller" || n == "CurrentCaller") {
			who = n
		}
	}
	return who
}

// adminResultChecked: among the next two statements there is `if string(res.Result) != TRUE { ...return }`
func adminResultChecked(after []ast.Stmt, resVar string) bool {
	for k := 0; k < len(after) && k < 2; k++ {
		is, ok := after[k].(*ast.IfStmt)
		if !ok || !endsWithReturn(is.Body) {
			return false
		}
		be, ok := is.Cond.(*ast.BinaryExpr)
		if ok && be.Op == token.NEQ {
			l, r := renderExpr(be.X), renderExpr(be.Y)
			want := "string(" + resVar + ".Result)"
			if (l == want && r == "TRUE") || (r == want && l == "TRUE") {
				return true
			}
		}
		if c := renderExpr(is.Cond); c == "!"+resVar+".Ok || \"false\" == string("+resVar+".Result)" ||
			c == "!"+resVar+".Ok || FALSE == string("+resVar+".Result)" {
			return true
		}
		// otherwise it must be the `if !res.Ok { return }` check
		if renderExpr(is.Cond) != "!"+resVar+".Ok" {
			return false
		}
	}
	return false
}

func calleeName0(e ast.Expr) (string, string) {
	if c, ok := e.(*ast.CallExpr); ok && len(c.Args) == 0 {
		return calleeName(c)
	}
	return "", ""
}

func plainCallStmt(st ast.Stmt, c *ast.CallExpr) bool {
	switch s := st.(type) {
	case *ast.ReturnStmt:
		return len(s.Results) == 1 && s.Results[0] == ast.Expr(c)
	case *ast.AssignStmt:
		return len(s.Rhs) == 1 && s.Rhs[0] == ast.Expr(c)
	case *ast.ExprStmt:
		return s.X == ast.Expr(c)
	case *ast.IfStmt:
		if as, ok := s.Init.(*ast.AssignStmt); ok {
			return len(as.Rhs) == 1 && as.Rhs[0] == ast.Expr(c)
		}
	}
	return false
}

func (g *guardCtx) helper(name string) *ast.FuncDecl {
	for _, fd := range g.pkg.methods[g.recvT] {
		if fd.Name.Name == name {
			return fd
		}
	}
	return nil
}

func (g *guardCtx) child(h *ast.FuncDecl, call *ast.CallExpr) *guardCtx {
	ps := map[string]ast.Expr{}
	i := 0
	if h.Type.Params != nil {
		for _, fld := range h.Type.Params.List {
			for _, n := range fld.Names {
				if i < len(call.Args) {
					a := call.Args[i]
					if id, ok := a.(*ast.Ident); ok {
						if up, ok := g.params[id.Name]; ok {
							a = up
						}
					}
					ps[n.Name] = a
				}
				i++
			}
		}
	}
	return &guardCtx{l: g.l, pkg: g.pkg, recvT: g.recvT, depth: g.depth + 1, params: ps}
}

// callerIsSet: the helper must consist of `if t.CurrentCaller() != constant.X.Address().String() { return err }; return nil`.
// A helper of any other shape is not a fatal error of the translator: the methods that rely on it get the
// guard kind "callerIs?" - which the model does not classify, so that the obligation surface_classified
// fails by name - and the rest of the table is still produced, so that the search for a failing call can run.
func callerIsSet(h *ast.FuncDecl) ([]string, bool) {
	var out []string
	ok := true
	warn := func(f string, a ...interface{}) {
		ok = false
		fmt.Fprintf(os.Stderr, "extract: WARNING surface: "+f+"\n", a...)
	}
	if h.Body == nil {
		warn("%s: caller check helper without body", h.Name.Name)
		return nil, false
	}
	// every comparison of CurrentCaller with a contract address constant found anywhere in the helper
	ast.Inspect(h.Body, func(n ast.Node) bool {
		if be, isBin := n.(*ast.BinaryExpr); isBin {
			if s, isCmp := callerCmp(be); isCmp && strings.HasPrefix(s, "CurrentCaller!=@") {
				out = append(out, strings.TrimPrefix(s, "CurrentCaller!=@"))
			}
		}
		return true
	})
	if len(h.Body.List) != 2 {
		warn("%s: unrecognised shape of the caller check helper (%d statements)", h.Name.Name, len(h.Body.List))
		return out, false
	}
	is, isIf := h.Body.List[0].(*ast.IfStmt)
	if !isIf || !endsWithReturn(is.Body) {
		warn("%s: unrecognised shape of the caller check helper", h.Name.Name)
		return out, false
	}
	if s, isCmp := callerCmp(is.Cond); !isCmp || !strings.HasPrefix(s, "CurrentCaller!=@") {
		warn("%s: unrecognised comparison in the caller check helper (%s)", h.Name.Name, s)
	}
	rs, isRet := h.Body.List[1].(*ast.ReturnStmt)
	if !isRet || len(rs.Results) != 1 || exprString(rs.Results[0]) != "nil" {
		warn("%s: caller check helper does not end with return nil", h.Name.Name)
	}
	return out, ok
}

// ---------------------------------------------------------------------------------------
// registered contracts

type regContract struct {
	AddrConst string
	TypeName  string
	Enabled   string
	Name      string
	Inits     [][2]string // fields the registered object is created with: (field, expression); constructor arguments as ("#i", expression)
}

func registeredContracts(cpkg *pkgInfo) []regContract {
	f := parseFile(filepath.Join(*repo, "internal/executor/executor.go"))
	var fn *ast.FuncDecl
	for _, d := range f.Decls {
		if fd, ok := d.(*ast.FuncDecl); ok && fd.Name.Name == "registerBoltContracts" {
			fn = fd
		}
	}
	if fn == nil {
		fatalf("surface: registerBoltContracts not found")
	}
	var lit *ast.CompositeLit
	ast.Inspect(fn, func(n ast.Node) bool {
		if cl, ok := n.(*ast.CompositeLit); ok && exprString(cl.Type) == "[]*boltvm.BoltContract" {
			if lit != nil {
				fatalf("surface: registerBoltContracts: more than one contract list literal")
			}
			lit = cl
			return false
		}
		return true
	})
	if lit == nil {
		fatalf("surface: registerBoltContracts: contract list literal not found")
	}
	// any other append to the list must be the agency.GetRegisteredContractInfo() loop
	extra := 0
	ast.Inspect(fn, func(n ast.Node) bool {
		if c, ok := n.(*ast.CallExpr); ok {
			if _, nm := calleeName(c); nm == "append" {
				extra++
			}
		}
		return true
	})
	if extra != 1 {
		fatalf("surface: registerBoltContracts: expected exactly one append (registered constructors), found %d", extra)
	}
	var out []regContract
	for _, el := range lit.Elts {
		cl, ok := el.(*ast.CompositeLit)
		if !ok {
			fatalf("surface: contract list: unexpected element at %s", fset.Position(el.Pos()))
		}
		var rc regContract
		for _, kv0 := range cl.Elts {
			kv, ok := kv0.(*ast.KeyValueExpr)
			if !ok {
				fatalf("surface: contract list: positional fields at %s", fset.Position(kv0.Pos()))
			}
			switch exprString(kv.Key) {
			case "Enabled":
				rc.Enabled = renderExpr(kv.Value)
			case "Name":
				rc.Name, _ = strconv.Unquote(renderExpr(kv.Value))
			case "Address":
				n, ok := addrConstName(kv.Value)
				if !ok {
					fatalf("surface: contract list: Address is not constant.X.Address().String() at %s", fset.Position(kv.Value.Pos()))
				}
				rc.AddrConst = n
			case "Contract":
				switch v := kv.Value.(type) {
				case *ast.UnaryExpr: // &contracts.T{}
					c2, ok := v.X.(*ast.CompositeLit)
					if !ok || v.Op != token.AND {
						fatalf("surface: contract list: unsupported Contract value at %s", fset.Position(v.Pos()))
					}
					// a registered object created with fields set is recorded, not refused: the table says so
					// (Model/Surface.registered_plain_b fails by name) and the search still runs
					for k, e0 := range c2.Elts {
						if kv2, ok := e0.(*ast.KeyValueExpr); ok {
							rc.Inits = append(rc.Inits, [2]string{exprString(kv2.Key), renderExpr(kv2.Value)})
						} else {
							rc.Inits = append(rc.Inits, [2]string{fmt.Sprintf("#%d", k), renderExpr(e0)})
						}
					}
					if len(rc.Inits) > 0 {
						fmt.Fprintf(os.Stderr, "extract: surface: warning: registered contract object created with fields set at %s\n", fset.Position(v.Pos()))
					}
					sel, ok := c2.Type.(*ast.SelectorExpr)
					if !ok || exprString(sel.X) != "contracts" {
						fatalf("surface: contract list: contract type outside package contracts at %s", fset.Position(v.Pos()))
					}
					rc.TypeName = sel.Sel.Name
				case *ast.CallExpr: // contracts.NewT(...)
					r, n := calleeName(v)
					ctor, ok := cpkg.funcs[n]
					if r != "contracts" || !ok || ctor.Type.Results == nil || len(ctor.Type.Results.List) != 1 {
						fatalf("surface: contract list: unsupported constructor at %s", fset.Position(v.Pos()))
					}
					rt := exprString(ctor.Type.Results.List[0].Type)
					if !strings.HasPrefix(rt, "*") {
						fatalf("surface: constructor %s does not return a pointer", n)
					}
					rc.TypeName = strings.TrimPrefix(rt, "*")
				default:
					fatalf("surface: contract list: unsupported Contract value at %s", fset.Position(kv.Value.Pos()))
				}
			default:
				fatalf("surface: contract list: unknown field %s", exprString(kv.Key))
			}
		}
		if rc.AddrConst == "" || rc.TypeName == "" || rc.Enabled == "" {
			fatalf("surface: contract list: incomplete entry at %s", fset.Position(cl.Pos()))
		}
		out = append(out, rc)
	}
	return out
}

// ---------------------------------------------------------------------------------------

func genSurface(coreDir string) {
	l := &loader{coreDir: coreDir, pkgs: map[string]*pkgInfo{}}
	cpkg := l.load("github.com/meshplus/bitxhub/internal/executor/contracts")
	regs := registeredContracts(cpkg)

	v := newV("Gen_Surface.v", "source: internal/executor/executor.go registerBoltContracts; method sets of the registered contract types "+
		"(internal/executor/contracts/*.go, embedded bitxhub-core boltvm.Stub and manager structs); first-guard patterns of the method bodies")

	v.b.WriteString("(* (address constant, Go type, Enabled expression) *)\n")
	v.b.WriteString("Definition contracts : list (string * string * string) :=\n  [")
	for i, r := range regs {
		if i > 0 {
			v.b.WriteString(";\n   ")
		}
		fmt.Fprintf(&v.b, "(%s, %s, %s)", gstr(r.AddrConst), gstr(r.TypeName), gstr(r.Enabled))
	}
	v.b.WriteString("].\n\n")

	v.b.WriteString("(* fields the registered (process-wide) contract objects are created with: (Go type, [(field, expression)]) *)\n")
	v.b.WriteString("Definition contract_inits : list (string * list (string * string)) :=\n  [")
	for i, r := range regs {
		if i > 0 {
			v.b.WriteString(";\n   ")
		}
		fmt.Fprintf(&v.b, "(%s, [", gstr(r.TypeName))
		for k, kv := range r.Inits {
			if k > 0 {
				v.b.WriteString("; ")
			}
			fmt.Fprintf(&v.b, "(%s, %s)", gstr(kv[0]), gstr(kv[1]))
		}
		v.b.WriteString("])")
	}
	v.b.WriteString("].\n\n")

	v.b.WriteString("(* guard = (kind, impl, perms, specific, target, regulator, via, pre, cmp) *)\n")
	v.b.WriteString("Definition guard_t : Type := (string * string * list string * list string * string * string * list string * list string * list string)%type.\n")
	v.b.WriteString("(* method = (contract type, method, origin, parameter kinds, number of results, first result is *boltvm.Response, guard) *)\n")
	v.b.WriteString("Definition method_t : Type := (string * string * string * list string * N * bool * guard_t)%type.\n\n")
	v.b.WriteString("Definition surface : list method_t :=\n  [")
	first := true
	implHashes := map[string]string{}
	for _, r := range regs {
		ms := l.methodSet(cpkg, r.TypeName)
		for _, m := range ms {
			g := guardPat{Kind: "promoted"}
			if m.Origin == "own" {
				gc := &guardCtx{l: l, pkg: cpkg, recvT: r.TypeName}
				g = gc.analyse(m.Decl)
				if g.Kind == "perm" {
					var impl *ast.FuncDecl
					if g.Impl == "common" {
						impl = cpkg.funcs["checkPermission"]
					} else {
						impl = gc.helper("checkPermission")
					}
					if impl == nil {
						fatalf("surface: checkPermission implementation %s not found", g.Impl)
					}
					implHashes[g.Impl+".checkPermission"] = nodeHash(impl)
				}
				if g.Kind == "callerIs" {
					implHashes[g.Impl+".checkCurrentCaller"] = nodeHash(gc.helper("checkCurrentCaller"))
				}
				if g.Kind == "owner" {
					implHashes[g.Impl+".authorised"] = nodeHash(gc.helper("authorised"))
				}
			}
			if !first {
				v.b.WriteString(";\n   ")
			}
			first = false
			resp := "false"
			if m.Resp {
				resp = "true"
			}
			fmt.Fprintf(&v.b, "(%s, %s, %s, %s, %d, %s,\n      (%s, %s, %s, %s, %s, %s, %s, %s, %s))",
				gstr(r.TypeName), gstr(m.Name), gstr(m.Origin), glistStr(m.Params), m.NRes, resp,
				gstr(g.Kind), gstr(g.Impl), glistStr(g.Perms), glistStr(g.Specific), gstr(g.Target), gstr(g.Regulator),
				glistStr(g.Via), glistStr(g.Pre), glistStr(g.Cmp))
		}
	}
	v.b.WriteString("].\n\n")

	v.b.WriteString("(* parameter names (used by the argument generator of checks/C17.py only) *)\n")
	v.b.WriteString("Definition surface_param_names : list (string * string * list string) :=\n  [")
	first = true
	for _, r := range regs {
		for _, m := range l.methodSet(cpkg, r.TypeName) {
			if !first {
				v.b.WriteString(";\n   ")
			}
			first = false
			fmt.Fprintf(&v.b, "(%s, %s, %s)", gstr(r.TypeName), gstr(m.Name), glistStr(m.PNames))
		}
	}
	v.b.WriteString("].\n\n")

	// the dispatcher itself: a hash of InvokeBVM / parseArgs / Run (code, modelled by hand in Model/Surface.v)
	bf := parseFile(filepath.Join(*repo, "pkg/vm/boltvm/boltvm.go"))
	for _, d := range bf.Decls {
		if fd, ok := d.(*ast.FuncDecl); ok {
			switch fd.Name.Name {
			case "InvokeBVM", "parseArgs", "Run":
				implHashes["boltvm."+fd.Name.Name] = nodeHash(fd)
			}
		}
	}
	keys := make([]string, 0, len(implHashes))
	for k := range implHashes {
		keys = append(keys, k)
	}
	sort.Strings(keys)
	v.b.WriteString("(* sha256 prefixes of the guard implementations and of the dispatcher (code, not table) *)\n")
	v.b.WriteString("Definition guard_impl_hashes : list (string * string) :=\n  [")
	for i, k := range keys {
		if i > 0 {
			v.b.WriteString(";\n   ")
		}
		fmt.Fprintf(&v.b, "(%s, %s)", gstr(k), gstr(implHashes[k]))
	}
	v.b.WriteString("].\n")
	v.write()
}
