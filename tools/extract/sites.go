package main

// Site inventories for the execution-frame properties (C03 C07 C08 C14):
//
//	gas constants of handle.go,
//	adds      every non-journaled write call xfSite (Stub.Add / Stub.AddObject in the built-in
//	          contracts, Ledger.AddState in the executor),
//	panics    every `panic(` call and every `go` statement in the files anchored by C08,
//	recovers  every function that installs a deferred recover(),
//	stub_methods / contract_types   the embedded boltvm.Stub interface and who embeds it
//	          (=> which methods are promoted into every contract's reflective method set),
//	process_entries   exported contract methods from which InterchainManager.ProcessIBTP is
//	          reachable in the intra-package call graph (CrossInvoke string literals included).
//
// A xfSite is identified position-independently: (file, enclosing function, kind, ordinal of the
// xfSite among the sites of that kind inside the function) plus a hash of the function's source
// printed without comments.

import (
	"bytes"
	"crypto/sha256"
	"encoding/hex"
	"fmt"
	"go/ast"
	"go/printer"
	"go/token"
	"path/filepath"
	"sort"
	"strings"
)

type xfSite struct {
	file, fn, kind string
	ord            int
	failAfter      bool // a `return` of an error value follows the xfSite lexically inside the function
	hash           string
}

func xfFuncName(fd *ast.FuncDecl) string {
	if fd.Recv != nil && len(fd.Recv.List) == 1 {
		return strings.TrimPrefix(exprString(fd.Recv.List[0].Type), "*") + "." + fd.Name.Name
	}
	return fd.Name.Name
}

func xfRecvIdent(fd *ast.FuncDecl) string {
	if fd.Recv != nil && len(fd.Recv.List) == 1 && len(fd.Recv.List[0].Names) == 1 {
		return fd.Recv.List[0].Names[0].Name
	}
	return ""
}

func xfFuncHash(fd *ast.FuncDecl) string {
	cp := *fd
	cp.Doc = nil
	var buf bytes.Buffer
	// printing the node alone drops all comments (they live in the file's comment list)
	if err := printer.Fprint(&buf, token.NewFileSet(), &cp); err != nil {
		fatalf("print %s: %v", fd.Name.Name, err)
	}
	h := sha256.Sum256(buf.Bytes())
	return hex.EncodeToString(h[:6])
}

// xfReturnsErrorAfter reports whether, lexically after pos inside fd, there is a return statement
// that yields a failure: boltvm.Error(...), boltvm.BError, a non-nil `err`, fmt.Errorf(...).
func xfReturnsErrorAfter(fd *ast.FuncDecl, pos token.Pos) bool {
	found := false
	ast.Inspect(fd.Body, func(n ast.Node) bool {
		rs, ok := n.(*ast.ReturnStmt)
		if !ok || rs.Pos() <= pos {
			return true
		}
		for _, r := range rs.Results {
			switch v := r.(type) {
			case *ast.CallExpr:
				s := exprString(v.Fun)
				if strings.HasSuffix(s, ".Error") || strings.HasSuffix(s, ".BError") || strings.HasSuffix(s, ".Errorf") || s == "errors.New" {
					found = true
				}
			case *ast.Ident:
				if v.Name == "err" || v.Name == "bxhErr" || v.Name == "bvmErr" {
					found = true
				}
			}
		}
		return true
	})
	return found
}

func xfWriteSites(v *vfile, name string, ss []xfSite) {
	fmt.Fprintf(&v.b, "(* (file, function, kind, ordinal within the function, failure return follows lexically, function hash) *)\n")
	fmt.Fprintf(&v.b, "Definition %s : list (string * string * string * N * bool * string) :=\n  [", name)
	for i, s := range ss {
		if i > 0 {
			v.b.WriteString(";\n   ")
		}
		b := "false"
		if s.failAfter {
			b = "true"
		}
		fmt.Fprintf(&v.b, "(%s, %s, %s, %d, %s, %s)", gstr(s.file), gstr(s.fn), gstr(s.kind), s.ord, b, gstr(s.hash))
	}
	v.b.WriteString("].\n\n")
}

func xfEachFunc(files map[string]*ast.File, f func(file string, fd *ast.FuncDecl)) {
	var names []string
	for n := range files {
		names = append(names, n)
	}
	sort.Strings(names)
	for _, n := range names {
		for _, d := range files[n].Decls {
			if fd, ok := d.(*ast.FuncDecl); ok && fd.Body != nil {
				f(n, fd)
			}
		}
	}
}

func xfParseNamed(rel ...string) map[string]*ast.File {
	out := map[string]*ast.File{}
	for _, r := range rel {
		out[r] = parseFile(filepath.Join(*repo, r))
	}
	return out
}

func xfParseDirNamed(rel string) map[string]*ast.File {
	out := map[string]*ast.File{}
	dir := filepath.Join(*repo, rel)
	matches, err := filepath.Glob(filepath.Join(dir, "*.go"))
	if err != nil {
		fatalf("%v", err)
	}
	for _, m := range matches {
		if strings.HasSuffix(m, "_test.go") || strings.HasPrefix(filepath.Base(m), "zz_verif") {
			continue
		}
		out[rel+"/"+filepath.Base(m)] = parseFile(m)
	}
	return out
}

func genSites() {
	v := newV("Gen_Sites.v", "sources: internal/executor/{handle,executor}.go, internal/executor/contracts/*.go, pkg/vm/boltvm/*.go, pkg/proof/proof_pool.go, pkg/vm/wasm/wasm.go, bitxhub-core boltvm/stub.go")

	// ---- gas constants --------------------------------------------------------------
	hf := parseFile(filepath.Join(*repo, "internal/executor/handle.go"))
	gc := newConsts()
	gasExprs := map[string]int64{}
	gc.collect([]*ast.File{hf})
	for _, d := range hf.Decls {
		gd, ok := d.(*ast.GenDecl)
		if !ok || gd.Tok != token.CONST {
			continue
		}
		for _, s := range gd.Specs {
			vs := s.(*ast.ValueSpec)
			for i, n := range vs.Names {
				if i >= len(vs.Values) || !strings.HasPrefix(n.Name, "Gas") {
					continue
				}
				val, ok := xfConstInt(vs.Values[i])
				if !ok {
					fatalf("gas constant %s: unsupported expression at %s", n.Name, fset.Position(vs.Values[i].Pos()))
				}
				gasExprs[n.Name] = val
			}
		}
	}
	for _, n := range []string{"GasNormalTx", "GasFailedTx", "GasBVMTx"} {
		val, ok := gasExprs[n]
		if !ok {
			fatalf("gas constant %s not found in handle.go", n)
		}
		fmt.Fprintf(&v.b, "Definition %s : N := %d.\n", map[string]string{"GasNormalTx": "gas_normal_tx", "GasFailedTx": "gas_failed_tx", "GasBVMTx": "gas_bvm_tx"}[n], val)
	}
	v.b.WriteString("\n")

	// ---- non-journaled writes ---------------------------------------------------------
	contracts := xfParseDirNamed("internal/executor/contracts")
	var adds []xfSite
	xfEachFunc(contracts, func(file string, fd *ast.FuncDecl) {
		rv := xfRecvIdent(fd)
		cnt := map[string]int{}
		ast.Inspect(fd.Body, func(n ast.Node) bool {
			call, ok := n.(*ast.CallExpr)
			if !ok {
				return true
			}
			sel, ok := call.Fun.(*ast.SelectorExpr)
			if !ok || (sel.Sel.Name != "Add" && sel.Sel.Name != "AddObject") {
				return true
			}
			x := exprString(sel.X)
			// receiver of the enclosing method (a contract embedding boltvm.Stub), its Stub field, or a stub parameter
			if !(x == rv && rv != "") && !strings.HasSuffix(x, ".Stub") && x != "stub" {
				return true
			}
			k := sel.Sel.Name
			adds = append(adds, xfSite{file: file, fn: xfFuncName(fd), kind: k, ord: cnt[k], failAfter: xfReturnsErrorAfter(fd, call.Pos()), hash: xfFuncHash(fd)})
			cnt[k]++
			return true
		})
	})
	execFiles := xfParseNamed("internal/executor/handle.go", "internal/executor/executor.go", "internal/executor/serial_executor.go")
	xfEachFunc(execFiles, func(file string, fd *ast.FuncDecl) {
		cnt := 0
		ast.Inspect(fd.Body, func(n ast.Node) bool {
			call, ok := n.(*ast.CallExpr)
			if !ok {
				return true
			}
			if sel, ok := call.Fun.(*ast.SelectorExpr); ok && sel.Sel.Name == "AddState" {
				adds = append(adds, xfSite{file: file, fn: xfFuncName(fd), kind: "AddState", ord: cnt, failAfter: xfReturnsErrorAfter(fd, call.Pos()), hash: xfFuncHash(fd)})
				cnt++
			}
			return true
		})
	})
	xfWriteSites(v, "adds", adds)

	// ---- panic( / go sites / recover ----------------------------------------------------
	anch := xfParseNamed("internal/executor/handle.go", "internal/executor/executor.go", "internal/executor/serial_executor.go",
		"pkg/vm/boltvm/boltvm.go", "pkg/vm/boltvm/bolt_stub.go", "pkg/vm/boltvm/register.go",
		"pkg/proof/proof_pool.go", "internal/executor/contracts/interchain.go", "internal/executor/contracts/transaction_manager.go",
		"internal/executor/contracts/governance.go", "pkg/vm/wasm/wasm.go")
	var panics []xfSite
	var recovers [][2]string
	xfEachFunc(anch, func(file string, fd *ast.FuncDecl) {
		cnt := map[string]int{}
		hasRecover := false
		// single-value type assertions (x.(T) panics on mismatch); the comma-ok forms are excluded
		okForm := map[ast.Node]bool{}
		ast.Inspect(fd.Body, func(n ast.Node) bool {
			if as, ok := n.(*ast.AssignStmt); ok && len(as.Lhs) == 2 && len(as.Rhs) == 1 {
				okForm[as.Rhs[0]] = true
			}
			if vs, ok := n.(*ast.ValueSpec); ok && len(vs.Names) == 2 && len(vs.Values) == 1 {
				okForm[vs.Values[0]] = true
			}
			return true
		})
		ast.Inspect(fd.Body, func(n ast.Node) bool {
			switch x := n.(type) {
			case *ast.TypeAssertExpr:
				if x.Type != nil && !okForm[x] && (strings.HasPrefix(file, "internal/executor/") && !strings.Contains(file, "/contracts/") || strings.HasSuffix(file, "boltvm.go")) {
					panics = append(panics, xfSite{file: file, fn: xfFuncName(fd), kind: "assert", ord: cnt["assert"], hash: xfFuncHash(fd)})
					cnt["assert"]++
				}
			case *ast.CallExpr:
				if id, ok := x.Fun.(*ast.Ident); ok {
					if id.Name == "panic" {
						panics = append(panics, xfSite{file: file, fn: xfFuncName(fd), kind: "panic", ord: cnt["panic"], hash: xfFuncHash(fd)})
						cnt["panic"]++
					}
					if id.Name == "recover" {
						hasRecover = true
					}
				}
			case *ast.GoStmt:
				panics = append(panics, xfSite{file: file, fn: xfFuncName(fd), kind: "go", ord: cnt["go"], hash: xfFuncHash(fd)})
				cnt["go"]++
			}
			return true
		})
		if hasRecover {
			recovers = append(recovers, [2]string{file, xfFuncName(fd)})
		}
	})
	// failAfter is meaningless for these; the flag position carries "inside a function with a deferred recover"
	rec := map[string]bool{}
	for _, r := range recovers {
		rec[r[0]+"|"+r[1]] = true
	}
	for i := range panics {
		panics[i].failAfter = rec[panics[i].file+"|"+panics[i].fn]
	}
	v.b.WriteString("(* for panics the boolean means: the enclosing function itself installs a deferred recover() *)\n")
	xfWriteSites(v, "panics", panics)
	fmt.Fprintf(&v.b, "Definition recovers : list (string * string) :=\n  [")
	for i, r := range recovers {
		if i > 0 {
			v.b.WriteString("; ")
		}
		fmt.Fprintf(&v.b, "(%s, %s)", gstr(r[0]), gstr(r[1]))
	}
	v.b.WriteString("].\n\n")

	// ---- what the undo closures call --------------------------------------------------------------
	// stateChanger.revert runs every change's revert() while holding the changer's (non re-entrant)
	// lock: a revert method must only use the non-journaling setters.  Inventory: per change type the
	// selector calls of its revert method, in source order.
	scf := parseFile(filepath.Join(*repo, "internal/ledger/state_changer.go"))
	type rv struct {
		typ   string
		calls []string
	}
	var rvs []rv
	for _, d := range scf.Decls {
		fd, ok := d.(*ast.FuncDecl)
		if !ok || fd.Body == nil || fd.Name.Name != "revert" || fd.Recv == nil || len(fd.Recv.List) != 1 {
			continue
		}
		t := strings.TrimPrefix(exprString(fd.Recv.List[0].Type), "*")
		if t == "stateChanger" {
			continue
		}
		var calls []string
		ast.Inspect(fd.Body, func(n ast.Node) bool {
			if call, ok := n.(*ast.CallExpr); ok {
				switch f := call.Fun.(type) {
				case *ast.SelectorExpr:
					calls = append(calls, f.Sel.Name)
				case *ast.Ident:
					calls = append(calls, f.Name)
				}
			}
			return true
		})
		rvs = append(rvs, rv{t, calls})
	}
	if len(rvs) == 0 {
		fatalf("no revert methods found in internal/ledger/state_changer.go")
	}
	sort.Slice(rvs, func(i, j int) bool { return rvs[i].typ < rvs[j].typ })
	fmt.Fprintf(&v.b, "(* (change type of internal/ledger/state_changer.go, functions and methods its revert() calls) *)\n")
	fmt.Fprintf(&v.b, "Definition revert_calls : list (string * list string) :=\n  [")
	for i, r := range rvs {
		if i > 0 {
			v.b.WriteString(";\n   ")
		}
		fmt.Fprintf(&v.b, "(%s, %s)", gstr(r.typ), glistStr(r.calls))
	}
	v.b.WriteString("].\n\n")

	// ---- the embedded Stub interface and the contract types that embed it ---------------------
	coreDir := moduleDir("github.com/meshplus/bitxhub-core")
	sf := parseFile(filepath.Join(coreDir, "boltvm", "stub.go"))
	var stubMethods []string
	stubSigs := map[string][]string{}
	stubRets := map[string]bool{}
	for _, d := range sf.Decls {
		gd, ok := d.(*ast.GenDecl)
		if !ok {
			continue
		}
		for _, s := range gd.Specs {
			ts, ok := s.(*ast.TypeSpec)
			if !ok || ts.Name.Name != "Stub" {
				continue
			}
			it, ok := ts.Type.(*ast.InterfaceType)
			if !ok {
				fatalf("boltvm.Stub is not an interface")
			}
			for _, m := range it.Methods.List {
				ft, ok := m.Type.(*ast.FuncType)
				if !ok || len(m.Names) != 1 {
					fatalf("boltvm.Stub: embedded interface or unnamed method at %s", fset.Position(m.Pos()))
				}
				stubMethods = append(stubMethods, m.Names[0].Name)
				stubSigs[m.Names[0].Name] = xfParamTypes(ft)
				stubRets[m.Names[0].Name] = xfReturnsResponse(ft)
			}
		}
	}
	if len(stubMethods) == 0 {
		fatalf("boltvm.Stub interface not found")
	}
	sort.Strings(stubMethods)
	fmt.Fprintf(&v.b, "(* (method of the embedded boltvm.Stub interface, parameter types, single result is *Response) *)\n")
	fmt.Fprintf(&v.b, "Definition stub_methods : list (string * list string * bool) :=\n  [")
	for i, m := range stubMethods {
		if i > 0 {
			v.b.WriteString(";\n   ")
		}
		fmt.Fprintf(&v.b, "(%s, %s, %s)", gstr(m), glistStr(stubSigs[m]), xfBool(stubRets[m]))
	}
	v.b.WriteString("].\n\n")

	// contract types: structs of the contracts package whose first field is the embedded boltvm.Stub
	type ctype struct {
		name string
		own  map[string]*ast.FuncDecl
	}
	ctypes := map[string]*ctype{}
	for _, f := range contracts {
		for _, d := range f.Decls {
			gd, ok := d.(*ast.GenDecl)
			if !ok {
				continue
			}
			for _, s := range gd.Specs {
				ts, ok := s.(*ast.TypeSpec)
				if !ok {
					continue
				}
				st, ok := ts.Type.(*ast.StructType)
				if !ok || len(st.Fields.List) == 0 {
					continue
				}
				f0 := st.Fields.List[0]
				if len(f0.Names) == 0 && exprString(f0.Type) == "boltvm.Stub" {
					ctypes[ts.Name.Name] = &ctype{name: ts.Name.Name, own: map[string]*ast.FuncDecl{}}
				}
			}
		}
	}
	allFuncs := map[string]*ast.FuncDecl{} // "Type.Method" or "func"
	xfEachFunc(contracts, func(file string, fd *ast.FuncDecl) {
		allFuncs[xfFuncName(fd)] = fd
		if fd.Recv != nil {
			t := strings.TrimPrefix(exprString(fd.Recv.List[0].Type), "*")
			if ct, ok := ctypes[t]; ok {
				ct.own[fd.Name.Name] = fd
			}
		}
	})
	var tnames []string
	for n := range ctypes {
		tnames = append(tnames, n)
	}
	sort.Strings(tnames)
	fmt.Fprintf(&v.b, "(* (contract type embedding boltvm.Stub, Stub methods it shadows with a method of its own) *)\n")
	fmt.Fprintf(&v.b, "Definition contract_types : list (string * list string) :=\n  [")
	for i, n := range tnames {
		if i > 0 {
			v.b.WriteString(";\n   ")
		}
		var shadow []string
		for _, m := range stubMethods {
			if _, ok := ctypes[n].own[m]; ok {
				shadow = append(shadow, m)
			}
		}
		fmt.Fprintf(&v.b, "(%s, %s)", gstr(n), glistStr(shadow))
	}
	v.b.WriteString("].\n\n")

	// ---- exported methods of contract types that do not return exactly one *boltvm.Response ----
	fmt.Fprintf(&v.b, "(* exported own methods of contract types whose result is NOT a single *boltvm.Response: (type, method, parameter types) *)\n")
	fmt.Fprintf(&v.b, "Definition non_response_methods : list (string * string * list string) :=\n  [")
	first := true
	for _, n := range tnames {
		var ms []string
		for m := range ctypes[n].own {
			ms = append(ms, m)
		}
		sort.Strings(ms)
		for _, m := range ms {
			fd := ctypes[n].own[m]
			if !ast.IsExported(m) || xfReturnsResponse(fd.Type) {
				continue
			}
			if !first {
				v.b.WriteString(";\n   ")
			}
			first = false
			fmt.Fprintf(&v.b, "(%s, %s, %s)", gstr(n), gstr(m), glistStr(xfParamTypes(fd.Type)))
		}
	}
	v.b.WriteString("].\n\n")

	// ---- call graph towards InterchainManager.ProcessIBTP -------------------------------------
	edges := map[string]map[string]bool{}
	byMethodName := map[string][]string{}
	for k := range allFuncs {
		if i := strings.Index(k, "."); i >= 0 {
			byMethodName[k[i+1:]] = append(byMethodName[k[i+1:]], k)
		}
	}
	for k, fd := range allFuncs {
		edges[k] = map[string]bool{}
		rv := xfRecvIdent(fd)
		rt := ""
		if fd.Recv != nil {
			rt = strings.TrimPrefix(exprString(fd.Recv.List[0].Type), "*")
		}
		ast.Inspect(fd.Body, func(n ast.Node) bool {
			call, ok := n.(*ast.CallExpr)
			if !ok {
				return true
			}
			switch f := call.Fun.(type) {
			case *ast.Ident:
				if _, ok := allFuncs[f.Name]; ok {
					edges[k][f.Name] = true
				}
			case *ast.SelectorExpr:
				if id, ok := f.X.(*ast.Ident); ok && id.Name == rv && rv != "" {
					if _, ok := allFuncs[rt+"."+f.Sel.Name]; ok {
						edges[k][rt+"."+f.Sel.Name] = true
					}
				} else {
					// a method call on some other value of a contract type: over-approximate by name
					for _, t := range byMethodName[f.Sel.Name] {
						if strings.HasPrefix(t, "InterchainManager.") && f.Sel.Name != "Get" && f.Sel.Name != "Set" {
							edges[k][t] = true
						}
					}
				}
				if f.Sel.Name == "CrossInvoke" && len(call.Args) >= 2 {
					if lit, ok := call.Args[1].(*ast.BasicLit); ok && lit.Kind == token.STRING {
						m := strings.Trim(lit.Value, "\"")
						for _, t := range byMethodName[m] {
							edges[k][t] = true
						}
					}
				}
			}
			return true
		})
	}
	target := "InterchainManager.ProcessIBTP"
	if _, ok := allFuncs[target]; !ok {
		fatalf("%s not found", target)
	}
	reach := map[string]bool{target: true}
	for changed := true; changed; {
		changed = false
		for k, es := range edges {
			if reach[k] {
				continue
			}
			for e := range es {
				if reach[e] {
					reach[k] = true
					changed = true
					break
				}
			}
		}
	}
	var entries []string
	for k := range reach {
		i := strings.Index(k, ".")
		if i < 0 {
			continue
		}
		if _, ok := ctypes[k[:i]]; ok && ast.IsExported(k[i+1:]) {
			entries = append(entries, k)
		}
	}
	sort.Strings(entries)
	fmt.Fprintf(&v.b, "(* exported contract methods from which %s is reachable: (type, method, parameter types, returns *Response, first statement is a caller/permission check) *)\n", target)
	fmt.Fprintf(&v.b, "Definition process_entries : list (string * string * list string * bool * bool) :=\n  [")
	for i, k := range entries {
		if i > 0 {
			v.b.WriteString(";\n   ")
		}
		fd := allFuncs[k]
		j := strings.Index(k, ".")
		fmt.Fprintf(&v.b, "(%s, %s, %s, %s, %s)", gstr(k[:j]), gstr(k[j+1:]), glistStr(xfParamTypes(fd.Type)), xfBool(xfReturnsResponse(fd.Type)), xfBool(xfHasCallerGuard(fd)))
	}
	v.b.WriteString("].\n")
	v.write()
}

func xfBool(b bool) string {
	if b {
		return "true"
	}
	return "false"
}

func xfConstInt(x ast.Expr) (int64, bool) {
	switch v := x.(type) {
	case *ast.BasicLit:
		if v.Kind != token.INT {
			return 0, false
		}
		var n int64
		if _, err := fmt.Sscan(v.Value, &n); err != nil {
			return 0, false
		}
		return n, true
	case *ast.BinaryExpr:
		a, ok1 := xfConstInt(v.X)
		b, ok2 := xfConstInt(v.Y)
		if !ok1 || !ok2 {
			return 0, false
		}
		switch v.Op {
		case token.MUL:
			return a * b, true
		case token.ADD:
			return a + b, true
		}
	case *ast.ParenExpr:
		return xfConstInt(v.X)
	}
	return 0, false
}

func xfParamTypes(ft *ast.FuncType) []string {
	var out []string
	if ft.Params == nil {
		return out
	}
	for _, p := range ft.Params.List {
		n := len(p.Names)
		if n == 0 {
			n = 1
		}
		for i := 0; i < n; i++ {
			out = append(out, exprString(p.Type))
		}
	}
	return out
}

func xfReturnsResponse(ft *ast.FuncType) bool {
	if ft.Results == nil || len(ft.Results.List) != 1 || len(ft.Results.List[0].Names) > 1 {
		return false
	}
	s := exprString(ft.Results.List[0].Type)
	return s == "*boltvm.Response" || s == "*Response"
}

// xfHasCallerGuard: some statement before the first state access calls CurrentCaller()/Caller()
// or a checkPermission helper (syntactic; used only to tell guarded from unguarded entry points)
func xfHasCallerGuard(fd *ast.FuncDecl) bool {
	g := false
	ast.Inspect(fd.Body, func(n ast.Node) bool {
		if call, ok := n.(*ast.CallExpr); ok {
			s := exprString(call.Fun)
			if strings.HasSuffix(s, ".CurrentCaller") || strings.HasSuffix(s, ".Caller") || strings.Contains(s, "checkPermission") || strings.Contains(s, "checkCurrentCaller") {
				g = true
			}
		}
		return true
	})
	return g
}
