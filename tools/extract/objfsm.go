package main

// objfsm.go -> coq/gen/Gen_ObjFsm.v
//
// The governance object state machines (fsm.Events literal inside each setFSM), the
// pre-check maps (event -> statuses from which the event may be requested), the "available"
// status sets, the governance status / event constants and the proposal priority map.
// Sources: bitxhub-core (module cache: the code the build uses) appchain-mgr, service-mgr,
// rule-mgr, node-mgr, governance; /repo internal/executor/contracts role.go, dapp_manager.go,
// proposal_strategy.go, governance.go.
//
// Every setFSM takes a parameter lastStatus that appears as the destination of some
// "reject"/"approve" entries: the generated table is a function of that value.

import (
	"fmt"
	"go/ast"
	"go/token"
	"path/filepath"
	"sort"
	"strconv"
	"strings"
)

const lastSentinel = "\x00LAST\x00"

type objFsmSpec struct {
	name     string // Coq prefix
	files    []*ast.File
	recv     string // receiver type of setFSM
	preMap   string // name of the event -> statuses map
	availMap string // name of the available-status set ("" if none)
}

// orderedConsts returns (name, value) of the string constants of the given Go type, in source order.
func orderedConsts(files []*ast.File, typeName string) [][2]string {
	var out [][2]string
	for _, f := range files {
		for _, d := range f.Decls {
			gd, ok := d.(*ast.GenDecl)
			if !ok || gd.Tok != token.CONST {
				continue
			}
			for _, s := range gd.Specs {
				vs := s.(*ast.ValueSpec)
				if vs.Type == nil || exprString(vs.Type) != typeName {
					continue
				}
				for i, n := range vs.Names {
					if i >= len(vs.Values) {
						fatalf("const %s of type %s without literal value", n.Name, typeName)
					}
					bl, ok := vs.Values[i].(*ast.BasicLit)
					if !ok || bl.Kind != token.STRING {
						fatalf("const %s of type %s is not a string literal", n.Name, typeName)
					}
					sv, err := strconv.Unquote(bl.Value)
					if err != nil {
						fatalf("const %s: %v", n.Name, err)
					}
					out = append(out, [2]string{n.Name, sv})
				}
			}
		}
	}
	return out
}

func findVarLit(files []*ast.File, varName string) *ast.CompositeLit {
	var lit *ast.CompositeLit
	for _, f := range files {
		for _, d := range f.Decls {
			gd, ok := d.(*ast.GenDecl)
			if !ok || gd.Tok != token.VAR {
				continue
			}
			for _, s := range gd.Specs {
				vs := s.(*ast.ValueSpec)
				if len(vs.Names) != 1 || vs.Names[0].Name != varName {
					continue
				}
				if len(vs.Values) != 1 {
					fatalf("var %s: expected one initialiser", varName)
				}
				cl, ok := vs.Values[0].(*ast.CompositeLit)
				if !ok {
					fatalf("var %s is not a composite literal", varName)
				}
				if lit != nil {
					fatalf("var %s declared twice", varName)
				}
				lit = cl
			}
		}
	}
	if lit == nil {
		fatalf("var %s not found", varName)
	}
	return lit
}

// event -> []status map literal
func statusListMap(files []*ast.File, varName string, ev *strEval) [][2]interface{} {
	lit := findVarLit(files, varName)
	if _, ok := lit.Type.(*ast.MapType); !ok {
		fatalf("%s: not a map literal", varName)
	}
	var out [][2]interface{}
	seen := map[string]bool{}
	for _, el := range lit.Elts {
		kv, ok := el.(*ast.KeyValueExpr)
		if !ok {
			fatalf("%s: element without key at %s", varName, fset.Position(el.Pos()))
		}
		k, err := ev.eval(kv.Key)
		if err != nil {
			fatalf("%s: key: %v", varName, err)
		}
		if seen[k] {
			fatalf("%s: duplicate key %s", varName, k)
		}
		seen[k] = true
		vl, ok := kv.Value.(*ast.CompositeLit)
		if !ok {
			fatalf("%s[%s]: value is not a literal at %s", varName, k, fset.Position(kv.Value.Pos()))
		}
		var vals []string
		for _, x := range vl.Elts {
			s, err := ev.eval(x)
			if err != nil {
				fatalf("%s[%s]: %v", varName, k, err)
			}
			vals = append(vals, s)
		}
		out = append(out, [2]interface{}{k, vals})
	}
	return out
}

// status -> struct{}{} set literal
func statusSet(files []*ast.File, varName string, ev *strEval) []string {
	lit := findVarLit(files, varName)
	var out []string
	for _, el := range lit.Elts {
		kv, ok := el.(*ast.KeyValueExpr)
		if !ok {
			fatalf("%s: element without key", varName)
		}
		k, err := ev.eval(kv.Key)
		if err != nil {
			fatalf("%s: %v", varName, err)
		}
		if vl, ok := kv.Value.(*ast.CompositeLit); !ok || len(vl.Elts) != 0 {
			fatalf("%s[%s]: value is not {}", varName, k)
		}
		out = append(out, k)
	}
	return out
}

// event -> int map literal
func intMap(files []*ast.File, varName string, ev *strEval) [][2]string {
	lit := findVarLit(files, varName)
	var out [][2]string
	for _, el := range lit.Elts {
		kv, ok := el.(*ast.KeyValueExpr)
		if !ok {
			fatalf("%s: element without key", varName)
		}
		k, err := ev.eval(kv.Key)
		if err != nil {
			fatalf("%s: %v", varName, err)
		}
		bl, ok := kv.Value.(*ast.BasicLit)
		if !ok || bl.Kind != token.INT {
			fatalf("%s[%s]: value is not an integer literal", varName, k)
		}
		out = append(out, [2]string{k, bl.Value})
	}
	return out
}

// the callbacks of an FSM are code, not table: record a hash of the fsm.Callbacks literal so
// that a change of a callback is noticed (the hand-written model of the callback is tied by
// the exhaustive differential test of the lifecycle driver).
func fsmCallbacksHash(files []*ast.File, funcName, recv string) string {
	var h string
	for _, f := range files {
		for _, d := range f.Decls {
			fd, ok := d.(*ast.FuncDecl)
			if !ok || fd.Name.Name != funcName || fd.Recv == nil || len(fd.Recv.List) != 1 ||
				!strings.Contains(exprString(fd.Recv.List[0].Type), recv) {
				continue
			}
			ast.Inspect(fd, func(n ast.Node) bool {
				cl, ok := n.(*ast.CompositeLit)
				if ok && exprString(cl.Type) == "fsm.Callbacks" {
					h = nodeHash(cl)
					return false
				}
				return true
			})
		}
	}
	if h == "" {
		fatalf("fsm.Callbacks literal not found in %s.%s", recv, funcName)
	}
	return h
}

func writeEventsFn(v *vfile, name string, evs []fsmEvent) {
	fmt.Fprintf(&v.b, "Definition %s (last : string) : list (string * list string * string) :=\n  [", name)
	for i, e := range evs {
		if i > 0 {
			v.b.WriteString(";\n   ")
		}
		for _, s := range e.Src {
			if s == lastSentinel {
				fatalf("%s: lastStatus used as a source state", name)
			}
		}
		if e.Name == lastSentinel {
			fatalf("%s: lastStatus used as an event name", name)
		}
		dst := gstr(e.Dst)
		if e.Dst == lastSentinel {
			dst = "last"
		}
		fmt.Fprintf(&v.b, "(%s, %s, %s)", gstr(e.Name), glistStr(e.Src), dst)
	}
	v.b.WriteString("].\n\n")
}

func genObjFsm(coreDir string) {
	govFiles := parseDir(filepath.Join(coreDir, "governance"))
	statusConsts := orderedConsts(govFiles, "GovernanceStatus")
	eventConsts := orderedConsts(govFiles, "EventType")
	if len(statusConsts) == 0 || len(eventConsts) == 0 {
		fatalf("governance status / event constants not found in %s", coreDir)
	}
	contractsDir := filepath.Join(*repo, "internal/executor/contracts")
	mk := func(files []*ast.File) *strEval {
		lc := newConsts()
		lc.collect(govFiles)
		lc.collect(files)
		lc.str["lastStatus"] = lastSentinel
		return &strEval{local: lc, pbPrefix: map[string]bool{}}
	}
	specs := []objFsmSpec{
		{"appchain", parseDir(filepath.Join(coreDir, "appchain-mgr")), "Appchain", "appchainStateMap", "appchainAvailableMap"},
		{"service", parseDir(filepath.Join(coreDir, "service-mgr")), "Service", "serviceStateMap", "serviceAvailableMap"},
		{"rule", parseDir(filepath.Join(coreDir, "rule-mgr")), "Rule", "ruleStateMap", "ruleAvailableMap"},
		{"node", parseDir(filepath.Join(coreDir, "node-mgr")), "Node", "nodeStateMap", "nodeAvailableMap"},
		{"role", []*ast.File{parseFile(filepath.Join(contractsDir, "role.go"))}, "Role", "roleStateMap", "roleAvailableMap"},
		{"dapp", []*ast.File{parseFile(filepath.Join(contractsDir, "dapp_manager.go"))}, "Dapp", "dappStateMap", "dappAvailableMap"},
		{"strategy", []*ast.File{parseFile(filepath.Join(contractsDir, "proposal_strategy.go"))}, "ProposalStrategy", "strategyStateMap", ""},
	}

	v := newV("Gen_ObjFsm.v", "source: bitxhub-core appchain-mgr/service-mgr/rule-mgr/node-mgr (setFSM, *StateMap, *AvailableMap), governance constants; "+
		"/repo internal/executor/contracts role.go, dapp_manager.go, proposal_strategy.go (setFSM, *StateMap), governance.go (priority)")
	wpairs := func(name string, ps [][2]string) {
		fmt.Fprintf(&v.b, "Definition %s : list (string * string) :=\n  [", name)
		for i, p := range ps {
			if i > 0 {
				v.b.WriteString("; ")
			}
			fmt.Fprintf(&v.b, "(%s, %s)", gstr(p[0]), gstr(p[1]))
		}
		v.b.WriteString("].\n\n")
	}
	wpairs("gov_status_consts", statusConsts)
	wpairs("gov_event_consts", eventConsts)
	for _, p := range statusConsts {
		fmt.Fprintf(&v.b, "Definition St_%s : string := %s.\n", strings.TrimPrefix(p[0], "Governance"), gstr(p[1]))
	}
	for _, p := range eventConsts {
		fmt.Fprintf(&v.b, "Definition Ev_%s : string := %s.\n", strings.TrimPrefix(p[0], "Event"), gstr(p[1]))
	}
	v.b.WriteString("\n")

	var hashes [][2]string
	for _, sp := range specs {
		ev := mk(sp.files)
		evs := fsmEventsOf(sp.files, "setFSM", sp.recv, ev)
		writeEventsFn(v, sp.name+"_fsm_events", evs)
		pre := statusListMap(sp.files, sp.preMap, ev)
		fmt.Fprintf(&v.b, "Definition %s_pre : list (string * list string) :=\n  [", sp.name)
		for i, kv := range pre {
			if i > 0 {
				v.b.WriteString(";\n   ")
			}
			fmt.Fprintf(&v.b, "(%s, %s)", gstr(kv[0].(string)), glistStr(kv[1].([]string)))
		}
		v.b.WriteString("].\n\n")
		if sp.availMap != "" {
			av := statusSet(sp.files, sp.availMap, ev)
			fmt.Fprintf(&v.b, "Definition %s_available : list string := %s.\n\n", sp.name, glistStr(av))
		}
		hashes = append(hashes, [2]string{sp.name, fsmCallbacksHash(sp.files, "setFSM", sp.recv)})
	}

	// proposal priorities (governance.go)
	gfiles := []*ast.File{parseFile(filepath.Join(contractsDir, "governance.go"))}
	pr := intMap(gfiles, "priority", mk(gfiles))
	sort.SliceStable(pr, func(i, j int) bool { return false })
	v.b.WriteString("Definition gov_priority : list (string * N) :=\n  [")
	for i, p := range pr {
		if i > 0 {
			v.b.WriteString("; ")
		}
		fmt.Fprintf(&v.b, "(%s, %s)", gstr(p[0]), p[1])
	}
	v.b.WriteString("].\n\n")

	v.b.WriteString("(* sha256 prefixes of the fsm.Callbacks literals (code, not table: modelled by hand, pinned here) *)\n")
	wpairs("fsm_callback_hashes", hashes)
	v.write()
}
