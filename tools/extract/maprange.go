package main

// Site inventory for C01 (deterministic execution): every place in the anchored files where the
// Go runtime may choose an order or a value that the source text does not fix:
//   - `for ... range X` where X has map type                       (kind "map")
//   - X.Range(f) where X is a sync.Map                             (kind "syncmap")
//   - time.Now()                                                   (clock sites)
//   - `go` statements                                              (goroutine sites)
//   - `select` statements with two or more communication clauses   (select sites)
// Each site is identified position-independently by (file, enclosing top-level function,
// ordinal of the site among the sites of its kind in that function, operand text) plus a hash of
// the enclosing function's source text, so that moving code does not change the inventory but
// any edit of a function that contains a site does.
//
// Operand types are resolved with go/types over the parsed sources (no build): the packages of
// the repository and of the meshplus bitxhub-core / bitxhub-model / bitxhub-kit / eth-kit
// modules the build uses are checked from source (bodies of dependencies ignored), the standard
// library through the "source" importer, every other import is an empty stand-in.  A range
// operand whose type cannot be resolved is listed as "unknown" and makes the extractor fail
// unless it is whitelisted below with a reason.

import (
	"bytes"
	"crypto/sha256"
	"encoding/hex"
	"fmt"
	"go/ast"
	"go/importer"
	"go/printer"
	"go/token"
	"go/types"
	"os"
	"path/filepath"
	"sort"
	"strings"
)

// files anchored by C01 (properties.jsonl)
var c01Files = []string{
	"internal/executor/handle.go",
	"internal/executor/executor.go",
	"internal/executor/serial_executor.go",
	"internal/executor/contracts/transaction_manager.go",
	"internal/executor/contracts/interchain.go",
	"internal/executor/contracts/governance.go",
	"internal/executor/contracts/service_manager.go",
	"internal/ledger/state_accessor.go",
	"internal/ledger/account.go",
	"internal/ledger/genesis/genesis.go",
	"pkg/vm/boltvm/bolt_stub.go",
	"pkg/proof/proof_pool.go",
	// beyond the anchors: the remaining built-in contracts a transaction can reach (a map-order
	// leak into a receipt there breaks C01 just the same)
	"internal/executor/contracts/appchain_manager.go",
	"internal/executor/contracts/role.go",
	"internal/executor/contracts/rule_manager.go",
	"internal/executor/contracts/node_manager.go",
	"internal/executor/contracts/dapp_manager.go",
	"internal/executor/contracts/proposal_strategy.go",
	"internal/executor/contracts/inter_broker.go",
	"internal/executor/contracts/common.go",
	"internal/executor/contracts/store.go",
	"internal/executor/contracts/service_registry.go",
	"internal/executor/contracts/service_resolver.go",
	"internal/executor/contracts/trust_chain.go",
	"internal/executor/contracts/asset_manager.go",
	"internal/ledger/simple_ledger.go",
	"internal/ledger/account_cache.go",
	"internal/ledger/state_changer.go",
	"internal/ledger/block_journal.go",
	"pkg/vm/boltvm/boltvm.go",
	"pkg/vm/boltvm/register.go",
}

// range operands whose type the resolver cannot determine, accepted with a reason
// key: file|function|operand text
var rangeUnknownWhitelist = map[string]string{
	"internal/executor/contracts/asset_manager.go|EthHeaderManager.unpackEscrowsLock|receipt.Logs": "go-ethereum core/types.Receipt.Logs is a slice ([]*types.Log); go-ethereum is not loaded by the resolver",
	"internal/ledger/account_cache.go|AccountCache.queryState|states.Keys()":                        "hashicorp/golang-lru Cache.Keys() returns a slice ordered oldest to newest, not a map",
}

type srcModule struct {
	prefix string // import path prefix
	dir    string // directory on disk
}

type laxImporter struct {
	mods   []srcModule
	std    types.Importer
	cache  map[string]*types.Package
	active map[string]bool
	infos  map[string]*mrPkg
}

type mrPkg struct {
	pkg   *types.Package
	info  *types.Info
	files map[string]*ast.File // base name -> file
	src   map[string][]byte
}

func (im *laxImporter) dirOf(path string) (string, bool) {
	for _, m := range im.mods {
		if path == m.prefix {
			return m.dir, true
		}
		if strings.HasPrefix(path, m.prefix+"/") {
			return filepath.Join(m.dir, strings.TrimPrefix(path, m.prefix+"/")), true
		}
	}
	return "", false
}

func (im *laxImporter) Import(path string) (*types.Package, error) {
	if p, ok := im.cache[path]; ok {
		return p, nil
	}
	if path == "C" || path == "unsafe" {
		return types.Unsafe, nil
	}
	if dir, ok := im.dirOf(path); ok {
		if im.active[path] {
			return types.NewPackage(path, filepath.Base(path)), nil
		}
		pi := im.check(path, dir, true)
		if pi != nil {
			return pi.pkg, nil
		}
	}
	first := strings.Split(path, "/")[0]
	if !strings.Contains(first, ".") {
		if p, err := im.std.Import(path); err == nil {
			im.cache[path] = p
			return p, nil
		}
	}
	// stand-in: an empty, complete package; every use of its members has an invalid type
	name := filepath.Base(path)
	if len(name) >= 2 && name[0] == 'v' && name[1] >= '0' && name[1] <= '9' {
		name = filepath.Base(filepath.Dir(path))
	}
	name = strings.TrimPrefix(name, "go-")
	name = strings.ReplaceAll(name, "-", "_")
	p := types.NewPackage(path, name)
	p.MarkComplete()
	im.cache[path] = p
	return p, nil
}

// check parses and type-checks the package in dir.  Errors are ignored (lenient): whatever
// cannot be resolved simply has an invalid type.
func (im *laxImporter) check(path, dir string, depsOnly bool) *mrPkg {
	ents, err := os.ReadDir(dir)
	if err != nil {
		return nil
	}
	pi := &mrPkg{files: map[string]*ast.File{}, src: map[string][]byte{}}
	var files []*ast.File
	pkgName := ""
	for _, e := range ents {
		n := e.Name()
		if e.IsDir() || !strings.HasSuffix(n, ".go") || strings.HasSuffix(n, "_test.go") {
			continue
		}
		full := filepath.Join(dir, n)
		src, err := os.ReadFile(full)
		if err != nil {
			fatalf("read %s: %v", full, err)
		}
		// build constraints: skip files that exclude themselves from every normal build
		if bytes.Contains(src[:min(len(src), 400)], []byte("//go:build ignore")) {
			continue
		}
		f := parseFile(full)
		if pkgName == "" {
			pkgName = f.Name.Name
		}
		if f.Name.Name != pkgName {
			continue // stray package main / documentation files
		}
		files = append(files, f)
		pi.files[n] = f
		pi.src[n] = src
	}
	if len(files) == 0 {
		return nil
	}
	im.active[path] = true
	defer delete(im.active, path)
	info := &types.Info{Types: map[ast.Expr]types.TypeAndValue{}, Selections: map[*ast.SelectorExpr]*types.Selection{},
		Uses: map[*ast.Ident]types.Object{}, Defs: map[*ast.Ident]types.Object{}}
	conf := types.Config{Importer: im, Error: func(error) {}, FakeImportC: true, IgnoreFuncBodies: depsOnly, DisableUnusedImportCheck: true}
	pkg, _ := conf.Check(path, fset, files, info)
	if pkg == nil {
		return nil
	}
	pi.pkg, pi.info = pkg, info
	im.cache[path] = pkg
	im.infos[path] = pi
	return pi
}

type mrSite struct {
	File, Func, Kind, Operand, Hash string
	Ord                              int
}

// mrFuncHash: hash of the function printed without comments and without position information
// (insensitive to moving the function, to comments and to gofmt-neutral whitespace).
func mrFuncHash(fd *ast.FuncDecl) string {
	cp := *fd
	cp.Doc = nil
	var buf bytes.Buffer
	if err := printer.Fprint(&buf, token.NewFileSet(), &cp); err != nil {
		fatalf("print %s: %v", fd.Name.Name, err)
	}
	h := sha256.Sum256(buf.Bytes())
	return hex.EncodeToString(h[:8])
}

func mrFuncName(fd *ast.FuncDecl) string {
	if fd.Recv != nil && len(fd.Recv.List) == 1 {
		return strings.TrimPrefix(exprString(fd.Recv.List[0].Type), "*") + "." + fd.Name.Name
	}
	return fd.Name.Name
}

func srcText(src []byte, n ast.Node) string {
	s := string(src[fset.Position(n.Pos()).Offset:fset.Position(n.End()).Offset])
	return strings.Join(strings.Fields(s), " ")
}

func isSyncMap(t types.Type) bool {
	if p, ok := t.(*types.Pointer); ok {
		t = p.Elem()
	}
	n, ok := t.(*types.Named)
	return ok && n.Obj().Pkg() != nil && n.Obj().Pkg().Path() == "sync" && n.Obj().Name() == "Map"
}

func genMapRanges() {
	coreDir := moduleDir("github.com/meshplus/bitxhub-core")
	modelDir := moduleDir("github.com/meshplus/bitxhub-model")
	kitDir := moduleDir("github.com/meshplus/bitxhub-kit")
	ethDir := moduleDir("github.com/meshplus/eth-kit")
	omDir := moduleDir("github.com/iancoleman/orderedmap") // OrderedMap.Keys() is an insertion-ordered slice, not a map
	im := &laxImporter{
		mods: []srcModule{
			{"github.com/meshplus/bitxhub-core", coreDir}, {"github.com/meshplus/bitxhub-model", modelDir},
			{"github.com/meshplus/bitxhub-kit", kitDir}, {"github.com/meshplus/eth-kit", ethDir},
			{"github.com/iancoleman/orderedmap", omDir},
			{"github.com/meshplus/bitxhub", *repo},
		},
		std:   importer.ForCompiler(fset, "source", nil),
		cache: map[string]*types.Package{}, active: map[string]bool{}, infos: map[string]*mrPkg{},
	}
	var ranges, clocks, gos, selects []mrSite
	var unknown []string
	nonMap := 0
	for _, rel := range c01Files {
		dir := filepath.Dir(rel)
		path := "github.com/meshplus/bitxhub/" + filepath.ToSlash(dir)
		pi, ok := im.infos[path]
		if !ok || pi.info == nil || len(pi.info.Defs) == 0 {
			delete(im.cache, path)
			pi = im.check(path, filepath.Join(*repo, dir), false)
		} else if pi != nil {
			// was checked as a dependency without bodies: check again with bodies
			delete(im.cache, path)
			pi = im.check(path, filepath.Join(*repo, dir), false)
		}
		if pi == nil {
			fatalf("maprange: cannot type-check package of %s", rel)
		}
		base := filepath.Base(rel)
		f, ok := pi.files[base]
		if !ok {
			fatalf("maprange: anchored file %s not found", rel)
		}
		src := pi.src[base]
		for _, d := range f.Decls {
			fd, ok := d.(*ast.FuncDecl)
			if !ok || fd.Body == nil {
				// package-level initialisers with function literals are not expected in these files
				if gd, ok := d.(*ast.GenDecl); ok {
					ast.Inspect(gd, func(n ast.Node) bool {
						if _, ok := n.(*ast.FuncLit); ok {
							fatalf("maprange: %s: function literal at package level (%s) is not inventoried", rel, fset.Position(n.Pos()))
						}
						return true
					})
				}
				continue
			}
			fn, hash := mrFuncName(fd), mrFuncHash(fd)
			cnt := map[string]int{}
			add := func(list *[]mrSite, kind, operand string) {
				*list = append(*list, mrSite{File: rel, Func: fn, Kind: kind, Operand: operand, Hash: hash, Ord: cnt[kind]})
				cnt[kind]++
			}
			ast.Inspect(fd.Body, func(n ast.Node) bool {
				switch v := n.(type) {
				case *ast.RangeStmt:
					t := pi.info.TypeOf(v.X)
					op := srcText(src, v.X)
					if t == nil || t == types.Typ[types.Invalid] {
						key := rel + "|" + fn + "|" + op
						if _, ok := rangeUnknownWhitelist[key]; ok {
							add(&ranges, "unknown", op)
						} else {
							unknown = append(unknown, fmt.Sprintf("%s: %s: range %s", fset.Position(v.Pos()), fn, op))
						}
						return true
					}
					switch u := t.Underlying().(type) {
					case *types.Map:
						add(&ranges, "map", op)
					case *types.Slice, *types.Array, *types.Chan, *types.Basic:
						nonMap++
					case *types.Pointer:
						if _, ok := u.Elem().Underlying().(*types.Array); ok {
							nonMap++
						} else {
							unknown = append(unknown, fmt.Sprintf("%s: %s: range over pointer %s", fset.Position(v.Pos()), fn, op))
						}
					default:
						unknown = append(unknown, fmt.Sprintf("%s: %s: range %s has type %s", fset.Position(v.Pos()), fn, op, t))
					}
				case *ast.CallExpr:
					if sel, ok := v.Fun.(*ast.SelectorExpr); ok {
						if sel.Sel.Name == "Range" && len(v.Args) == 1 {
							t := pi.info.TypeOf(sel.X)
							if t == nil || t == types.Typ[types.Invalid] {
								unknown = append(unknown, fmt.Sprintf("%s: %s: %s.Range(...) on unresolved type", fset.Position(v.Pos()), fn, srcText(src, sel.X)))
							} else if isSyncMap(t) {
								add(&ranges, "syncmap", srcText(src, sel.X))
							}
						}
						if id, ok := sel.X.(*ast.Ident); ok && id.Name == "time" && sel.Sel.Name == "Now" {
							if obj, ok := pi.info.Uses[id].(*types.PkgName); ok && obj.Imported().Path() == "time" {
								add(&clocks, "clock", "time.Now()")
							}
						}
					}
				case *ast.GoStmt:
					add(&gos, "go", srcText(src, v.Call.Fun)[:min(60, len(srcText(src, v.Call.Fun)))])
				case *ast.SelectStmt:
					comm := 0
					for _, c := range v.Body.List {
						if cc, ok := c.(*ast.CommClause); ok && cc.Comm != nil {
							comm++
						}
					}
					if comm >= 2 {
						add(&selects, "select", fmt.Sprintf("%d cases", comm))
					}
				}
				return true
			})
		}
	}
	if len(unknown) > 0 {
		fatalf("maprange: %d range operand(s) with unresolved type (whitelist with a reason in tools/extract/maprange.go or fix the resolver):\n  %s",
			len(unknown), strings.Join(unknown, "\n  "))
	}
	if nonMap < 40 {
		fatalf("maprange: only %d non-map ranges were classified; the resolver is not seeing the sources", nonMap)
	}
	v := newV("Gen_MapRanges.v", "source: every file anchored by C01; sites where the Go runtime chooses an order or a value (map ranges, sync.Map.Range, time.Now, go statements, selects)")
	v.b.WriteString("(* a site: (file, enclosing function, kind, ordinal within the function among sites of that kind, operand text, hash of the function source) *)\n")
	v.b.WriteString("Definition gsite : Type := (string * string * string * N * string * string)%type.\n\n")
	emit := func(name string, l []mrSite) {
		sort.SliceStable(l, func(i, j int) bool {
			if l[i].File != l[j].File {
				return l[i].File < l[j].File
			}
			if l[i].Func != l[j].Func {
				return l[i].Func < l[j].Func
			}
			return l[i].Ord < l[j].Ord
		})
		fmt.Fprintf(&v.b, "Definition %s : list gsite :=\n  [", name)
		for i, s := range l {
			if i > 0 {
				v.b.WriteString(";\n   ")
			}
			fmt.Fprintf(&v.b, "(%s, %s, %s, %d, %s, %s)", gstr(s.File), gstr(s.Func), gstr(s.Kind), s.Ord, gstr(s.Operand), gstr(s.Hash))
		}
		v.b.WriteString("].\n\n")
	}
	emit("gen_range_sites", ranges)
	emit("gen_clock_sites", clocks)
	emit("gen_go_sites", gos)
	emit("gen_select_sites", selects)
	fmt.Fprintf(&v.b, "Definition gen_nonmap_ranges : N := %d.\n", nonMap)
	fmt.Fprintf(&v.b, "Definition gen_anchored_files : list string := %s.\n", glistStr(c01Files))
	v.write()
}
