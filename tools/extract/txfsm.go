package main

import (
	"fmt"
	"go/ast"
	"path/filepath"
	"sort"
	"strings"
)

// enumValues reads `Prefix_NAME Type = n` constants of a generated pb file.
func enumValues(files []*ast.File, prefix string) map[string]int64 {
	c := newConsts()
	c.collect(files)
	out := map[string]int64{}
	for k, v := range c.num {
		if strings.HasPrefix(k, prefix) {
			out[strings.TrimPrefix(k, prefix)] = v
		}
	}
	return out
}

// strExpr evaluates the small expression language used inside the fsm.Events literals.
type strEval struct {
	local    *consts          // constants of the package being read
	pbPrefix map[string]bool  // pb enum prefixes whose .String() is the suffix
}

func (e *strEval) eval(x ast.Expr) (string, error) {
	switch v := x.(type) {
	case *ast.BasicLit:
		s := strings.Trim(v.Value, "\"")
		return s, nil
	case *ast.Ident:
		if s, ok := e.local.str[v.Name]; ok {
			return s, nil
		}
		return "", fmt.Errorf("unknown identifier %s", v.Name)
	case *ast.CallExpr:
		// string(X)  or  X.String()
		if id, ok := v.Fun.(*ast.Ident); ok && id.Name == "string" && len(v.Args) == 1 {
			return e.eval(v.Args[0])
		}
		sel, ok := v.Fun.(*ast.SelectorExpr)
		if !ok || sel.Sel.Name != "String" || len(v.Args) != 0 {
			return "", fmt.Errorf("unsupported call at %s", fset.Position(v.Pos()))
		}
		switch r := sel.X.(type) {
		case *ast.Ident:
			return e.eval(r)
		case *ast.SelectorExpr:
			// pb.TransactionStatus_BEGIN
			name := r.Sel.Name
			for p := range e.pbPrefix {
				if strings.HasPrefix(name, p) {
					return strings.TrimPrefix(name, p), nil
				}
			}
			return "", fmt.Errorf("unknown enum constant %s", name)
		}
	case *ast.SelectorExpr:
		// governance.GovernanceAvailable etc: constant of another package, resolved by name
		if s, ok := e.local.str[v.Sel.Name]; ok {
			return s, nil
		}
		return "", fmt.Errorf("unknown selector %s", v.Sel.Name)
	}
	return "", fmt.Errorf("unsupported expression at %s", fset.Position(x.Pos()))
}

type fsmEvent struct {
	Name string
	Src  []string
	Dst  string
}

// fsmEventsOf finds the fsm.Events{...} literal inside the named function.
func fsmEventsOf(files []*ast.File, funcName, recv string, ev *strEval) []fsmEvent {
	var lit *ast.CompositeLit
	for _, f := range files {
		for _, d := range f.Decls {
			fd, ok := d.(*ast.FuncDecl)
			if !ok || fd.Name.Name != funcName {
				continue
			}
			if recv != "" {
				if fd.Recv == nil || len(fd.Recv.List) != 1 || !strings.Contains(exprString(fd.Recv.List[0].Type), recv) {
					continue
				}
			}
			ast.Inspect(fd, func(n ast.Node) bool {
				cl, ok := n.(*ast.CompositeLit)
				if ok && exprString(cl.Type) == "fsm.Events" {
					if lit != nil {
						fatalf("%s: more than one fsm.Events literal", funcName)
					}
					lit = cl
					return false
				}
				return true
			})
		}
	}
	if lit == nil {
		fatalf("fsm.Events literal not found in %s.%s", recv, funcName)
	}
	var out []fsmEvent
	for _, el := range lit.Elts {
		cl, ok := el.(*ast.CompositeLit)
		if !ok {
			fatalf("%s: unexpected fsm event element at %s", funcName, fset.Position(el.Pos()))
		}
		var e fsmEvent
		for _, kv0 := range cl.Elts {
			kv, ok := kv0.(*ast.KeyValueExpr)
			if !ok {
				fatalf("%s: positional fsm event fields at %s", funcName, fset.Position(kv0.Pos()))
			}
			switch exprString(kv.Key) {
			case "Name":
				s, err := ev.eval(kv.Value)
				if err != nil {
					fatalf("%s: %v", funcName, err)
				}
				e.Name = s
			case "Dst":
				s, err := ev.eval(kv.Value)
				if err != nil {
					fatalf("%s: %v", funcName, err)
				}
				e.Dst = s
			case "Src":
				sl, ok := kv.Value.(*ast.CompositeLit)
				if !ok {
					fatalf("%s: Src is not a literal at %s", funcName, fset.Position(kv.Value.Pos()))
				}
				for _, sx := range sl.Elts {
					s, err := ev.eval(sx)
					if err != nil {
						fatalf("%s: %v", funcName, err)
					}
					e.Src = append(e.Src, s)
				}
			default:
				fatalf("%s: unknown fsm event field %s", funcName, exprString(kv.Key))
			}
		}
		out = append(out, e)
	}
	return out
}

func exprString(x ast.Expr) string {
	switch v := x.(type) {
	case *ast.Ident:
		return v.Name
	case *ast.SelectorExpr:
		return exprString(v.X) + "." + v.Sel.Name
	case *ast.StarExpr:
		return "*" + exprString(v.X)
	case *ast.ArrayType:
		return "[]" + exprString(v.Elt)
	case *ast.MapType:
		return "map[" + exprString(v.Key) + "]" + exprString(v.Value)
	case *ast.InterfaceType:
		return "interface{}"
	case *ast.Ellipsis:
		return "..." + exprString(v.Elt)
	case *ast.FuncType:
		return "func"
	case *ast.IndexExpr:
		return exprString(v.X) + "[" + exprString(v.Index) + "]"
	case *ast.BasicLit:
		return v.Value
	case *ast.CallExpr:
		return exprString(v.Fun) + "(...)"
	}
	return fmt.Sprintf("?%T", x)
}

func writeEvents(v *vfile, name string, evs []fsmEvent) {
	fmt.Fprintf(&v.b, "Definition %s : list (string * list string * string) :=\n  [", name)
	for i, e := range evs {
		if i > 0 {
			v.b.WriteString(";\n   ")
		}
		fmt.Fprintf(&v.b, "(%s, %s, %s)", gstr(e.Name), glistStr(e.Src), gstr(e.Dst))
	}
	v.b.WriteString("].\n\n")
}

// int32 keyed map var: map[int32]T{ int32(pb.X): Const, ... }
func int32StringMap(files []*ast.File, varName string, enum map[string]int64, enumPrefix string, ev *strEval) [][2]string {
	var out [][2]string
	found := false
	for _, f := range files {
		for _, d := range f.Decls {
			gd, ok := d.(*ast.GenDecl)
			if !ok {
				continue
			}
			for _, s := range gd.Specs {
				vs, ok := s.(*ast.ValueSpec)
				if !ok || len(vs.Names) != 1 || vs.Names[0].Name != varName || len(vs.Values) != 1 {
					continue
				}
				cl, ok := vs.Values[0].(*ast.CompositeLit)
				if !ok {
					fatalf("%s is not a map literal", varName)
				}
				found = true
				for _, el := range cl.Elts {
					kv := el.(*ast.KeyValueExpr)
					call, ok := kv.Key.(*ast.CallExpr)
					if !ok || len(call.Args) != 1 {
						fatalf("%s: unsupported key at %s", varName, fset.Position(kv.Key.Pos()))
					}
					sel, ok := call.Args[0].(*ast.SelectorExpr)
					if !ok {
						fatalf("%s: unsupported key at %s", varName, fset.Position(kv.Key.Pos()))
					}
					n, ok := enum[strings.TrimPrefix(sel.Sel.Name, enumPrefix)]
					if !ok {
						fatalf("%s: unknown enum %s", varName, sel.Sel.Name)
					}
					s, err := ev.eval(kv.Value)
					if err != nil {
						fatalf("%s: %v", varName, err)
					}
					out = append(out, [2]string{fmt.Sprint(n), s})
				}
			}
		}
	}
	if !found {
		fatalf("map %s not found", varName)
	}
	sort.Slice(out, func(i, j int) bool { return out[i][0] < out[j][0] })
	return out
}

func genTxFsm(modelDir string) {
	pbFiles := parseDir(filepath.Join(modelDir, "pb"))
	status := enumValues(pbFiles, "TransactionStatus_")
	ibtpType := enumValues(pbFiles, "IBTP_")
	cfiles := []*ast.File{parseFile(filepath.Join(*repo, "internal/executor/contracts/transaction_manager.go"))}
	lc := newConsts()
	lc.collect(cfiles)
	ev := &strEval{local: lc, pbPrefix: map[string]bool{"TransactionStatus_": true}}
	evs := fsmEventsOf(cfiles, "setFSM", "TransactionManager", ev)

	v := newV("Gen_TxFsm.v", "source: internal/executor/contracts/transaction_manager.go (setFSM, receipt2EventM, txStatus2EventM); bitxhub-model pb enums")
	v.b.WriteString("Definition tx_status_values : list (string * N) :=\n  [")
	for i, k := range sortedKeys(status) {
		if i > 0 {
			v.b.WriteString("; ")
		}
		fmt.Fprintf(&v.b, "(%s, %d)", gstr(k), status[k])
	}
	v.b.WriteString("].\n\n")
	v.b.WriteString("Definition ibtp_type_values : list (string * N) :=\n  [")
	first := true
	for _, k := range sortedKeys(ibtpType) {
		if !first {
			v.b.WriteString("; ")
		}
		first = false
		fmt.Fprintf(&v.b, "(%s, %d)", gstr(k), ibtpType[k])
	}
	v.b.WriteString("].\n\n")
	writeEvents(v, "tx_fsm_events", evs)
	for _, m := range []struct{ name, gname, prefix string; enum map[string]int64 }{
		{"receipt2EventM", "receipt2event", "IBTP_", ibtpType},
		{"txStatus2EventM", "txstatus2event", "TransactionStatus_", status},
	} {
		kvs := int32StringMap(cfiles, m.name, m.enum, m.prefix, ev)
		fmt.Fprintf(&v.b, "Definition %s : list (N * string) :=\n  [", m.gname)
		for i, kv := range kvs {
			if i > 0 {
				v.b.WriteString("; ")
			}
			fmt.Fprintf(&v.b, "(%s, %s)", kv[0], gstr(kv[1]))
		}
		v.b.WriteString("].\n\n")
	}
	if s, ok := lc.str["TransactionStateInit"]; ok {
		fmt.Fprintf(&v.b, "Definition tx_state_init : string := %s.\n", gstr(s))
	} else {
		fatalf("TransactionStateInit not found")
	}
	v.write()
}
