#!/usr/bin/env python3
"""assemble MANIFEST.json from manifest.d/*.json (one fragment per property) + manifest.d/_head.json"""
import json, os, glob, subprocess
HERE = os.path.dirname(os.path.dirname(os.path.abspath(__file__)))
head = json.load(open(os.path.join(HERE, "manifest.d", "_head.json")))
checks, na = [], []
for f in sorted(glob.glob(os.path.join(HERE, "manifest.d", "C*.json"))):
    d = json.load(open(f))
    if "reason" in d and "quick_cmd" not in d:
        na.append(dict(property_id=d["property_id"], reason=d["reason"]))
    else:
        checks.append(d)
claimed = {c["property_id"] for c in checks}
for l in open(os.path.join(HERE, "properties.jsonl")):
    pid = json.loads(l)["id"]
    if pid not in claimed and pid not in {n["property_id"] for n in na}:
        na.append(dict(property_id=pid, reason="not yet covered by a proved theorem plus running correspondence in this tree; see DESIGN.md section 7 for the plan"))
try:
    commits = subprocess.check_output(["git", "-C", "/repo", "log", "--format=%H %s"], text=True).splitlines()
    head["hooks"]["source_commits"] = [c.split()[0] for c in commits if " verif hook" in c]
except Exception:
    pass
head["checks"] = checks
head["not_applicable"] = sorted(na, key=lambda n: n["property_id"])
json.dump(head, open(os.path.join(HERE, "MANIFEST.json"), "w"), indent=1)
print("MANIFEST.json:", len(checks), "checks,", len(na), "not claimed")

# known_findings.json is assembled from known_findings.d/*.json (edited by hand at development time only)
kf = dict(comment="Genuine defects of meshplus/bitxhub reproduced on the real code by the checks and recorded rather than repaired (findings), "
                  "and repaired ones (fixed). Each finding is identified by the specific input / call site / history that fails; a check prints "
                  "KNOWN-FINDING for it and still reports any other violation of the same property. Assembled from known_findings.d/; never written at run time.",
          findings=[], fixed=[])
for f in sorted(glob.glob(os.path.join(HERE, "known_findings.d", "*.json"))):
    d = json.load(open(f))
    kf["findings"] += d.get("findings", [])
    kf["fixed"] += d.get("fixed", [])
json.dump(kf, open(os.path.join(HERE, "known_findings.json"), "w"), indent=1)
