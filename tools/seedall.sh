#!/bin/bash
# tools/seedall.sh C01a C01b ...   (default: every seeded/<id>): run the property's check against each seeded change
cd /verif
ids="$@"; [ -z "$ids" ] && ids=$(ls seeded)
for id in $ids; do
  out=$(timeout 3000 python3 tools/seedtest.py check seeded/$id 2>&1 | tail -3 | tr '\n' ' ')
  echo "== $id :: $out" | cut -c1-400
done
