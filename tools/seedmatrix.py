#!/usr/bin/env python3
"""seeded/MATRIX.md: which check catches which independently seeded change (from seeded/*/results.json)"""
import json, os, glob
HERE = os.path.dirname(os.path.dirname(os.path.abspath(__file__)))
rows = []
for d in sorted(glob.glob(os.path.join(HERE, "seeded", "C*"))):
    if not os.path.isdir(d):
        continue
    m = json.load(open(os.path.join(d, "meta.json")))
    r = json.load(open(os.path.join(d, "results.json"))) if os.path.exists(os.path.join(d, "results.json")) else {}
    v = r.get("verify", {})
    c = r.get("check", {})
    note = m.get("status_note", "")
    res = []
    for pid, x in sorted(c.items()):
        if isinstance(x, dict) and "detected" in x:
            res.append("%s: %s" % (pid, "caught (concrete replay)" if x.get("concrete") else "caught (broken proof/tie, no-failing-input-found)" if x.get("detected") else "MISSED"))
        elif pid == "error":
            res.append(str(x))
    rows.append((m["id"], m["property"], m["summary"].replace("|", "/")[:230], m.get("needs", "").replace("|", "/")[:200],
                 "yes" if v.get("confirmed") else "no", "; ".join(res) or "-", note))
with open(os.path.join(HERE, "seeded", "MATRIX.md"), "w") as f:
    f.write("# Seeded changes vs checks\n\nEach change was written by an independent sub-agent that saw only the property text and a scratch worktree; "
            "`confirmed` = builds, pinned suite passes, its demonstration fails with the patch and passes without (tools/seedtest.py verify). "
            "`result` = outcome of `tools/seedtest.py check` (the property's quick check run through VERIF_REPO against a worktree with the patch applied).\n\n")
    f.write("| id | property | change | needs | confirmed | result | note |\n|---|---|---|---|---|---|---|\n")
    for r in rows:
        f.write("| " + " | ".join(r) + " |\n")
print("wrote seeded/MATRIX.md with", len(rows), "rows")
