#!/bin/bash
# tools/intake.sh ID...  : normalise /tmp/seeded/ID/meta.json, verify the mutant, copy it into seeded/, run its property's check
cd /verif
for s in "$@"; do
python3 - <<PY
import json,re
p='/tmp/seeded/$s/meta.json'; m=json.load(open(p))
c=m['demo_cmd']
if '&&' in c:
    parts=[x.strip() for x in c.split('&&')]
    c=[x for x in parts if 'go test' in x or 'go run' in x][-1]
m['demo_cmd']=c
json.dump(m,open(p,'w'),indent=1)
PY
v=$(timeout 1800 python3 tools/seedtest.py verify /tmp/seeded/$s 2>&1 | grep -E '"confirmed"' | tr -d ' \n')
echo "verify $s $v"
if echo "$v" | grep -q true; then
  mkdir -p seeded/$s && cp -r /tmp/seeded/$s/patch.diff /tmp/seeded/$s/demo /tmp/seeded/$s/meta.json /tmp/seeded/$s/results.json seeded/$s/
  out=$(timeout 3000 python3 tools/seedtest.py check seeded/$s 2>&1 | tail -2 | tr '\n' ' ')
  echo "check $s :: $out" | cut -c1-260
fi
done
