#!/bin/bash
# run every claimed check's quick command once, sequentially; print rc + wall time + VIOLATION/KNOWN lines
cd /verif
for f in manifest.d/C*.json; do
  id=$(basename $f .json)
  s=$(date +%s)
  out=$(timeout 1800 ./check $id --tier ${1:-quick} 2>/tmp/runall_$id.err)
  rc=$?
  e=$(date +%s)
  echo "== $id rc=$rc wall=$((e-s))s"
  echo "$out" | grep -E "^(VIOLATION|KNOWN-FINDING)" | cut -c1-220
done
