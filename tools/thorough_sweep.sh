#!/bin/bash
# run every thorough check once (sequentially), keep a copy of its evidence under evidence/thorough/, then restore quick evidence
cd /verif; mkdir -p evidence/thorough
for f in manifest.d/C*.json; do
  id=$(basename $f .json)
  t0=$(date +%s)
  out=$(timeout 7200 ./check $id --tier thorough 2>/tmp/thorough_$id.err); rc=$?
  t1=$(date +%s)
  cp evidence/$id.json evidence/thorough/$id.json 2>/dev/null
  echo "$id rc=$rc wall=$((t1-t0))s $(echo "$out" | grep -c '^VIOLATION') violations $(echo "$out" | grep -c '^KNOWN-FINDING') known"
  echo "$out" | grep '^VIOLATION' | head -3
done
