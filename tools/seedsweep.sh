#!/bin/bash
# clean-tree stability: every quick check under several seeds; prints only non-zero exits / VIOLATION lines
cd /verif
for s in ${@:-2 3 4}; do
  for f in manifest.d/C*.json; do
    id=$(basename $f .json)
    t0=$(date +%s)
    out=$(VERIF_SEED=$s timeout 2400 ./check $id --tier quick 2>/tmp/sweep_${id}_$s.err); rc=$?
    t1=$(date +%s)
    echo "seed=$s $id rc=$rc wall=$((t1-t0))s $(echo "$out" | grep -c '^VIOLATION') violations"
    echo "$out" | grep '^VIOLATION' | head -3
  done
done
