#!/usr/bin/env python3
"""Run checks against a seeded change without touching /repo.

  tools/seedtest.py verify <seeded_dir>            confirm the mutant: builds, pinned suite passes, demo fails with / passes without
  tools/seedtest.py check  <seeded_dir> [Cnn ...]  apply patch in a scratch worktree, run ./check Cnn (default: meta.property) via VERIF_REPO
Results are appended to <seeded_dir>/results.json."""
import json
import os
import shutil
import subprocess
import sys
import time

VERIF = os.path.dirname(os.path.dirname(os.path.abspath(__file__)))
ENV = dict(os.environ, GOFLAGS="-mod=mod", GOPROXY="off", GOSUMDB="off", GOTOOLCHAIN="local")
PINNED = "go build -ldflags=-checklinkname=0 ./... && TMPDIR=$(mktemp -d) go test -vet=off -count=1 ./internal/ledger/ ./internal/model/ ./internal/repo/ ./pkg/order/ ./pkg/order/mempool/ ./pkg/ratelimiter/ ./pkg/vm/wasm/"


def sh(cmd, cwd=None, timeout=3600, env=ENV):
    p = subprocess.run(cmd, shell=True, cwd=cwd, env=env, capture_output=True, text=True, timeout=timeout)
    return p.returncode, p.stdout + p.stderr


def worktree(tag):
    wt = "/tmp/seedwt_%s_%d" % (tag, os.getpid())
    sh("git -C /repo worktree remove --force %s" % wt)
    rc, o = sh("git -C /repo worktree add %s HEAD" % wt)
    if rc != 0:
        raise SystemExit("worktree failed: " + o)
    return wt


def drop(wt):
    sh("git -C /repo worktree remove --force %s" % wt)
    shutil.rmtree(wt, ignore_errors=True)
    sh("git -C /repo worktree prune")


def record(sd, key, val):
    p = os.path.join(sd, "results.json")
    d = json.load(open(p)) if os.path.exists(p) else {}
    d[key] = val
    json.dump(d, open(p, "w"), indent=1, sort_keys=True)


def copy_demo(sd, wt, meta):
    dst = (meta.get("demo_copy_to") or "").split()[0].rstrip(",;:") if (meta.get("demo_copy_to") or "").strip() else ""
    if dst.startswith("/tmp/mut_"):
        dst = "/".join(dst.split("/")[3:])
    demo = os.path.join(sd, "demo")
    files = sorted(os.listdir(demo)) if os.path.isdir(demo) else []
    if dst:
        target = os.path.join(wt, dst)
        if len(files) == 1 and (dst.endswith(".go") or "." in os.path.basename(dst)):
            os.makedirs(os.path.dirname(target), exist_ok=True)
            shutil.copy(os.path.join(demo, files[0]), target)
        else:
            os.makedirs(target, exist_ok=True)
            for f in files:
                shutil.copy(os.path.join(demo, f), os.path.join(target, f))


def verify(sd):
    meta = json.load(open(os.path.join(sd, "meta.json")))
    wt = worktree(meta["id"])
    res = {}
    try:
        copy_demo(sd, wt, meta)
        rc0, o0 = sh(meta["demo_cmd"], cwd=wt)
        res["demo_without_patch_rc"] = rc0
        sh("git clean -fdq && git checkout -q -- .", cwd=wt)
        rc, o = sh("git apply %s" % os.path.join(sd, "patch.diff"), cwd=wt)
        res["apply_rc"] = rc
        if rc != 0:
            res["apply_out"] = o[-500:]
        rcp, op = sh(PINNED, cwd=wt)
        res["pinned_rc"] = rcp
        if rcp != 0:
            res["pinned_out"] = op[-1500:]
        copy_demo(sd, wt, meta)
        rc1, o1 = sh(meta["demo_cmd"], cwd=wt)
        res["demo_with_patch_rc"] = rc1
        res["demo_with_patch_tail"] = o1[-600:]
        res["confirmed"] = (rc0 == 0 and rc == 0 and rcp == 0 and rc1 != 0)
    finally:
        drop(wt)
    record(sd, "verify", res)
    print(json.dumps(res, indent=1))
    return 0 if res.get("confirmed") else 1


def check(sd, pids):
    meta = json.load(open(os.path.join(sd, "meta.json")))
    pids = pids or [meta["property"]]
    wt = worktree(meta["id"])
    out = {}
    try:
        rc, o = sh("git apply %s" % os.path.join(sd, "patch.diff"), cwd=wt)
        if rc != 0:
            # /repo has moved on (fix commits): retry with fuzz
            rc, o = sh("patch -p1 --fuzz=3 --no-backup-if-mismatch < %s" % os.path.join(sd, "patch.diff"), cwd=wt)
        if rc != 0:
            print("patch does not apply:", o)
            record(sd, "check", {"error": "patch does not apply at " + sh("git -C /repo rev-parse --short HEAD")[1].strip()})
            return 2
        for pid in pids:
            t0 = time.time()
            rc, o = sh("./check %s" % pid, cwd=VERIF, env=dict(os.environ, VERIF_REPO=wt), timeout=3600)
            lines = [l for l in o.splitlines() if l.startswith("VIOLATION") or l.startswith("KNOWN-FINDING")]
            out[pid] = dict(rc=rc, detected=(rc == 1 and any(l.startswith("VIOLATION") for l in lines)),
                            concrete=any(l.startswith("VIOLATION") and "no-failing-input-found" not in l for l in lines),
                            lines=lines[:6], wall_s=round(time.time() - t0, 1))
            print(pid, json.dumps(out[pid]))
    finally:
        drop(wt)
        import hashlib
        tag = hashlib.sha1(os.path.realpath(wt).encode()).hexdigest()[:10]
        shutil.rmtree(os.path.join(VERIF, "build", "alt_" + tag), ignore_errors=True)
    record(sd, "check", out)
    return 0 if all(v["detected"] for v in out.values()) else 1


if __name__ == "__main__":
    if len(sys.argv) < 3:
        print(__doc__)
        sys.exit(2)
    sd = os.path.abspath(sys.argv[2])
    sys.exit(verify(sd) if sys.argv[1] == "verify" else check(sd, sys.argv[3:]))
